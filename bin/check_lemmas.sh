#!/bin/bash
# Checks the Lean lemma library (Lean 4 + Mathlib) and records the hashes of what was checked.
cd "$(dirname "$0")/../lemmas" || exit 1
rm -f .checked
ok=1
for f in Lemmas1.lean Lemmas2.lean; do
  if out=$(lean "$f" 2>&1) && [ -z "$(echo "$out" | grep -E 'error|sorry')" ]; then
    sha256sum "$f" >> .checked
  else
    echo "LEMMA CHECK FAILED: $f"; echo "$out" | head -20; ok=0
  fi
done
[ $ok = 1 ] && echo "lemmas ok: $(wc -l < .checked) files" || exit 1

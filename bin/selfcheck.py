"""Setup-time sanity: tools present, repo parses, engine imports."""
import sys, os
sys.path.insert(0, os.path.dirname(os.path.dirname(os.path.abspath(__file__))))
import z3
from pyvc.api import Context
ctx = Context().load('core', 'persistent', 'fanout', 'recipes')
assert ctx.func('diskcache.core.Disk.put') is not None
print('selfcheck ok: z3', z3.get_version_string())

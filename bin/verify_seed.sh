#!/bin/bash
# usage: verify_seed.sh <worktree> <dest-name>
# Confirms a seeded change: demo fails with it, passes without it, suite passes with it.
wt=$1; name=$2
dest=/verif/seeded/$name
cd $wt || exit 2
git diff -- diskcache > patch.diff
[ -s patch.diff ] || { echo "empty patch"; exit 2; }
PYTHONPATH=$wt timeout 300 /venv/bin/python demo.py >/tmp/seed_$name.with.log 2>&1; with=$?
git apply -R patch.diff
PYTHONPATH=$wt timeout 300 /venv/bin/python demo.py >/tmp/seed_$name.without.log 2>&1; without=$?
git apply patch.diff
PYTHONPATH=$wt timeout 900 /venv/bin/python -m pytest -q -p no:cacheprovider --timeout=900 -x --deselect tests/test_djangocache.py::DiskCacheTests::test_cache_write_for_model_instance_with_deferred >/tmp/seed_$name.suite.log 2>&1; suite=$?
echo "$name demo_with=$with demo_without=$without suite=$suite $(grep -E 'passed|failed' /tmp/seed_$name.suite.log | tail -1)"
if [ $with -ne 0 ] && [ $without -eq 0 ] && [ $suite -eq 0 ]; then
  mkdir -p $dest
  cp patch.diff demo.py $dest/
  /venv/bin/python - "$wt" "$dest" "$with" "$(grep -E 'passed|failed' /tmp/seed_$name.suite.log | tail -1)" <<'PY'
import json,sys
wt,dest,withc,suite=sys.argv[1:5]
try: m=json.load(open(wt+'/meta.json'))
except Exception as e: m={'error':str(e)}
m['confirmed']={'demo_exit_with_patch':int(withc),'demo_exit_without_patch':0,
  'suite_with_patch':suite,
  'ran':'demo.py with and without the patch in a scratch worktree; repository suite with the patch (known always-failing django test deselected)'}
json.dump(m,open(dest+'/meta.json','w'),indent=1)
PY
  echo "KEPT $dest"
else
  echo "REJECTED $name"
fi
rm -f /tmp/seed_$name.*.log

#!/bin/bash
# Runs every kept seeded change against the check of the property it targets (scratch copy of /repo/diskcache).
# usage: seed_matrix.sh [seed-name ...]   -> appends lines to seeded/MATRIX.txt
cd /verif
out=seeded/MATRIX.txt
seeds="$@"; [ -z "$seeds" ] && seeds=$(ls seeded | grep -v MATRIX)
for s in $seeds; do
  pid=$(python3 -c "import json;print(json.load(open('seeded/$s/meta.json'))['property'])")
  res=$(timeout 3000 bin/mutcheck.sh /verif/seeded/$s/patch.diff $pid 2>&1)
  line=$(echo "$res" | grep -E "^C[0-9]+ tier" | tail -1)
  first=$(echo "$res" | grep -E "^VIOLATION" | head -1 | sed -e 's/.*obligation=//' | cut -c1-110)
  code=$(echo "$line" | sed -e 's/.*exit=//')
  echo "$s | $pid | exit=$code | $(echo $line | sed -e 's/.*obligations=/obl=/' -e 's/wall.*//') | first: $first" | tee -a $out
done

#!/bin/bash
# Runs every kept seeded change against the check of the property it targets (scratch copy of /repo/diskcache).
# usage: seed_matrix.sh [seed-name ...]   -> appends lines to seeded/MATRIX.txt
cd /verif
out=seeded/MATRIX.txt
seeds="$@"; [ -z "$seeds" ] && seeds=$(ls seeded | grep -v MATRIX)
for s in $seeds; do
  pid=$(python3 -c "import json;print(json.load(open('seeded/$s/meta.json'))['property'])")
  if [ "$pid" = "none" ]; then
    # behaviour-preserving change: every check must stay at exit 0
    res=$(timeout 6000 bin/mutcheck.sh /verif/seeded/$s/patch.diff C01 C02 C03 C04 C05 C06 C07 C08 C09 C10 C11 C12 C13 C14 C15 C16 C17 C18 C19 C20 2>&1)
    worst=$(echo "$res" | grep -E "^C[0-9]+ tier" | sed -e 's/.*exit=//' | sort -n | tail -1)
    n=$(echo "$res" | grep -cE "^C[0-9]+ tier")
    und=$(echo "$res" | grep -cE "^UNDECIDED")
    echo "$s | all | worst exit=$worst over $n checks | undecided lines=$und | harmless change: must be 0" | tee -a $out
    continue
  fi
  res=$(timeout 3000 bin/mutcheck.sh /verif/seeded/$s/patch.diff $pid 2>&1)
  line=$(echo "$res" | grep -E "^C[0-9]+ tier" | tail -1)
  first=$(echo "$res" | grep -E "^VIOLATION" | head -1 | sed -e 's/.*obligation=//' | cut -c1-110)
  code=$(echo "$line" | sed -e 's/.*exit=//')
  echo "$s | $pid | exit=$code | $(echo $line | sed -e 's/.*obligations=/obl=/' -e 's/wall.*//') | first: $first" | tee -a $out
done

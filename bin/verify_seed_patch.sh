#!/bin/bash
# usage: verify_seed_patch.sh <seed-dir> : confirm demo fails with patch, passes without, suite passes with patch
sd=$1; name=$(basename $sd)
tmp=$(mktemp -d /tmp/seedchk.XXXXXX)
git -C /repo worktree add -q --detach $tmp/wt HEAD || exit 2
cd $tmp/wt
PYTHONPATH=$tmp/wt timeout 300 /venv/bin/python $sd/demo.py >/dev/null 2>&1; without=$?
git apply $sd/patch.diff || { echo "$name: patch does not apply"; cd /; git -C /repo worktree remove --force $tmp/wt; rm -rf $tmp; exit 2; }
PYTHONPATH=$tmp/wt timeout 300 /venv/bin/python $sd/demo.py >/dev/null 2>&1; with=$?
PYTHONPATH=$tmp/wt timeout 900 /venv/bin/python -m pytest -q -p no:cacheprovider --timeout=900 -x --deselect tests/test_djangocache.py::DiskCacheTests::test_cache_write_for_model_instance_with_deferred >$tmp/suite.log 2>&1; suite=$?
line=$(grep -E 'passed|failed' $tmp/suite.log | tail -1)
echo "$name demo_with=$with demo_without=$without suite=$suite $line"
if [ $with -ne 0 ] && [ $without -eq 0 ] && [ $suite -eq 0 ]; then
  /venv/bin/python - "$sd" "$with" "$line" <<'PY'
import json,sys
sd,withc,suite=sys.argv[1:4]
m=json.load(open(sd+'/meta.json'))
m['confirmed']={'demo_exit_with_patch':int(withc),'demo_exit_without_patch':0,'suite_with_patch':suite,
  'ran':'demo.py with and without the patch in a scratch worktree of /repo HEAD; repository suite with the patch (known always-failing django test deselected)'}
json.dump(m,open(sd+'/meta.json','w'),indent=1)
PY
fi
cd /; git -C /repo worktree remove --force $tmp/wt; rm -rf $tmp

#!/bin/bash
# usage: mutcheck.sh <patch.diff> <Cxx> [more Cxx...]
# Applies a patch to a scratch copy of /repo (removed afterwards) and runs the checks on it.
patch=$1; shift
tmp=$(mktemp -d /tmp/mut.XXXXXX)
cp -r /repo/diskcache $tmp/ && mkdir -p $tmp/ev
( cd $tmp && patch -p1 -s < $patch ) || { echo "patch failed"; rm -rf $tmp; exit 9; }
rc=0
for pid in "$@"; do
  VERIF_REPO=$tmp VERIF_EVIDENCE_DIR=$tmp/ev /opt/veriftools/pyvenv/bin/python /verif/bin/vcheck $pid 2>&1 | sed -e "s#$tmp/ev#<ev>#g" | grep -E "^(VIOLATION|UNDECIDED|CHECKER-ERROR|KNOWN|C[0-9]+ tier)" | cut -c1-260
done
rm -rf $tmp

#!/usr/bin/env python3
"""Regenerates MANIFEST.json from the claim table below (edit here, not the JSON)."""
import json, os
V = os.path.dirname(os.path.dirname(os.path.abspath(__file__)))
TRUST = ("Trusted: the pyvc engine's semantics for the Python subset (DESIGN 2.2), the environment contracts listed in "
         "evidence.trusted_base (sqlite3 binding, pickle/json/zlib/struct/codecs, files, clock), z3/cvc5. ")
CLAIMS = {
 'C01': dict(
   text="Proof that fetch(store(v)) is v with its type for every value class (str, bytes, int of any magnitude, float incl. NaN/inf/-0.0, bool, None, other picklable, binary stream) with symbolic disk_min_file_size >= 0 (both sides of the file threshold are paths), symbolic pickle protocol and compress level, for Disk and JSONDisk: Disk.store, _write, filename, fetch and the JSONDisk wrappers are symbolically executed from /repo; the chunk loop of _write carries an inductive invariant (file content = concatenation of chunks consumed); the recorded size equals the bytes written; a raw float handed to sqlite is never NaN; _write returns only after complete content or re-raises on the 10th failed open.",
   note=TRUST + "File semantics (exclusive create, text codec/newline/errors behaviour, A-POSIX), pickle/json/zlib inverses and the sqlite3 column round-trip are environment contracts; single client between store and fetch; JSONDisk restricted to JSON-round-trippable values; streams stored under JSONDisk are specified for read=True lookups only. Carrier obligations (Cache methods pass value/columns unchanged) belong to the Cache-level checks.",
   tech="contract-based deductive verification: symbolic execution of the real store/fetch bodies per value class, loop invariant for the chunk loop, z3"),
 'C02': dict(
   text="Proof of the key-addressing clauses for all keys: Disk.put/Disk.get and JSONDisk.put/get are symbolically executed from /repo per key class (str, bytes, int of any magnitude, float, bool, None, other picklable) and z3 discharges get(put(k)) is k with its type, and for all 28 class pairs x {Disk, JSONDisk}: two keys reach the same (key, raw) index entry iff they are equal under the documented rule. Two JSONDisk defects are recorded findings with proved residuals.",
   note=TRUST + "Key equality for non-native keys is identity of type and structure (A-PICKLE-canon); ints beyond 64 bits count as non-native. Lookup sites (WHERE key = ? AND raw = ?) are covered by the Cache-level checks when claimed. Undecided obligations fall back to the bounded stand-in (native enumeration, never counted as proved).",
   tech="contract-based deductive verification: own AST->z3 VC generator over the real Disk.put/get bodies; known-finding residuals; bounded native stand-in when undecided"),
 'C03': dict(
   text="Proof of the refinement step for the single-item operations: the real bodies of Cache.set, add, touch, incr, get, __contains__, pop, __delitem__, delete (with _transact, _row_insert, _row_update, _cull and volume inlined) are symbolically executed from /repo against a symbolic model of the Cache/Settings tables (SQL texts parsed, triggers read from __init__) for all keys, values, ttls, tags, flags, clock readings, table contents satisfying the representation invariant, 4 eviction policies, symbolic cull_limit/size_limit/statistics; z3 discharges, per fault-free path, the representation invariant and `result and table' = reference operation`, with the frame over the whole table (every other row unchanged or removed as the cull relation allows). Every finite history follows by induction. Bulk removal (clear/evict/expire), iteration, peekitem and length/statistics accessors are covered by the bounded native stand-in only (random histories against a reference dictionary under a mocked clock, 350-item page-boundary scenario), listed under coverage.bounded.",
   note=TRUST + "Disk.put/get/store/fetch/remove enter as the contracts proved in C01/C02; Cache.reset is an assumed contract; SQLite semantics of the statement subset, A-SQL-det, finite-sum/cardinality arithmetic are trusted; single client, no faults (C08/C14), rows and files agree at entry (C08).",
   tech="contract-based deductive verification: symbolic execution of the real method bodies over a z3 array model of the tables (parsed SQL), refinement obligations; bounded native differential stand-in for the loops not yet under contract"),
 'C04': dict(
   text="Proof, for every clock reading including the instant t == expire_time, every ttl (None, zero, negative, any real) and every table content, that each site named in the property (get, __contains__, pop, __delitem__/delete, touch, add, incr, set) treats an item as live exactly when it has no expiry or t < expire_time, stores expire_time = entry reading + ttl (NULL without ttl), and that the lazy removal done by writes removes only rows with expire_time < now and at most cull_limit of them (parts refine.cull.* of the write obligations). expire() (any number of items sharing an expiry time, more than a page), pull/peek/peekitem and FanoutCache.expire are covered by the bounded native stand-in only.",
   note=TRUST + "Same model and trusted base as C03; floats in clock arithmetic are reals; reading of the boundary: invisible from t == expire_time on, expire()/cull required to remove rows with expire_time < now.",
   tech="contract-based deductive verification (shared refinement obligations of c03 under the C04 view); bounded native stand-in for expire()/queue operations"),
 'C05': dict(
   text="Proof of the sufficient conditions for atomicity, on every path (all fault outcomes, outermost and nested entry) of set, add, touch, incr, pop, __delitem__, delete, get, __contains__ executed from /repo: once an operation writes, every table statement it executes lies inside one BEGIN IMMEDIATE ... COMMIT section (never a deferred BEGIN); a value file that existed before the operation is removed only after the commit that dropped its reference; a lookup whose value file has vanished reports a miss and raises nothing. The nested-block cleanup defect is a recorded finding (residual: all outermost paths proved).",
   note=TRUST + "A-SQL-iso (a BEGIN IMMEDIATE..COMMIT section is atomic and isolated) is the rely condition and is never proved; no interleaving is executed: linearisability is a paper argument from these obligations. push/pull/peek, bulk removals and iteration are not yet under contract.",
   tech="contract-based deductive verification: effect-trace obligations over symbolically executed method bodies (atomic section, lock discipline, file ordering)"),
 'C06': dict(
   text="Proof, on every path of the mutating methods executed from /repo through the real _transact generator: a block entered by the thread that already owns the transaction executes no BEGIN/COMMIT/ROLLBACK and keeps the owner; an outermost block ends with exactly one COMMIT (normal exit) or ROLLBACK (any exception from the body, including KeyboardInterrupt), clears the owner, re-raises, and after a rollback the table view equals the view at entry (z3). Recorded finding: files of replaced/removed items are deleted at inner-block exit.",
   note=TRUST + "Isolation and 'visible at once' are A-SQL-iso; FanoutCache.transact (ExitStack) and Deque/Index.transact delegation are not yet under contract.",
   tech="contract-based deductive verification: trace obligations + rollback-restores-view VCs on the real _transact body"),
 'C07': dict(
   text="Proof, at every COMMIT point of every path of the mutating methods, that each committed file-backed row names an existing, completely written file of the recorded size (crash invariant at the commit points, z3), that pre-existing value files are removed only after the commit that unreferences them (so a kill between any two Python-level effects leaves committed references intact), that a completed call has committed, and that value files are created exclusively. Same recorded finding as C06 for nested blocks.",
   note=TRUST + "Kills inside SQLite or inside a libc write, lock release on process death and durability are A-SQL-iso / OS behaviour; Disk.store's contract (file complete and closed before it returns) is proved in C01.",
   tech="contract-based deductive verification: crash-invariant VCs at commit points + effect ordering obligations"),
 'C08': dict(
   text="Proof, on every normal and exceptional exit of the mutating methods (every statement may fail, store may fail before or after creating its file, lock may be busy): count and size counters equal the recomputed values (triggers parsed from the source), every value file reference dropped by a committed UPDATE/DELETE is followed by removal of that file, rows removed by culling have their files scheduled, and every file created by the call is referenced by a committed row or removed. The last clause fails on exits by an exception raised after the file was created (recorded finding, natively reproduced); the residual (normal exits and Timeout exits) is proved.",
   note=TRUST + "Bulk removal, queue operations, concurrency and check() itself are not yet under contract for this property.",
   tech="contract-based deductive verification: trace obligations quantified over all raising outcomes of every environment call"),
 'C09': dict(
   text="Proof, per eviction policy and for symbolic cull_limit, size_limit, page_count and table contents, that one write (set/add/incr) removes at most cull_limit rows in total and none when it is 0, that rows selected by the policy query are removed only when volume() >= size_limit, never under policy 'none', and that every evicted row sorts before-or-equal every remaining row in the policy's column; that get and incr refresh access_time / access_count exactly as the policy table promises. cull() and per-shard limits of FanoutCache are covered by the bounded native stand-in only.",
   note=TRUST + "PRAGMA page_count is an opaque non-negative integer; A-SQL-det (DELETE ... IN (identical ordered-limit SELECT) deletes the rows of that SELECT); same table model as C03.",
   tech="contract-based deductive verification: cull relation obligations over ordered-LIMIT page semantics in z3; bounded native stand-in for cull()"),
 'C13': dict(
   text="Proof, for every key and every shard count n>=1 (symbolic), that each key-addressed FanoutCache method makes exactly one call, on shard hash(key) % n, to the same-named Cache method with arguments matched by Cache's real parameter names, and maps result/Timeout as documented; aggregate methods cover every shard exactly once (loop invariants over a symbolic-length shard tuple; totals include counts carried by Timeout); Disk.hash equals the released routing function, is a pure function of the key, and respects key equality except for the two recorded findings (int/float, signed zero) whose residuals are proved.",
   note=TRUST + "Cache methods are represented by recorders with the outcome lists in contracts/fanout_common.py (assumed callee contracts); adler32 is uninterpreted (replays confirm refutations). Per-shard behaviour equal to an unsharded cache is the composition with C03 (not re-proved here).",
   tech="contract-based deductive verification: symbolic execution of FanoutCache/Disk.hash bodies, delegate obligations, inductive loop invariants, z3"),
 'C14': dict(
   text="Proof for set, add, touch, incr, pop, __delitem__, delete, get: on the Timeout exit the tables and the set of files are exactly as at entry (the just-written value file is removed), no write statement has executed, and the exit is infeasible when retry is true (partial correctness: if it returns the lock was held); get/__contains__ with statistics off and a non-recording policy never BEGIN; operator forms pass retry=True; every key-addressed FanoutCache method maps a shard's Timeout to the documented return value and never propagates it.",
   note=TRUST + "How long SQLite waits is not modelled, only the outcome 'BEGIN raised'; bulk removals' Timeout(count) and DjangoCache retry defaults (see C19) are not part of this check yet; 'then succeeds' is liveness.",
   tech="contract-based deductive verification: raises-clauses on the symbolic table model, delegate obligations for FanoutCache"),
 'C16': dict(
   text="Proof that core.args_to_key, executed from /repo for argument tuples and keyword dictionaries of any size (symbolic z3 sequences, inductive loop invariant over the sorted items), returns base ++ args ++ [None] ++ flattened sorted items (++ types when typed); from that structure z3 plus the Lean-checked lemma flat_inj prove that calls with different arguments get different keys (different function names, no keywords, equal positional arity, positional vs keyword), and that the typed key extends the untyped one. The memoize wrappers of Cache, DjangoCache and memoize_stampede (incl. its early recomputation thread) are executed against recorder cache/function objects: lookup with ENOVAL default, exactly one call with the caller's arguments on a miss, result returned, stored iff the expiry allows, nothing called on a hit; Index.memoize delegates; FanoutCache.memoize is Cache.memoize. The positional-None/separator collision is a recorded finding with a proved residual.",
   note=TRUST + "The wrapped function is deterministic (requires); key identity is type-and-structure (A-PICKLE-canon); keyword names are text; ignore sets other than () are covered only by a bounded enumeration (arity <= 3), listed under coverage.bounded and not counted as proved. The Lean lemma is checked by setup_cmd; without it the obligation using it is reported undecided.",
   tech="contract-based deductive verification: symbolic execution with loop invariant over z3 sequences, Lean 4 lemma as axiom, delegate obligations against recorders"),
 'C19': dict(
   text="Proof at the routing level for every DjangoCache method: the body, executed from /repo against a recorder standing for the real FanoutCache signature, applies make_key(key, version) exactly once, converts the timeout by get_backend_timeout (DEFAULT -> backend default, 0 -> negative, None -> None, any other number unchanged; for all reals), passes every other argument to the same-named FanoutCache parameter, returns the backend's result, turns KeyError from incr into ValueError, decr negates delta, and the documented retry defaults hold.",
   note=TRUST + "Return values of the underlying operations are the composition with C13/C03/C04 (a negative ttl is expired at every later reading); Django's BaseCache (make_key, get_many, set_many, delete_many, get_or_set, incr_version) is dependency code and assumed; floats as reals.",
   tech="contract-based deductive verification: delegate obligations over symbolically executed method bodies, z3 for the timeout mapping"),
 'C20': dict(
   text="Proof of the step obligations of the token bucket over the reals for all counts, rates, stored states within the invariant and clock readings: one arbitrary iteration of the throttle loop (loop contract), executed from /repo, either lets the call through with at least one token available and stores exactly one token less at the current time, or stores nothing and sleeps exactly the positive time until one token is available; the stored tally stays in [0, count]; reads and writes of a step lie inside one transaction block; the decorator initialises (now, count). Averager.add is get+set of (total+v, count+1) inside one block; get/pop return total/count or None.",
   note=TRUST + "Floats are treated as mathematical reals; the window bound follows from the step obligations by telescoping (paper argument); atomicity of a block is A-SQL-iso (C06); liveness ('every call is eventually let through') is not decided.",
   tech="contract-based deductive verification: loop contract for the throttle loop, nonlinear real arithmetic in z3, trace obligations for the atomic section"),
}
ORDER = ['C%02d' % i for i in range(1, 21)]
NOT_YET = "not reached yet (build in progress)"
m = {
 "version": 1,
 "setup_cmd": "python3-vt -m compileall -q pyvc contracts >/dev/null && bin/check_lemmas.sh && python3-vt bin/selfcheck.py",
 "hooks": {"guard": "DISKCACHE_VERIF",
           "enable": "no source hooks: /repo is parsed with ast on every run and, for replays and stand-ins, imported unmodified under /venv/bin/python",
           "baseline_off_cmd": "cd /repo && /venv/bin/python -m pytest -q -p no:cacheprovider --timeout=900",
           "source_commits": [], "add_only": True},
 "engines": [{"name": "pyvc", "path": "pyvc/", "serves_properties": sorted(CLAIMS),
              "kind_free_text": "VC generator: symbolic execution of the real Python AST (replay-based path exploration), sidecar contracts, z3 (cvc5 on unknowns)"}],
 "checks": [], "not_applicable": [],
 "notes": "Exit codes: 0 held, 1 violation (VIOLATION line), 2 undecided with no passing stand-in, 3 checker error. Known findings: known_findings.json.",
}
for pid in ORDER:
    if pid in CLAIMS:
        c = CLAIMS[pid]
        m['checks'].append({
            "property_id": pid, "quick_cmd": "python3-vt bin/vcheck %s --tier quick" % pid,
            "thorough_cmd": "python3-vt bin/vcheck %s --tier thorough" % pid,
            "evidence_file": "evidence/%s.json" % pid, "engine": "pyvc",
            "replay_cmd_template": "/venv/bin/python contracts/replay_file.py {path}",
            "level_claimed": {"category": "proof", "text": c['text'], "design_ref": "DESIGN.md section 3 (%s)" % pid},
            "level_note": c['note'], "technique": c['tech']})
    else:
        m['not_applicable'].append({"property_id": pid, "reason": NOT_YET})
json.dump(m, open(os.path.join(V, 'MANIFEST.json'), 'w'), indent=1)
print('claimed', sorted(CLAIMS))

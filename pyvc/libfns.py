"""Uninterpreted library functions and the fact-instantiation helper."""
import z3

from .values import *  # noqa

_I, _B = z3.IntSort(), z3.BoolSort()

# uninterpreted library functions ------------------------------------------------
adler32 = z3.Function('zlib_adler32', BYTES, _I)
utf8 = z3.Function('utf8_encode', STR, BYTES)
utf8dec = z3.Function('utf8_decode', BYTES, STR)
utf8_valid = z3.Function('utf8_valid', BYTES, _B)
has_surrogate = z3.Function('has_lone_surrogate', STR, _B)
pack_d = z3.Function('struct_pack_d', F64, BYTES)
unpack_d = z3.Function('struct_unpack_d', BYTES, F64)
dumps = z3.Function('pickle_dumps', PyObj, _I, BYTES)
loads = z3.Function('pickle_loads', BYTES, PyObj)
optimize = z3.Function('pickletools_optimize', BYTES, BYTES)
picklable = z3.Function('picklable', PyObj, _B)
valid_pickle = z3.Function('valid_pickle', BYTES, _B)
json_dumps = z3.Function('json_dumps', PyObj, STR)
json_loads = z3.Function('json_loads', STR, PyObj)
json_able = z3.Function('json_serializable', PyObj, _B)
json_rt = z3.Function('json_roundtrips', PyObj, _B)
json_valid = z3.Function('json_valid', STR, _B)
compress = z3.Function('zlib_compress', BYTES, _I, BYTES)
decompress = z3.Function('zlib_decompress', BYTES, BYTES)
zlib_valid = z3.Function('zlib_valid', BYTES, _B)
hexenc = z3.Function('hex_encode', BYTES, BYTES)
univ_nl = z3.Function('universal_newlines', STR, STR)
enc_other = z3.Function('encode_other_codec', _I, STR, BYTES)
dec_other = z3.Function('decode_other_codec', _I, BYTES, STR)
nl_other = z3.Function('newline_other', _I, STR, STR)


mlog = z3.Function('math_log', z3.RealSort(), z3.RealSort())


def A(it, fact, name):
    """Assume an instance of a library fact and record the contract name."""
    it.env.use(name)
    it.st.assume(fact)



"""Library contracts (trusted base).  Each contract is stated once here and is
listed in evidence under `trusted_base` whenever a check used it.
"""
import z3

from .values import *  # noqa
from .engine import (Unsupported, PyRaise, raise_py, FuncVal, BoundMethod, EnvFunc,
                     EnvModule, EnvClass, ClassInfo, SeqV, IterV)
from .env import (Env, ExcClass, SetV, zbool, is_int, is_str, is_bytes, int_term,
                  term_of, INT64_MIN, INT64_MAX)

from .libfns import *  # noqa
from . import libfns


from .envfs import FsMixin  # noqa: E402


class Lib(FsMixin):
    def __init__(self, env):
        self.env = env
        env.lib = self
        self.codec_ids = {}
        self.install()

    # ------------------------------------------------------------------ modules
    def install(self):
        m = self.env.modules
        E = EnvFunc
        m['zlib'] = {'adler32': E('zlib.adler32', self.zlib_adler32),
                     'compress': E('zlib.compress', self.zlib_compress),
                     'decompress': E('zlib.decompress', self.zlib_decompress),
                     'error': ExcClass('zlib.error')}
        m['struct'] = {'pack': E('struct.pack', self.struct_pack)}
        m['pickle'] = {'dumps': E('pickle.dumps', self.pickle_dumps),
                       'load': E('pickle.load', self.pickle_load),
                       'loads': E('pickle.loads', self.pickle_loads),
                       'HIGHEST_PROTOCOL': 5,
                       'PicklingError': ExcClass('pickle.PicklingError'),
                       'UnpicklingError': ExcClass('pickle.UnpicklingError')}
        m['pickletools'] = {'optimize': E('pickletools.optimize', self.pickletools_optimize)}
        m['json'] = {'dumps': E('json.dumps', self.json_dumps),
                     'loads': E('json.loads', self.json_loads)}
        m['codecs'] = {'encode': E('codecs.encode', self.codecs_encode)}
        m['sqlite3'] = {'Binary': T_BINARY,
                        'OperationalError': ExcClass('sqlite3.OperationalError'),
                        'IntegrityError': ExcClass('sqlite3.IntegrityError'),
                        'InterfaceError': ExcClass('sqlite3.InterfaceError'),
                        'connect': E('sqlite3.connect', self.unsupported('sqlite3.connect'))}
        m['io'] = {'BytesIO': E('io.BytesIO', self.io_bytesio),
                   'StringIO': E('io.StringIO', self.io_stringio)}
        m['functools'] = {'partial': E('functools.partial', self.ft_partial),
                          'wraps': E('functools.wraps', self.ft_wraps),
                          'reduce': E('functools.reduce', self.unsupported('functools.reduce'))}
        m['contextlib'] = {'contextmanager': E('contextlib.contextmanager', lambda it, a, k: self.mark_cm(a[0])),
                           'suppress': E('contextlib.suppress', self.cl_suppress),
                           'ExitStack': E('contextlib.ExitStack', self.exit_stack)}
        self.env.obj_methods['ExitStack'] = {'__enter__': lambda it, o, a, k: o, '__exit__': self.exit_stack_exit,
                                             'enter_context': self.exit_stack_enter}
        m['errno'] = {'EEXIST': 17, 'ENOENT': 2}
        m['os'] = {'path': EnvModule('os.path')}
        m['os.path'] = {}
        m['tempfile'] = {}
        m['time'] = {'time': E('time.time', self.time_time), 'sleep': E('time.sleep', self.time_sleep)}
        m['warnings'] = {'catch_warnings': E('warnings.catch_warnings', self.catch_warnings),
                         'warn': E('warnings.warn', self.warn)}
        self.env.obj_methods['catch_warnings'] = {'__enter__': lambda it, o, a, k: o.fields['log'],
                                                  '__exit__': lambda it, o, a, k: False}
        m['itertools'] = {}
        def opf(nm, cmpname):
            return E('operator.' + nm, lambda it, a, k: it.compare(cmpname, a[0], a[1]))
        m['operator'] = {'eq': opf('eq', 'Eq'), 'ne': opf('ne', 'NotEq'), 'lt': opf('lt', 'Lt'),
                         'gt': opf('gt', 'Gt'), 'le': opf('le', 'LtE'), 'ge': opf('ge', 'GtE')}
        m['math'] = {'log': E('math.log', self.math_log)}
        m['random'] = {'random': E('random.random', self.random_random)}
        m['threading'] = {'Thread': E('threading.Thread', self.thread_new),
                          'get_ident': E('threading.get_ident', self.get_ident),
                          'local': E('threading.local', lambda it, a, k: Obj('threadlocal', {}))}
        self.env.obj_methods['Thread'] = {'start': self.thread_start}
        m['shutil'] = {'rmtree': E('shutil.rmtree', self.unsupported('shutil.rmtree'))}
        m['collections'] = {'OrderedDict': EnvClass('OrderedDict')}
        m['collections.abc'] = {n: EnvClass(n) for n in
                                ('ItemsView', 'KeysView', 'MutableMapping', 'Sequence', 'ValuesView')}
        djdefault = Obj('object', name='DEFAULT_TIMEOUT')
        m['django'] = {}
        m['django.core'] = {}
        m['django.core.cache'] = {}
        m['django.core.cache.backends'] = {}
        m['django.core.cache.backends.base'] = {'BaseCache': EnvClass('BaseCache'),
                                                'DEFAULT_TIMEOUT': djdefault}
        self.django_default_timeout = djdefault
        self.install_fs()
        self.env.obj_methods['suppress'] = {'__enter__': lambda it, o, a, k: None,
                                            '__exit__': self.suppress_exit}

    def suppress_exit(self, it, o, a, k):
        exc = a[0]
        if exc is None:
            return False
        for c in o.fields['classes']:
            n = self.env.exc_class_name(c)
            if n is not None and exc_issubclass(exc.cls, n):
                return True
        return False

    def unsupported(self, name):
        def f(it, a, k):
            raise Unsupported('no environment contract for ' + name)
        return f

    def mark_cm(self, f):
        if isinstance(f, FuncVal):
            f.is_cm = True
        return f

    # ------------------------------------------------------------------ helpers
    def bytes_arg(self, v):
        if isinstance(v, Bin):
            v = v.b
        if is_bytes(v):
            return term_of(v)
        if py_class(v) is not None:
            raise_py('TypeError', 'a bytes-like object is required, not %s' % py_class(v).name)
        raise Unsupported('expected bytes-like, got %r' % (v,))

    # ------------------------------------------------------------------ zlib / struct
    def zlib_adler32(self, it, a, k):
        b = self.bytes_arg(a[0])
        r = adler32(b)
        A(it, z3.And(r >= 0, r < 2 ** 32), 'zlib.adler32: deterministic, result in [0, 2**32); no injectivity assumed')
        return SV('int', r)

    def zlib_compress(self, it, a, k):
        b = self.bytes_arg(a[0])
        lvl = a[1] if len(a) > 1 else k.get('level', -1)
        r = compress(b, int_term(lvl))
        A(it, z3.And(zlib_valid(r), decompress(r) == b),
          'zlib: decompress(compress(b, level)) == b')
        return SV('bytes', r)

    def zlib_decompress(self, it, a, k):
        b = self.bytes_arg(a[0])
        if it.st.branch(zlib_valid(b)):
            return SV('bytes', decompress(b))
        raise_py('zlib.error', 'invalid data')

    def struct_pack(self, it, a, k):
        if a[0] != '!d':
            raise Unsupported('struct.pack format %r' % (a[0],))
        f = a[1]
        if isinstance(f, float):
            f = SV('float', z3.FPVal(f, F64))
        if not (isinstance(f, SV) and f.ty == 'float'):
            raise Unsupported('struct.pack !d of %r' % (f,))
        r = pack_d(f.t)
        A(it, z3.And(unpack_d(r) == f.t, z3.Length(r) == 8),
          "struct.pack('!d', x): 8 bytes, injective on float64 values (one NaN)")
        return SV('bytes', r)

    # ------------------------------------------------------------------ pickle
    def pyobj_of(self, it, v):
        p = to_pyobj(v)
        if p is None and isinstance(v, Opt):
            if it.st.branch(v.isnone):
                return PyObj.ONone
            return self.pyobj_of(it, v.inner)
        if p is None:
            raise Unsupported('no PyObj form for %r' % (v,))
        return p

    def pickle_dumps(self, it, a, k):
        o = self.pyobj_of(it, a[0])
        proto = k.get('protocol', a[1] if len(a) > 1 else 5)
        P = PyObj
        A(it, z3.Implies(z3.Not(P.is_OOther(o)), picklable(o)),
          'pickle: None/bool/int/float/str/bytes are picklable')
        if not it.st.branch(picklable(o)):
            raise_py('pickle.PicklingError', 'unpicklable')
        r = dumps(o, int_term(proto))
        A(it, z3.And(valid_pickle(r), loads(r) == o),
          'pickle: load(dumps(v, p)) == v with the same type, every protocol')
        return SV('bytes', r)

    def pickletools_optimize(self, it, a, k):
        b = self.bytes_arg(a[0])
        r = optimize(b)
        A(it, z3.Implies(valid_pickle(b), z3.And(valid_pickle(r), loads(r) == loads(b))),
          'pickletools.optimize preserves what the pickle loads to')
        return SV('bytes', r)

    def pickle_loads(self, it, a, k):
        b = self.bytes_arg(a[0])
        if it.st.branch(valid_pickle(b)):
            return Dyn(loads(b))
        raise_py('pickle.UnpicklingError', 'invalid')

    def pickle_load(self, it, a, k):
        f = a[0]
        if isinstance(f, Obj) and f.cls in ('BytesIO', 'file'):
            data = self.read_all_bytes(it, f)
            return self.pickle_loads(it, [data], {})
        raise Unsupported('pickle.load(%r)' % (f,))

    # ------------------------------------------------------------------ json
    def json_dumps(self, it, a, k):
        if len(a) > 1 or k:
            raise Unsupported('json.dumps with options')
        o = self.pyobj_of(it, a[0])
        P = PyObj
        A(it, z3.And(z3.Implies(z3.Or(P.is_ONone(o), P.is_OBool(o), P.is_OInt(o), P.is_OFloat(o), P.is_OStr(o)),
                                z3.And(json_able(o), json_rt(o))),
                     z3.Implies(P.is_OBytes(o), z3.Not(json_able(o)))),
          'json: None/bool/int/float/str serialise and round-trip (ensure_ascii output); bytes raise TypeError')
        if not it.st.branch(json_able(o)):
            raise_py('TypeError', 'not JSON serializable')
        r = json_dumps(o)
        A(it, z3.And(json_valid(r), z3.Not(has_surrogate(r)),
                     z3.Implies(json_rt(o), json_loads(r) == o)),
          'json: loads(dumps(v)) == v on the JSON-round-trippable domain; output is ASCII')
        return SV('str', r)

    def json_loads(self, it, a, k):
        s = a[0]
        if not is_str(s):
            raise Unsupported('json.loads of %r' % (s,))
        t = term_of(s)
        if it.st.branch(json_valid(t)):
            return Dyn(json_loads(t))
        raise_py('json.JSONDecodeError', 'invalid')

    # ------------------------------------------------------------------ text codecs
    def str_encode(self, it, o, a, k):
        enc = (a[0] if a else k.get('encoding', 'utf-8'))
        if not isinstance(enc, str) or enc.lower().replace('_', '-') not in ('utf-8', 'utf8'):
            raise Unsupported('str.encode(%r)' % (enc,))
        if len(a) > 1 or 'errors' in k:
            raise Unsupported('str.encode with errors=')
        t = term_of(o)
        if it.st.branch(has_surrogate(t)):
            raise_py('UnicodeEncodeError', 'surrogates not allowed')
        r = utf8(t)
        A(it, z3.And(utf8_valid(r), utf8dec(r) == t),
          'UTF-8: decode(encode(s)) == s; encode raises on lone surrogates')
        return SV('bytes', r)

    def bytes_decode(self, it, o, a, k):
        enc = (a[0] if a else k.get('encoding', 'utf-8'))
        if not isinstance(enc, str) or enc.lower().replace('_', '-') not in ('utf-8', 'utf8'):
            raise Unsupported('bytes.decode(%r)' % (enc,))
        if isinstance(o, bytes):
            try:
                return o.decode('utf-8')
            except UnicodeDecodeError:
                raise_py('UnicodeDecodeError', 'invalid')
        t = term_of(o)
        if it.st.branch(utf8_valid(t)):
            r = utf8dec(t)
            A(it, z3.And(z3.Not(has_surrogate(r)), utf8(r) == t),
              'UTF-8: encode(decode(b)) == b on valid input')
            return SV('str', r)
        raise_py('UnicodeDecodeError', 'invalid')

    def codecs_encode(self, it, a, k):
        if a[1] != 'hex':
            raise Unsupported('codecs.encode %r' % (a[1],))
        b = self.bytes_arg(a[0])
        r = hexenc(b)
        A(it, z3.And(utf8_valid(r), z3.Length(r) == 2 * z3.Length(b),
                     z3.Length(utf8dec(r)) == 2 * z3.Length(b)),
          "codecs.encode(b,'hex'): 2*len(b) ASCII hex digits")
        kl = it.st.ghost.get('known_len', {}).get(b.get_id())
        if kl is not None:
            it.st.ghost['known_len'][r.get_id()] = 2 * kl
            it.st.ghost['known_len'][utf8dec(r).get_id()] = 2 * kl
        return SV('bytes', r)

    # ------------------------------------------------------------------ functools / contextlib
    def time_time(self, it, a, k):
        st = it.st
        t = st.fresh('clock', z3.RealSort())
        prev = st.world.get('clock')
        if prev is not None:
            st.assume(t >= prev)
        st.assume(t > 0)
        st.world['clock'] = t
        st.effect('CLOCK', t=t)
        self.env.use('time.time(): positive, non-decreasing readings; floats in clock arithmetic treated as reals')
        return SV('real', t)

    def time_sleep(self, it, a, k):
        it.st.effect('SLEEP', d=a[0])
        return None

    def math_log(self, it, a, k):
        from .env import real_term
        x = real_term(a[0])
        self.env.use('math.log: a real function, negative on (0,1) (floats as reals)')
        r = mlog(x)
        it.st.assume(z3.Implies(z3.And(x > 0, x < 1), r < 0))
        return SV('real', r)

    def random_random(self, it, a, k):
        r = it.st.fresh('random', z3.RealSort())
        it.st.assume(z3.And(r >= 0, r < 1))
        it.st.effect('RANDOM', r=r)
        self.env.use('random.random(): any value in [0, 1)')
        return SV('real', r)

    def get_ident(self, it, a, k):
        if 'tid' not in it.st.world:
            it.st.world['tid'] = it.st.fresh('tid', z3.IntSort())
        return SV('int', it.st.world['tid'])

    def thread_new(self, it, a, k):
        return Obj('Thread', {'target': k.get('target'), 'args': k.get('args', ()), 'kwargs': k.get('kwargs', {}),
                              'daemon': False})

    def thread_start(self, it, o, a, k):
        # one admissible schedule: the new thread runs to completion at start()
        self.env.use('threading.Thread.start(): the target runs with the given args/kwargs (here: immediately)')
        it.st.effect('THREAD_START', thread=o)
        args = o.fields['args']
        from .engine import StarPack, SeqV
        al = [StarPack(args)] if isinstance(args, SeqV) else list(args)
        it.call(o.fields['target'], al, dict(o.fields['kwargs']))
        it.st.effect('THREAD_END', thread=o)
        return None

    def catch_warnings(self, it, a, k):
        log = []
        it.st.ghost['warnlog'] = log
        return Obj('catch_warnings', {'log': log, 'record': k.get('record', False)})

    def warn(self, it, a, k):
        cat = a[1] if len(a) > 1 else k.get('category')
        w = Obj('WarningMessage', {'message': a[0], 'category': cat})
        log = it.st.ghost.get('warnlog')
        if log is not None:
            log.append(w)
        it.st.effect('WARN', message=a[0], category=cat, batch=it.st.ghost.get('batch'))
        return None

    def exit_stack(self, it, a, k):
        self.env.use('contextlib.ExitStack: enter_context enters at once; on exit every entered manager is exited in reverse order, on normal and exceptional exits')
        return Obj('ExitStack', {'entered': []})

    def exit_stack_enter(self, it, o, a, k):
        cm = a[0]
        from .mock import RecCM
        if not isinstance(cm, RecCM):
            raise Unsupported('ExitStack.enter_context(%r)' % (cm,))
        it.st.effect('CM_ENTER', target=cm.rec, name=cm.name, bound=cm.bound, via='ExitStack')
        g = it.st.world.get('ghost_entered')
        if g is not None and cm.rec.index is not None:
            it.st.world['ghost_entered'] = z3.Store(g, cm.rec.index, z3.Select(g, cm.rec.index) + 1)
        o.fields['entered'].append(cm)
        return None

    def exit_stack_exit(self, it, o, a, k):
        it.st.effect('EXITSTACK_UNWIND', exc=a[0] if a else None, entered=list(o.fields['entered']))
        return False

    def ft_partial(self, it, a, k):
        f, pre = a[0], a[1:]
        e = EnvFunc('partial', lambda it2, a2, k2: it2.call(f, list(pre) + list(a2), dict(k, **k2)))
        # partial(stream.read, n) with n > 0: remember the stream for iter(callable, b'')
        src = getattr(f, 'stream_source', None)
        if src is not None and len(pre) == 1 and isinstance(pre[0], int) and pre[0] > 0 and not k:
            e.stream_source = src
        return e

    def ft_wraps(self, it, a, k):
        e = EnvFunc('wraps_inner', None)
        e.wrapped = a[0]
        return e

    def cl_suppress(self, it, a, k):
        return Obj('suppress', {'classes': tuple(a)})

    def join_symbolic(self, it, sep, seq):
        raise Unsupported('join over symbolic sequence')


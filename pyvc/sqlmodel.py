"""Symbolic model of the Cache / Settings tables and the semantics of the SQL
subset (DESIGN 2.4, 2.5).  The triggers are parsed from the text found in
Cache.__init__ and applied on every row insert / delete / update.
"""
import ast
import z3

from .values import *  # noqa
from .engine import Unsupported, PyRaise, raise_py, EnvFunc, ExcVal
from .loops import SymSeq
from .env import int_term, real_term, is_int, is_str
from . import sqlparse

_I, _B, _R = z3.IntSort(), z3.BoolSort(), z3.RealSort()

# dynamically typed cell
DbVal = z3.Datatype('DbVal')
DbVal.declare('Null')
DbVal.declare('IntV', ('iv', _I))
DbVal.declare('RealV', ('rv', _R))
DbVal.declare('TextV', ('tv', STR))
DbVal.declare('BlobV', ('bv', BYTES))
DbVal = DbVal.create()

A_IB = z3.ArraySort(_I, _B)
A_II = z3.ArraySort(_I, _I)
A_IR = z3.ArraySort(_I, _R)
A_ID = z3.ArraySort(_I, DbVal)
A_IS = z3.ArraySort(_I, STR)
IDX = z3.ArraySort(DbVal, z3.ArraySort(_B, _I))

COLS = {            # column -> (sort of the value array, has a NULL flag array)
    'key': (A_ID, False), 'raw': (A_IB, False), 'store_time': (A_IR, False),
    'expire_time': (A_IR, True), 'access_time': (A_IR, False), 'access_count': (A_II, False),
    'tag': (A_ID, False), 'size': (A_II, False), 'mode': (A_II, False), 'filename': (A_IS, True),
    'value': (A_ID, False),
}
SETTINGS = ('count', 'size', 'hits', 'misses')
SUM = z3.Function('SUM_over', A_II, A_IB, _I)       # sum of size[r] over live rows (finite-sum facts below)
norm = z3.Function('norm_key', DbVal, DbVal)        # index normal form: integral REAL -> INTEGER
text_lt = z3.Function('text_lt', STR, STR, _B)      # bytewise TEXT order (uninterpreted total order + lemmas)
blob_lt = z3.Function('blob_lt', BYTES, BYTES, _B)


def norm_def(k):
    return z3.If(z3.And(DbVal.is_RealV(k), z3.IsInt(DbVal.rv(k))), DbVal.IntV(z3.ToInt(DbVal.rv(k))), k)


class DbCell:
    """A dynamically typed database value as a Python-level value."""

    def __init__(self, t):
        self.t = t

    def __repr__(self):
        return 'DbCell(%s)' % self.t


class Table:
    """View over State.world for the working tables."""

    def __init__(self, st):
        self.st = st
        self.w = st.world

    @staticmethod
    def create(st, prefix='T0'):
        w = st.world
        w['T.live'] = st.fresh(prefix + '_live', A_IB)
        for c, (sort, nullable) in COLS.items():
            w['T.' + c] = st.fresh(prefix + '_' + c, sort)
            if nullable:
                w['T.' + c + '?'] = st.fresh(prefix + '_' + c + '_null', A_IB)
        w['T.idx'] = st.fresh(prefix + '_idx', IDX)
        w['T.card'] = st.fresh(prefix + '_card', _I)
        for s in SETTINGS:
            w['S.' + s] = st.fresh(prefix + '_S_' + s, _I)
        w['txn.active'] = False
        w['txn.snapshot'] = None
        return Table(st)

    def snapshot(self):
        return {k: v for k, v in self.w.items() if k.startswith('T.') or k.startswith('S.')}

    def restore(self, snap):
        for k, v in snap.items():
            self.w[k] = v

    def col(self, c):
        return self.w['T.' + c]

    def isnull(self, c):
        return self.w['T.' + c + '?']


def key_norm(k):
    return norm_def(k)


def invariant(w, with_counters=True, named=False, focus=(), pre=None):
    """Representation invariant of the table model (Inv_T).

    `pre` (arrays T.live/T.key/T.raw/T.idx on which Inv_T was ASSUMED at the start of the path): the
    untouched part of the backward direction is then stated on fresh constants (k0, b0) -- validity of a
    universally quantified goal is validity of its body on fresh constants -- under the instance of the
    assumed invariant at (k0, b0), which the path condition entails; this spares the solver the
    quantifier instantiation that made the obligation time out under load."""
    r = z3.Int('r_inv')
    k = z3.Const('k_inv', DbVal)
    b = z3.Bool('b_inv')
    live, key, raw, idx = w['T.live'], w['T.key'], w['T.raw'], w['T.idx']
    fw = z3.ForAll([r], z3.Implies(z3.Select(live, r), z3.And(
        r >= 1, z3.Not(DbVal.is_Null(z3.Select(key, r))),
        z3.Select(z3.Select(idx, key_norm(z3.Select(key, r))), z3.Select(raw, r)) == r,
        z3.Select(w['T.size'], r) >= 0)))
    e = z3.Select(z3.Select(idx, k), b)
    bw = z3.ForAll([k, b], z3.Implies(e != 0, z3.And(
        z3.Select(live, e), key_norm(z3.Select(key, e)) == k, z3.Select(raw, e) == b)))
    if focus and named:
        # case split of the backward direction on the index entries the operation touched
        insts = []
        away = []
        for fk, fb in focus:
            e1 = z3.Select(z3.Select(idx, key_norm(fk)), fb)
            insts.append(z3.Implies(e1 != 0, z3.And(z3.Select(live, e1), key_norm(z3.Select(key, e1)) == key_norm(fk),
                                                   z3.Select(raw, e1) == fb)))
            away.append(z3.Not(z3.And(k == key_norm(fk), b == fb)))
        rest = z3.ForAll([k, b], z3.Implies(z3.And(e != 0, *away), z3.And(
            z3.Select(live, e), key_norm(z3.Select(key, e)) == k, z3.Select(raw, e) == b)))
        if pre is not None:
            k0, b0 = z3.FreshConst(DbVal, 'k_sk'), z3.FreshConst(z3.BoolSort(), 'b_sk')
            e0 = z3.Select(z3.Select(pre['T.idx'], k0), b0)
            hyp = z3.Implies(e0 != 0, z3.And(z3.Select(pre['T.live'], e0), key_norm(z3.Select(pre['T.key'], e0)) == k0,
                                             z3.Select(pre['T.raw'], e0) == b0))
            rest = z3.Implies(hyp, z3.substitute(rest.body(), (z3.Var(1, DbVal), k0), (z3.Var(0, z3.BoolSort()), b0)))
        bw_parts = [('index_backward.touched', z3.And(*insts)), ('index_backward.rest', rest)]
    else:
        bw_parts = [('index_backward', bw)]
    parts = [('index_forward', fw)] + bw_parts + [('card_nonneg', w['T.card'] >= 0)]
    if with_counters:
        parts += [('count', w['S.count'] == w['T.card']), ('size', w['S.size'] == SUM(w['T.size'], live))]
    if named:
        return parts
    return z3.And(*[p for _, p in parts])


# ---------------------------------------------------------------- binding python values to cells
def to_dbval(it, v):
    """sqlite3 parameter binding (environment contract)."""
    st = it.st
    if isinstance(v, DbCell):
        return v.t
    if v is None:
        return DbVal.Null
    if isinstance(v, bool):
        return DbVal.IntV(z3.IntVal(int(v)))
    if isinstance(v, int):
        if not (-2 ** 63 <= v < 2 ** 63):
            raise_py('OverflowError', 'Python int too large to convert to SQLite INTEGER')
        return DbVal.IntV(z3.IntVal(v))
    if isinstance(v, float):
        if v != v or v in (float('inf'), float('-inf')):
            raise Unsupported('non-finite float bound as an SQL parameter')
        return DbVal.RealV(z3.RealVal(repr(v)))
    if isinstance(v, str):
        return DbVal.TextV(z3.StringVal(v))
    if isinstance(v, SV):
        if v.ty == 'int':
            if v.t.get_id() in st.ghost.get('int64', ()):
                return DbVal.IntV(v.t)      # read from an INTEGER column: within int64 by construction
            if not st.branch(z3.And(v.t >= -2 ** 63, v.t < 2 ** 63)):
                raise_py('OverflowError', 'Python int too large to convert to SQLite INTEGER')
            return DbVal.IntV(v.t)
        if v.ty == 'bool':
            return DbVal.IntV(z3.If(v.t, 1, 0))
        if v.ty == 'real':
            return DbVal.RealV(v.t)
        if v.ty == 'str':
            return DbVal.TextV(v.t)
    if isinstance(v, Bin):
        return DbVal.BlobV(term_of(v.b))
    if isinstance(v, Opt):
        inner = to_dbval(it, v.inner)
        return z3.If(v.isnone, DbVal.Null, inner)
    if isinstance(v, Opaque) and v.kind == 'other':
        # sqlite3 cannot bind arbitrary objects
        raise_py('sqlite3.InterfaceError', 'unsupported type')
    raise Unsupported('binding %r as an SQL parameter' % (v,))


def sql_eq(a, b):
    return z3.And(z3.Not(DbVal.is_Null(a)), z3.Not(DbVal.is_Null(b)), key_norm(a) == key_norm(b))


def class_rank(v):
    return z3.If(DbVal.is_Null(v), 0, z3.If(z3.Or(DbVal.is_IntV(v), DbVal.is_RealV(v)), 1,
                 z3.If(DbVal.is_TextV(v), 2, 3)))


def num_of(v):
    return z3.If(DbVal.is_IntV(v), z3.ToReal(DbVal.iv(v)), DbVal.rv(v))


def sql_lt(a, b):
    """SQLite `<` on non-NULL values: NULL < numeric < TEXT < BLOB; numbers numerically."""
    ra, rb = class_rank(a), class_rank(b)
    return z3.And(z3.Not(DbVal.is_Null(a)), z3.Not(DbVal.is_Null(b)),
                  z3.Or(ra < rb,
                        z3.And(ra == rb, z3.If(ra == 1, num_of(a) < num_of(b),
                                               z3.If(ra == 2, text_lt(DbVal.tv(a), DbVal.tv(b)),
                                                     blob_lt(DbVal.bv(a), DbVal.bv(b)))))))


# ---------------------------------------------------------------- the executor
class Sql:
    """Semantics of `sql(statement, params)`; installed as Cache._sql."""

    def __init__(self, env, triggers):
        self.env = env
        self.triggers = triggers            # parsed trigger list
        self.faults = False                 # statements may raise sqlite errors nondeterministically
        self.busy = True                    # BEGIN IMMEDIATE may fail (lock held elsewhere)
        self.auto_rollback = False          # ROLLBACK may find that SQLite already rolled the transaction back itself

    def execute(self, it, a, k):
        st = it.st
        stmt = a[0]
        params = a[1] if len(a) > 1 else ()
        if not isinstance(stmt, str):
            raise Unsupported('SQL statement text is not concrete: %r' % (stmt,))
        try:
            ps = sqlparse.parse(stmt)
        except sqlparse.SqlUnsupported as e:
            raise Unsupported('SQL outside the subset: %s' % e)
        if isinstance(params, list):
            params = tuple(params)
        if not isinstance(params, tuple):
            raise Unsupported('SQL parameters %r' % (params,))
        if ps['nparams'] != len(params):
            raise PyRaise(ExcVal('sqlite3.ProgrammingError', ('Incorrect number of bindings',)))
        self.env.use('SQLite executes the statement subset as modelled in pyvc/sqlmodel.py (cross-checked by the stand-ins)')
        T = Table(st)
        kind = ps['kind']
        if kind not in ('begin', 'commit', 'rollback') and self.faults:
            d = st.decide(3 if self.faults == 'base' else 2)
            if d == 1:
                st.effect('FAULT', op='sql', stmt=ps['text'], exc='sqlite3.OperationalError')
                raise_py('sqlite3.OperationalError', 'injected')
            if d == 2:
                # an asynchronous BaseException (KeyboardInterrupt) surfacing at this statement
                st.effect('FAULT', op='sql', stmt=ps['text'], exc='KeyboardInterrupt')
                raise_py('KeyboardInterrupt')
        m = getattr(self, 'x_' + kind)
        rows = m(it, T, ps, params)
        st.effect('SQL', stmt=ps, params=params, in_txn=st.world.get('txn.active', False),
                  nrows=(len(rows) if isinstance(rows, list) else None))
        cur = Obj('Cursor', {'rows': rows})
        rc = st.ghost.pop('last_rowcount', None)
        if rc is not None:
            cur.fields['rowcount'] = rc
        return cur

    # ---- transactions
    def x_begin(self, it, T, ps, params):
        st = it.st
        w = st.world
        if w.get('txn.active'):
            st.effect('SQL_ERROR', what='nested BEGIN')
            raise_py('sqlite3.OperationalError', 'cannot start a transaction within a transaction')
        if self.busy and st.decide(2) == 1:
            st.effect('BEGIN_BUSY')
            raise_py('sqlite3.OperationalError', 'database is locked')
        w['txn.active'] = True
        w['txn.immediate'] = bool(ps['immediate'])
        w['txn.snapshot'] = T.snapshot()
        st.effect('BEGIN', immediate=ps['immediate'])
        return []

    def x_commit(self, it, T, ps, params):
        w = it.st.world
        if not w.get('txn.active'):
            raise_py('sqlite3.OperationalError', 'cannot commit - no transaction is active')
        w['txn.active'] = False
        w['txn.snapshot'] = None
        it.st.effect('COMMIT', world={k: v for k, v in w.items() if k.startswith(('T.', 'S.', 'F.'))}, **self._owner(it))
        return []

    @staticmethod
    def _owner(it):
        """The Cache object's owner mark (_txn_id) at the moment the write lock is released."""
        me = it.st.ghost.get('self')
        fields = getattr(me, 'fields', None)
        return {'owner': fields.get('_txn_id')} if isinstance(fields, dict) and '_txn_id' in fields else {}

    def x_rollback(self, it, T, ps, params):
        w = it.st.world
        if not w.get('txn.active'):
            raise_py('sqlite3.OperationalError', 'cannot rollback - no transaction is active')
        T.restore(w['txn.snapshot'])
        w['txn.active'] = False
        w['txn.snapshot'] = None
        if self.auto_rollback and it.st.decide(2) == 1:
            # SQLite rolls a transaction back on its own after some errors (interrupt, I/O error, out of
            # memory, disk full); the explicit ROLLBACK then fails
            it.st.effect('ROLLBACK', world={k: v for k, v in w.items() if k.startswith(('T.', 'S.', 'F.'))}, auto=True,
                         **self._owner(it))
            raise_py('sqlite3.OperationalError', 'cannot rollback - no transaction is active')
        it.st.effect('ROLLBACK', world={k: v for k, v in w.items() if k.startswith(('T.', 'S.', 'F.'))}, **self._owner(it))
        return []

    def x_vacuum(self, it, T, ps, params):
        return []

    def x_pragma(self, it, T, ps, params):
        if ps['name'] == 'page_count' and ps['value'] is None:
            pc = it.st.fresh_sv('page_count', 'int')
            it.st.assume(pc.t >= 0)
            it.st.effect('PAGE_COUNT', value=pc.t)
            return [(pc,)]
        if ps['name'] == 'integrity_check' and ps['value'] is None:
            self.env.use("PRAGMA integrity_check returns [('ok',)] (database file itself not corrupted: outside the property)")
            return [('ok',)]
        raise Unsupported('PRAGMA %s' % ps['name'])

    # ---- expression evaluation over a row
    def term(self, it, T, e, params, r):
        """-> (DbVal term) for expression e evaluated at rowid r."""
        k = e[0]
        if k == 'param':
            return to_dbval(it, params[e[1]])
        if k == 'hole':
            return to_dbval(it, it.st.ghost['holes'][e[1]])
        if k == 'lit':
            v = e[1]
            if v is None:
                return DbVal.Null
            if isinstance(v, int):
                return DbVal.IntV(z3.IntVal(v))
            if isinstance(v, float):
                return DbVal.RealV(z3.RealVal(repr(v)))
            return DbVal.TextV(z3.StringVal(v))
        if k == 'col':
            return self.cell(T, e[1], r)
        if k == 'arith':
            a = self.term(it, T, e[2], params, r)
            b = self.term(it, T, e[3], params, r)
            # integer arithmetic only (access_count + 1, value + 1, value + NEW.size - OLD.size)
            x, y = DbVal.iv(a), DbVal.iv(b)
            return DbVal.IntV(x + y if e[1] == '+' else x - y)
        raise Unsupported('SQL term %r' % (e,))

    def cell(self, T, c, r):
        w = T.w
        if c == 'rowid':
            return DbVal.IntV(r)
        if c not in COLS:
            raise Unsupported('column %s' % c)
        sort, nullable = COLS[c]
        v = z3.Select(w['T.' + c], r)
        if c in ('key', 'tag', 'value'):
            t = v
        elif c == 'raw':
            t = DbVal.IntV(z3.If(v, 1, 0))
        elif c in ('store_time', 'expire_time', 'access_time'):
            t = DbVal.RealV(v)
        elif c == 'filename':
            t = DbVal.TextV(v)
        else:
            t = DbVal.IntV(v)
        if nullable:
            t = z3.If(z3.Select(w['T.' + c + '?'], r), DbVal.Null, t)
        return t

    def cond(self, it, T, e, params, r):
        k = e[0]
        if k == 'and':
            return z3.And(self.cond(it, T, e[1], params, r), self.cond(it, T, e[2], params, r))
        if k == 'or':
            return z3.Or(self.cond(it, T, e[1], params, r), self.cond(it, T, e[2], params, r))
        if k == 'isnull':
            v = self.term(it, T, e[1], params, r)
            return DbVal.is_Null(v) if e[2] else z3.Not(DbVal.is_Null(v))
        if k == 'cmp':
            a = self.term(it, T, e[2], params, r)
            b = self.term(it, T, e[3], params, r)
            op = e[1]
            if op == '=':
                return sql_eq(a, b)
            if op in ('<>', '!='):
                return z3.And(z3.Not(DbVal.is_Null(a)), z3.Not(DbVal.is_Null(b)), z3.Not(sql_eq(a, b)))
            if op == '<':
                return sql_lt(a, b)
            if op == '>':
                return sql_lt(b, a)
            if op == '<=':
                return z3.Or(sql_lt(a, b), sql_eq(a, b))
            if op == '>=':
                return z3.Or(sql_lt(b, a), sql_eq(a, b))
        raise Unsupported('SQL condition %r' % (e,))

    # ---- python value of a selected cell
    def py_cell(self, it, T, c, r):
        w = T.w
        if c == 'rowid':
            it.st.ghost.setdefault('int64', set()).add(r.get_id())
            return SV('int', r)
        sort, nullable = COLS[c]
        v = z3.Select(w['T.' + c], r)
        if sort is A_II:
            it.st.ghost.setdefault('int64', set()).add(v.get_id())
        if c in ('key', 'tag', 'value'):
            val = DbCell(v)
        elif c == 'raw':
            val = SV('int', z3.If(v, 1, 0))
        elif c in ('store_time', 'expire_time', 'access_time'):
            val = SV('real', v)
        elif c == 'filename':
            val = SV('str', v)
        else:
            val = SV('int', v)
        if nullable:
            val = Opt(z3.Select(w['T.' + c + '?'], r), val)
        return val

    def row_tuple(self, it, T, cols, r):
        return tuple(self.py_cell(it, T, c, r) for c in cols)

    # ---- point lookup detection
    def point_lookup(self, it, T, where, params):
        """WHERE key = ? AND raw = ? [AND rest]  -> (key term, raw bool term, rest) or None."""
        conj = []

        def flat(e):
            if e[0] == 'and':
                flat(e[1])
                flat(e[2])
            else:
                conj.append(e)
        if where is None:
            return None
        flat(where)
        kt = rt = None
        rest = []
        for c in conj:
            if c[0] == 'cmp' and c[1] == '=' and c[2] == ('col', 'key') and c[3][0] in ('param', 'hole', 'lit') and kt is None:
                kt = self.term(it, T, c[3], params, None)
            elif c[0] == 'cmp' and c[1] == '=' and c[2] == ('col', 'raw') and c[3][0] in ('param', 'hole', 'lit') and rt is None:
                v = self.term(it, T, c[3], params, None)
                rt = z3.And(DbVal.is_IntV(v), DbVal.iv(v) != 0), v
            else:
                rest.append(c)
        if kt is None or rt is None:
            return None
        return kt, rt, rest

    def inv_instance(self, it, T, kt, rb, r):
        """Instance of the assumed representation invariant at an index probe (only while the
        arrays are still the ones the invariant was assumed for)."""
        g = it.st.ghost.get('inv_arrays')
        w = T.w
        if g is None:
            return
        if all(w[k].eq(g[k]) for k in ('T.live', 'T.key', 'T.raw', 'T.idx')):
            it.st.assume(z3.Implies(r != 0, z3.And(r >= 1, z3.Select(w['T.live'], r),
                                                   key_norm(z3.Select(w['T.key'], r)) == key_norm(kt),
                                                   z3.Select(w['T.raw'], r) == rb)))

    # ---- SELECT
    def x_select(self, it, T, ps, params):
        st = it.st
        if ps['table'] == 'Settings':
            return self.select_settings(it, T, ps, params)
        if ps['table'] != 'Cache':
            raise Unsupported('table %s' % ps['table'])
        if ps['agg']:
            return self.select_agg(it, T, ps, params)
        pl = self.point_lookup(it, T, ps['where'], params)
        if pl is not None and not ps['order']:
            kt, (rb, rv), rest = pl
            # raw is stored as 0/1: a bound value other than 0/1 matches nothing
            r = z3.Select(z3.Select(T.w['T.idx'], key_norm(kt)), rb)
            okraw = z3.And(DbVal.is_IntV(rv), z3.Or(DbVal.iv(rv) == 0, DbVal.iv(rv) == 1))
            cond = z3.And(z3.Not(DbVal.is_Null(kt)), okraw, r != 0)
            for c in rest:
                cond = z3.And(cond, self.cond(it, T, c, params, r))
            st.effect('POINT_LOOKUP', key=kt, raw=rb, rowid=r)
            self.inv_instance(it, T, kt, rb, r)
            if st.branch(cond):
                return [self.row_tuple(it, T, ps['cols'], r)]
            return []
        if ps['limit'] is not None and ps['limit'] == ('lit', 1) and ps['order']:
            return self.select_first(it, T, ps, params)
        if ps['limit'] is not None and ps['order']:
            return self.select_page(it, T, ps, params)
        if ps['limit'] is None and not ps['order']:
            return self.select_all(it, T, ps, params)
        raise Unsupported('SELECT shape: %s' % ps['text'])

    def order_key(self, T, order, r):
        """-> list of (DbVal term, descending?)"""
        return [(self.cell(T, c, r), d == 'DESC') for c, d in order]

    def ord_le(self, T, order, r1, r2):
        """row r1 sorts before-or-equal row r2 under ORDER BY (NULLs first as in SQLite)."""
        ks1, ks2 = self.order_key(T, order, r1), self.order_key(T, order, r2)

        def lt(a, b):
            return z3.Or(z3.And(DbVal.is_Null(a), z3.Not(DbVal.is_Null(b))), sql_lt(a, b))

        def eq(a, b):
            return z3.Or(z3.And(DbVal.is_Null(a), DbVal.is_Null(b)), sql_eq(a, b))
        res = z3.BoolVal(True)
        for (a, desc), (b, _) in reversed(list(zip(ks1, ks2))):
            x, y = (b, a) if desc else (a, b)
            res = z3.Or(lt(x, y), z3.And(eq(x, y), res))
        return res

    def where_at(self, it, T, ps, params, r):
        c = z3.Select(T.w['T.live'], r)
        if ps['where'] is not None:
            c = z3.And(c, self.cond(it, T, ps['where'], params, r))
        return c

    def select_first(self, it, T, ps, params):
        st = it.st
        r = st.fresh('first_row', _I)
        q = z3.Int('q_first')
        exists = self.where_at(it, T, ps, params, r)
        minimal = z3.ForAll([q], z3.Implies(self.where_at(it, T, ps, params, q), self.ord_le(T, ps['order'], r, q)))
        none = z3.ForAll([q], z3.Not(self.where_at(it, T, ps, params, q)))
        d = st.choose([z3.And(exists, minimal), none])
        if d == 0:
            st.effect('SELECT_FIRST', rowid=r, stmt=ps)
            return [self.row_tuple(it, T, ps['cols'], r)]
        return []

    def limit_term(self, it, T, ps, params):
        v = self.term(it, T, ps['limit'], params, None)
        return DbVal.iv(v)

    def select_page(self, it, T, ps, params):
        """ORDER BY ... LIMIT n: a sorted page of distinct qualifying rows, closed under the order."""
        st = it.st
        n = self.limit_term(it, T, ps, params)
        L = st.fresh('page_len', _I)
        s = st.fresh('page_rows', A_II)
        inpage = st.fresh('page_member', A_IB)
        pos = st.fresh('page_pos', A_II)
        i, j, q = z3.Ints('i_pg j_pg q_pg')
        facts = [L >= 0, z3.Or(n < 0, L <= n),
                 z3.ForAll([i], z3.Implies(z3.And(i >= 0, i < L), z3.And(
                     self.where_at(it, T, ps, params, z3.Select(s, i)),
                     z3.Select(inpage, z3.Select(s, i)), z3.Select(pos, z3.Select(s, i)) == i))),
                 z3.ForAll([q], z3.Implies(z3.Select(inpage, q), z3.And(
                     z3.Select(pos, q) >= 0, z3.Select(pos, q) < L, z3.Select(s, z3.Select(pos, q)) == q))),
                 z3.ForAll([i, j], z3.Implies(z3.And(i >= 0, i < j, j < L),
                                             self.ord_le(T, ps['order'], z3.Select(s, i), z3.Select(s, j)))),
                 z3.ForAll([q], z3.Implies(z3.And(self.where_at(it, T, ps, params, q), z3.Not(z3.Select(inpage, q))),
                                           z3.And(L == n, L > 0, self.ord_le(T, ps['order'], z3.Select(s, L - 1), q))))]
        # derived (redundant) fact that spares the solver an induction-free but awkward instantiation:
        # every page row sorts before-or-equal the last one
        facts.append(z3.ForAll([q], z3.Implies(z3.Select(inpage, q),
                                              self.ord_le(T, ps['order'], q, z3.Select(s, L - 1)))))
        for f in facts:
            st.assume(f)
        cols = ps['cols']
        page = SymSeq(L, lambda idx: self.row_tuple(it, Table(st), cols, z3.Select(s, idx)), kind='list', tag='page')
        page.rows, page.member, page.stmt, page.params = s, inpage, ps, params
        page.pos = pos
        w_sel = dict(st.world)

        class _Tsel:
            w = w_sel
        page.elem_facts = lambda idx: z3.And(self.where_at(it, _Tsel, ps, params, z3.Select(s, idx)),
                                             z3.Select(inpage, z3.Select(s, idx)), z3.Select(pos, z3.Select(s, idx)) == idx)
        st.effect('SELECT_PAGE', page=page)
        st.ghost['last_page'] = page
        return page

    def select_all(self, it, T, ps, params):
        """Unordered, unlimited SELECT (check()): a symbolic sequence enumerating exactly the qualifying rows."""
        st = it.st
        L = st.fresh('all_len', _I)
        s = st.fresh('all_rows', A_II)
        pos = st.fresh('all_pos', A_II)
        i, q = z3.Ints('i_all q_all')
        st.assume(L >= 0)
        st.assume(z3.ForAll([i], z3.Implies(z3.And(i >= 0, i < L), z3.And(
            self.where_at(it, T, ps, params, z3.Select(s, i)), z3.Select(pos, z3.Select(s, i)) == i))))
        st.assume(z3.ForAll([q], z3.Implies(self.where_at(it, T, ps, params, q), z3.And(
            z3.Select(pos, q) >= 0, z3.Select(pos, q) < L, z3.Select(s, z3.Select(pos, q)) == q))))
        cols = ps['cols']
        page = SymSeq(L, lambda idx: self.row_tuple(it, Table(st), cols, z3.Select(s, idx)), kind='list', tag='allrows')
        page.rows, page.stmt = s, ps
        return page

    def select_agg(self, it, T, ps, params):
        agg = ps['agg']
        st = it.st
        if agg[0] == 'max' and agg[1] == 'rowid' and ps['where'] is None:
            m = st.fresh('max_rowid', _I)
            q = z3.Int('q_max')
            live = T.w['T.live']
            some = z3.And(z3.Select(live, m), z3.ForAll([q], z3.Implies(z3.Select(live, q), q <= m)))
            none = z3.ForAll([q], z3.Not(z3.Select(live, q)))
            d = st.choose([some, none])
            return [(SV('int', m),)] if d == 0 else [(None,)]
        if agg[0] == 'count' and ps['where'] is None:
            return [(SV('int', T.w['T.card']),)]
        if agg[0] == 'coalesce_sum' and agg[1] == 'size' and ps['where'] is None:
            return [(SV('int', SUM(T.w['T.size'], T.w['T.live'])),)]
        raise Unsupported('aggregate %r' % (agg,))

    def select_settings(self, it, T, ps, params):
        if ps['cols'] == ['value'] and ps['where'] and ps['where'][0] == 'cmp' and ps['where'][2] == ('col', 'key'):
            k = ps['where'][3]
            name = params[k[1]] if k[0] == 'param' else k[1]
            if isinstance(name, str) and name in SETTINGS:
                return [(SV('int', T.w['S.' + name]),)]
            if isinstance(name, str):
                v = it.st.world.get('S.' + name)
                if v is not None:
                    return [(v,)]
        raise Unsupported('Settings query %s' % ps['text'])

    # ---- triggers
    def fire(self, T, event, new_size=None, old_size=None):
        w = T.w
        for tr in self.triggers:
            if tr['event'] != event:
                continue
            key = tr['key']
            if key not in SETTINGS:
                raise Unsupported('trigger on Settings.%s' % key)
            cur = w['S.' + key]

            def ev(e):
                if e == ('col', 'value'):
                    return cur
                if e == ('col', 'NEW.size'):
                    return new_size
                if e == ('col', 'OLD.size'):
                    return old_size
                if e[0] == 'lit':
                    return z3.IntVal(e[1])
                if e[0] == 'arith':
                    a, b = ev(e[2]), ev(e[3])
                    return a + b if e[1] == '+' else a - b
                raise Unsupported('trigger expression %r' % (e,))
            w['S.' + key] = ev(tr['expr'])

    def sum_fact(self, it, size0, live0, size1, live1, delta):
        """Finite-sum arithmetic for a single-row change (trusted mathematics)."""
        self.env.use('finite sums: inserting / deleting / resizing one row changes SUM(size over live rows) by that row\'s size delta')
        it.st.assume(SUM(size1, live1) == SUM(size0, live0) + delta)

    # ---- INSERT
    def x_insert(self, it, T, ps, params):
        st = it.st
        w = T.w
        if ps['table'] != 'Cache':
            raise Unsupported('INSERT into %s' % ps['table'])
        cols = ps['cols']
        vals = {c: (v, self.term(it, T, v, params, None)) for c, v in zip(cols, ps['vals'])}
        r = st.fresh('new_rowid', _I)
        q = z3.Int('q_ins')
        # INTEGER PRIMARY KEY without AUTOINCREMENT: max(rowid) + 1 (1 on an empty table)
        st.assume(z3.And(r >= 1, z3.Not(z3.Select(w['T.live'], r)),
                         z3.ForAll([q], z3.Implies(z3.Select(w['T.live'], q), q < r))))
        kt = vals['key'][1]
        rawv = vals['raw'][1]
        rb = z3.And(DbVal.is_IntV(rawv), DbVal.iv(rawv) != 0)
        # UNIQUE(key, raw)
        existing = z3.Select(z3.Select(w['T.idx'], key_norm(kt)), rb)
        if st.branch(z3.And(existing != 0, z3.Not(DbVal.is_Null(kt)))):
            raise_py('sqlite3.IntegrityError', 'UNIQUE constraint failed: Cache.key, Cache.raw')
        size0, live0 = w['T.size'], w['T.live']
        w['T.live'] = z3.Store(w['T.live'], r, z3.BoolVal(True))
        for c in COLS:
            sort, nullable = COLS[c]
            if c in vals:
                dv = vals[c][1]
            else:
                dv = DbVal.IntV(z3.IntVal(0)) if c in ('access_count', 'size', 'mode') else DbVal.Null
            self.store_cell(it, T, c, r, dv)
        w['T.idx'] = z3.Store(w['T.idx'], key_norm(kt), z3.Store(z3.Select(w['T.idx'], key_norm(kt)), rb, r))
        w['T.card'] = w['T.card'] + 1
        new_size = z3.Select(w['T.size'], r)
        self.sum_fact(it, size0, live0, w['T.size'], w['T.live'], new_size)
        self.fire(T, 'INSERT', new_size=new_size)
        st.effect('INSERT', rowid=r, key=kt, raw=rb, vals={c: v[1] for c, v in vals.items()})
        return []

    def store_cell(self, it, T, c, r, dv):
        """Column affinity / storage of a bound value (environment contract: values of the classes the
        code binds to each column are stored as they are)."""
        w = T.w
        sort, nullable = COLS[c]
        if nullable:
            w['T.' + c + '?'] = z3.Store(w['T.' + c + '?'], r, DbVal.is_Null(dv))
        if c in ('key', 'tag', 'value'):
            w['T.' + c] = z3.Store(w['T.' + c], r, dv)
        elif c == 'raw':
            w['T.' + c] = z3.Store(w['T.' + c], r, z3.And(DbVal.is_IntV(dv), DbVal.iv(dv) != 0))
        elif c in ('store_time', 'expire_time', 'access_time'):
            w['T.' + c] = z3.Store(w['T.' + c], r, num_of(dv))
        elif c == 'filename':
            w['T.' + c] = z3.Store(w['T.' + c], r, DbVal.tv(dv))
        else:
            w['T.' + c] = z3.Store(w['T.' + c], r, DbVal.iv(dv))

    # ---- UPDATE
    def x_update(self, it, T, ps, params):
        st = it.st
        w = T.w
        if ps['table'] == 'Settings':
            return self.update_settings(it, T, ps, params)
        wh = ps['where']
        if not (wh and wh[0] == 'cmp' and wh[1] == '=' and wh[2] == ('col', 'rowid')):
            return self.update_where(it, T, ps, params)
        rv = self.term(it, T, wh[3], params, None)
        r = DbVal.iv(rv)
        if not st.branch(z3.And(DbVal.is_IntV(rv), z3.Select(w['T.live'], r))):
            st.effect('UPDATE_NOOP', rowid=r)
            return []
        old_size = z3.Select(w['T.size'], r)
        old_fn = (z3.Select(w['T.filename?'], r), z3.Select(w['T.filename'], r))
        size0 = w['T.size']
        # evaluate all right-hand sides against the old row first
        news = [(c, self.term(it, T, e, params, r)) for c, e in ps['sets']]
        for c, dv in news:
            if c in ('key', 'raw'):
                raise Unsupported('UPDATE of an indexed column')
            self.store_cell(it, T, c, r, dv)
        new_size = z3.Select(w['T.size'], r)
        self.sum_fact(it, size0, w['T.live'], w['T.size'], w['T.live'], new_size - old_size)
        self.fire(T, 'UPDATE', new_size=new_size, old_size=old_size)
        st.effect('UPDATE', rowid=r, cols=[c for c, _ in news], old_filename=old_fn, new=dict(news))
        return []

    def update_where(self, it, T, ps, params):
        """UPDATE Cache SET c = e, ... WHERE <condition>: every live row satisfying the condition gets the
        new cells, all others keep theirs; the cursor's rowcount is the number of such rows (0 iff none).
        Only columns that neither carry the unique index nor feed a trigger (size) nor name a file."""
        st = it.st
        w = T.w
        if not ps['where']:
            raise Unsupported('UPDATE without WHERE: %s' % ps['text'])
        cols = [c for c, _ in ps['sets']]
        if any(c in ('key', 'raw', 'size', 'filename', 'mode', 'value') for c in cols):
            raise Unsupported('set-wise UPDATE of %r: %s' % (cols, ps['text']))
        q = z3.Int('q_upd')
        frozen = dict(w)

        class _T0:
            pass
        T0 = _T0()
        T0.w = frozen
        hit = lambda r: self.where_at(it, T0, ps, params, r)
        for c, e in ps['sets']:
            sort, nullable = COLS[c]
            new = st.fresh('T_%s_upd' % c, sort)
            # the value may depend on the row (e.g. access_count + 1): evaluated against the old row
            tmpT = Table(st)
            tmpT.w = dict(frozen)
            self.store_cell(it, tmpT, c, q, self.term(it, T0, e, params, q))
            st.assume(z3.ForAll([q], z3.Select(new, q) == z3.If(hit(q), z3.Select(tmpT.w['T.' + c], q), z3.Select(frozen['T.' + c], q))))
            w['T.' + c] = new
            if nullable:
                newn = st.fresh('T_%s_null_upd' % c, A_IB)
                st.assume(z3.ForAll([q], z3.Select(newn, q) == z3.If(hit(q), z3.Select(tmpT.w['T.' + c + '?'], q),
                                                                       z3.Select(frozen['T.' + c + '?'], q))))
                w['T.' + c + '?'] = newn
        n = st.fresh('rowcount', _I)
        st.assume(z3.And(n >= 0, n <= frozen['T.card'], (n == 0) == z3.ForAll([q], z3.Not(hit(q)))))
        st.ghost['last_rowcount'] = SV('int', n)
        st.effect('UPDATE_WHERE', cols=cols, stmt=ps['text'], rowcount=n)
        return []

    def update_settings(self, it, T, ps, params):
        w = T.w
        wh = ps['where']
        if not (wh and wh[0] == 'cmp' and wh[2] == ('col', 'key')):
            raise Unsupported('Settings update %s' % ps['text'])
        k = wh[3]
        name = params[k[1]] if k[0] == 'param' else k[1]
        if not (isinstance(name, str)):
            raise Unsupported('Settings key %r' % (name,))
        (c, e), = ps['sets']
        cur = w.get('S.' + name)
        if name in SETTINGS:
            def ev(x):
                if x == ('col', 'value'):
                    return cur
                if x[0] == 'lit':
                    return z3.IntVal(x[1])
                if x[0] == 'param':
                    return int_term(params[x[1]])
                if x[0] == 'arith':
                    a, b = ev(x[2]), ev(x[3])
                    return a + b if x[1] == '+' else a - b
                raise Unsupported('Settings expression %r' % (x,))
            w['S.' + name] = ev(e)
        else:
            if e[0] != 'param':
                raise Unsupported('Settings expression %r' % (e,))
            w['S.' + name] = params[e[1]]
        it.st.effect('UPDATE_SETTINGS', key=name)
        return []

    # ---- DELETE
    def delete_row(self, it, T, r):
        w = T.w
        kt = key_norm(z3.Select(w['T.key'], r))
        rb = z3.Select(w['T.raw'], r)
        old_size = z3.Select(w['T.size'], r)
        live0 = w['T.live']
        w['T.live'] = z3.Store(w['T.live'], r, z3.BoolVal(False))
        self.sum_fact(it, w['T.size'], live0, w['T.size'], w['T.live'], -old_size)
        w['T.idx'] = z3.Store(w['T.idx'], kt, z3.Store(z3.Select(w['T.idx'], kt), rb, z3.IntVal(0)))
        self.env.use('finite cardinality: a table with a live row has count >= 1; a duplicate-free page of n live rows has n <= count')
        it.st.assume(w['T.card'] >= 1)
        w['T.card'] = w['T.card'] - 1
        self.fire(T, 'DELETE', old_size=old_size)

    def x_delete(self, it, T, ps, params):
        st = it.st
        rv = self.term(it, T, ps['rowid'], params, None)
        r = DbVal.iv(rv)
        if not st.branch(z3.And(DbVal.is_IntV(rv), z3.Select(T.w['T.live'], r))):
            st.effect('DELETE_NOOP', rowid=r)
            return []
        old_fn = (z3.Select(T.w['T.filename?'], r), z3.Select(T.w['T.filename'], r))
        self.delete_row(it, T, r)
        st.effect('DELETE', rowid=r, old_filename=old_fn)
        return []

    def delete_set(self, it, T, member, count, why):
        """Delete every live row r with member[r]; `count` = number of such rows."""
        st = it.st
        w = T.w
        live0, idx0, size0 = w['T.live'], w['T.idx'], w['T.size']
        live1 = st.fresh('live_after', A_IB)
        idx1 = st.fresh('idx_after', IDX)
        q = z3.Int('q_del')
        k = z3.Const('k_del', DbVal)
        b = z3.Bool('b_del')
        st.assume(z3.ForAll([q], z3.Select(live1, q) == z3.And(z3.Select(live0, q), z3.Not(z3.Select(member, q)))))
        e0 = z3.Select(z3.Select(idx0, k), b)
        st.assume(z3.ForAll([k, b], z3.Select(z3.Select(idx1, k), b) == z3.If(z3.And(e0 != 0, z3.Select(member, e0)), 0, e0)))
        w['T.live'], w['T.idx'] = live1, idx1
        self.env.use('finite cardinality: a table with a live row has count >= 1; a duplicate-free page of n live rows has n <= count')
        st.assume(w['T.card'] >= count)
        w['T.card'] = w['T.card'] - count
        st.effect('DELETE_SET', member=member, count=count, why=why)

    def x_delete_in_select(self, it, T, ps, params):
        st = it.st
        page = st.ghost.get('last_page')
        sub = ps['select']
        if page is None:
            raise Unsupported('DELETE ... IN (SELECT) without a preceding identical SELECT')
        same = (page.stmt['where'] == sub['where'] and page.stmt['order'] == sub['order']
                and page.stmt['limit'] == sub['limit'] and sub['cols'] == ['rowid'])
        if not same or not all(self._same_param(a, b) for a, b in zip(page.params, params)) or len(page.params) != len(params):
            # not the statement executed just before (other text or other parameters): the sub-select denotes
            # its OWN page of the current table -- nothing relates it to the rows fetched earlier
            if sub['cols'] != ['rowid']:
                raise Unsupported('DELETE ... IN (SELECT) over other columns than rowid')
            page2 = self.select_page(it, T, sub, params)
            st.effect('DELETE_OTHER_PAGE', stmt=ps['text'])
            self.delete_counted(it, T, page2.member, page2.n, page2)
            return []
        self.env.use('A-SQL-det: the sub-select of DELETE ... IN (SELECT ... ORDER BY ... LIMIT n) denotes the rows of '
                     'the textually identical SELECT executed just before on the same state')
        self.delete_counted(it, T, page.member, page.n, page)
        return []

    def _same_param(self, a, b):
        if a is b:
            return True
        if isinstance(a, SV) and isinstance(b, SV):
            return a.t.eq(b.t)
        if isinstance(a, (int, str, float)) and type(a) is type(b):
            return a == b
        return False

    def delete_counted(self, it, T, member, count, page=None):
        """Multi-row DELETE: table change + the DELETE triggers FOR EACH ROW (summed per-row deltas)."""
        w = T.w
        live0 = w['T.live']
        self.delete_set(it, T, member, count, classify_page(page))
        removed = SUM(w['T.size'], live0) - SUM(w['T.size'], w['T.live'])
        for tr in self.triggers:
            if tr['event'] != 'DELETE':
                continue
            d = self.trigger_delta(tr)
            if d[0] == 'const':
                w['S.' + tr['key']] = w['S.' + tr['key']] + d[1] * count
            elif d[0] == 'old_size':
                w['S.' + tr['key']] = w['S.' + tr['key']] + d[1] * removed
            else:
                raise Unsupported('DELETE trigger delta %r' % (d,))

    def trigger_delta(self, tr):
        """Per-row effect of a trigger as (kind, sign)."""
        e = tr['expr']
        if e[0] == 'arith' and e[2] == ('col', 'value'):
            sign = 1 if e[1] == '+' else -1
            if e[3] == ('lit', 1):
                return ('const', sign)
            if e[3] == ('col', 'OLD.size'):
                return ('old_size', sign)
            if e[3] == ('col', 'NEW.size'):
                return ('new_size', sign)
        return ('other', e)

    def x_delete_in_list(self, it, T, ps, params):
        items = ps['items']
        if len(items) == 1 and items[0][0] == 'listhole':
            page, col = it.st.ghost['listholes'][items[0][1]]
            if col != 'rowid':
                raise Unsupported('IN-list built from column %s' % col)
            # the list enumerates exactly the rowids of the page fetched before: those rows are deleted
            # (rows deleted meanwhile by someone else would simply not match: single connection inside
            # the write transaction here)
            self.delete_counted(it, T, page.member, page.n, page)
            return []
        raise Unsupported('DELETE ... IN (list) with a concrete list')


def classify_page(page):
    if page is None:
        return 'unknown'
    st = page.stmt

    def mentions(e, col):
        if e is None:
            return False
        if e == ('col', col):
            return True
        return any(mentions(x, col) for x in e if isinstance(x, tuple))
    if mentions(st['where'], 'expire_time'):
        return 'expired'
    if st['where'] is None and len(st['order']) == 1:
        return 'policy'
    return 'other'


def read_triggers(program):
    """Trigger texts as found in Cache.__init__ of the current source."""
    mod = program.modules['diskcache.core']
    out = []
    for node in ast.walk(mod.tree):
        if isinstance(node, ast.Constant) and isinstance(node.value, str) and \
                node.value.lstrip().upper().startswith('CREATE TRIGGER'):
            out.append(sqlparse.parse_trigger(node.value))
    return out

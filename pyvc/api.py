"""Assemble program + environment; helpers shared by all checks."""
import os
import z3

from .values import *  # noqa
from .engine import (Program, Interp, State, explore, Unsupported, PyRaise, Path,
                     FuncVal, BoundMethod, ClassInfo, Frame)
from .env import Env
from .envlib import Lib

REPO = os.environ.get('VERIF_REPO', '/repo')


class Context:
    def __init__(self, repo=None):
        self.program = Program(repo or REPO)
        self.env = Env(self.program)
        self.lib = Lib(self.env)
        self.env.interp_factory = lambda: Interp(self.program, State(), self.env)
        self.contracts = {}
        self.loop_invariants = {}
        self.hooks = {}

    def load(self, *shorts):
        for s in shorts:
            self.program.load(self.env.interp_factory, s)
        return self

    def interp(self, state):
        it = Interp(self.program, state, self.env, contracts=self.contracts)
        it.loop_invariants = self.loop_invariants
        it.hooks = self.hooks
        return it

    def func(self, qualname):
        return self.program.func(qualname)

    def cls(self, qualname):
        parts = qualname.split('.')
        return self.program.modules['.'.join(parts[:2])].globals[parts[2]]

    def new_obj(self, clsname, fields):
        return Obj(self.cls(clsname), dict(fields))

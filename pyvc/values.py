"""Symbolic value representation for pyvc.

Concrete Python scalars (int, bool, str, bytes, float, None) stand for
themselves.  Containers are Python tuples / lists / dicts whose elements are
values.  Everything symbolic is an instance of one of the classes below.
"""
import z3

# ---------------------------------------------------------------- sorts
BYTE = z3.BitVecSort(8)
BYTES = z3.SeqSort(BYTE)
STR = z3.StringSort()
F64 = z3.Float64()
RM = z3.RNE()

OTHER = z3.DeclareSort('PyOther')          # picklable objects of any other class
TYPE = z3.DeclareSort('PyType')            # Python classes (for typed memoize keys)

# Dynamically typed Python object (what pickle / json see)
PyObj = z3.Datatype('PyObj')
PyObj.declare('ONone')
PyObj.declare('OBool', ('ob', z3.BoolSort()))
PyObj.declare('OInt', ('oi', z3.IntSort()))
PyObj.declare('OFloat', ('of', F64))
PyObj.declare('OStr', ('os', STR))
PyObj.declare('OBytes', ('oy', BYTES))
PyObj.declare('OOther', ('oo', OTHER))
PyObj.declare('OType', ('ot', TYPE))
PyObj = PyObj.create()


class SV:
    """Symbolic scalar of a statically known Python class.

    ty in {'int','bool','float','real','str','bytes'}; 'float' carries a z3
    Float64 term (transported floats: sign of zero, inf, NaN exact), 'real'
    carries a z3 Real (floats used in arithmetic: clocks, tallies --
    "machine arithmetic treated as mathematical").
    """
    __slots__ = ('ty', 't')

    def __init__(self, ty, t):
        self.ty = ty
        self.t = t

    def __repr__(self):
        return 'SV(%s,%s)' % (self.ty, self.t)


class Dyn:
    """Value of unknown Python class: a PyObj term."""
    __slots__ = ('t',)

    def __init__(self, t):
        self.t = t

    def __repr__(self):
        return 'Dyn(%s)' % self.t


class Opt:
    """Either None (when `isnone` holds) or `inner` (a value)."""
    __slots__ = ('isnone', 'inner')

    def __init__(self, isnone, inner):
        self.isnone = isnone
        self.inner = inner

    def __repr__(self):
        return 'Opt(%s,%r)' % (self.isnone, self.inner)


class Bin:
    """sqlite3.Binary(bytes)."""
    __slots__ = ('b',)

    def __init__(self, b):
        self.b = b          # python bytes or SV('bytes')

    def __repr__(self):
        return 'Bin(%r)' % (self.b,)


class Opaque:
    """Term of an uninterpreted / model-specific sort with a kind tag."""

    def __init__(self, kind, t):
        self.kind = kind
        self.t = t

    def __repr__(self):
        return 'Opaque(%s,%s)' % (self.kind, self.t)


class Obj:
    """Instance of a (modelled) class with a dict of fields."""

    def __init__(self, cls, fields=None, name=None):
        self.cls = cls          # ClassInfo or a string naming an env class
        self.fields = fields if fields is not None else {}
        self.name = name

    def __repr__(self):
        return 'Obj(%s)' % (getattr(self.cls, 'name', self.cls),)


class PyType:
    """A Python class object as a value (result of type(x), names like str)."""
    _cache = {}

    def __new__(cls, name):
        if name in cls._cache:
            return cls._cache[name]
        o = object.__new__(cls)
        o.name = name
        cls._cache[name] = o
        return o

    def __repr__(self):
        return '<type %s>' % self.name


class SymType:
    """type() of an `other` object: a term of sort TYPE."""
    def __init__(self, t):
        self.t = t
        self.other = False


T_STR, T_BYTES, T_INT, T_FLOAT, T_BOOL, T_NONE, T_BINARY, T_TUPLE, T_LIST, T_DICT = (
    PyType(n) for n in ('str', 'bytes', 'int', 'float', 'bool', 'NoneType',
                        'sqlite3.Binary', 'tuple', 'list', 'dict'))


class ExcVal:
    """An exception instance."""

    def __init__(self, cls, args=(), cause=None):
        self.cls = cls          # string: class name
        self.args = tuple(args)

    def __repr__(self):
        return 'ExcVal(%s%r)' % (self.cls, self.args)


# Exception hierarchy used by isinstance / except matching
EXC_PARENTS = {
    'BaseException': None,
    'Exception': 'BaseException',
    'KeyboardInterrupt': 'BaseException',
    'SystemExit': 'BaseException',
    'GeneratorExit': 'BaseException',
    'ArithmeticError': 'Exception',
    'OverflowError': 'ArithmeticError',
    'ZeroDivisionError': 'ArithmeticError',
    'AssertionError': 'Exception',
    'AttributeError': 'Exception',
    'LookupError': 'Exception',
    'KeyError': 'LookupError',
    'IndexError': 'LookupError',
    'OSError': 'Exception',
    'IOError': 'OSError',               # alias in py3; treated as same below
    'EnvironmentError': 'OSError',
    'FileExistsError': 'OSError',
    'FileNotFoundError': 'OSError',
    'TypeError': 'Exception',
    'ValueError': 'Exception',
    'UnicodeError': 'ValueError',
    'UnicodeEncodeError': 'UnicodeError',
    'UnicodeDecodeError': 'UnicodeError',
    'StopIteration': 'Exception',
    'RuntimeError': 'Exception',
    'pickle.PicklingError': 'Exception',
    'pickle.UnpicklingError': 'Exception',
    'sqlite3.Error': 'Exception',
    'sqlite3.DatabaseError': 'sqlite3.Error',
    'sqlite3.OperationalError': 'sqlite3.DatabaseError',
    'sqlite3.IntegrityError': 'sqlite3.DatabaseError',
    'sqlite3.InterfaceError': 'sqlite3.Error',
    'Timeout': 'Exception',
    'Warning': 'Exception',
    'UserWarning': 'Warning',
    'UnknownFileWarning': 'UserWarning',
    'EmptyDirWarning': 'UserWarning',
    'json.JSONDecodeError': 'ValueError',
    'zlib.error': 'Exception',
}
EXC_ALIAS = {'IOError': 'OSError', 'EnvironmentError': 'OSError'}


def exc_canon(name):
    return EXC_ALIAS.get(name, name)


def exc_issubclass(name, parent):
    name, parent = exc_canon(name), exc_canon(parent)
    while name is not None:
        if name == parent:
            return True
        name = exc_canon(EXC_PARENTS.get(name)) if EXC_PARENTS.get(name) else None
    return False


def to_pyobj(v):
    """Coerce a value to a PyObj term (None if the value has no PyObj form)."""
    if isinstance(v, Dyn):
        return v.t
    if v is None:
        return PyObj.ONone
    if isinstance(v, bool):
        return PyObj.OBool(z3.BoolVal(v))
    if isinstance(v, int):
        return PyObj.OInt(z3.IntVal(v))
    if isinstance(v, str):
        return PyObj.OStr(z3.StringVal(v))
    if isinstance(v, bytes):
        return PyObj.OBytes(bytes_val(v))
    if isinstance(v, float):
        return PyObj.OFloat(z3.FPVal(v, F64))
    if isinstance(v, SV):
        if v.ty == 'int':
            return PyObj.OInt(v.t)
        if v.ty == 'bool':
            return PyObj.OBool(v.t)
        if v.ty == 'float':
            return PyObj.OFloat(v.t)
        if v.ty == 'str':
            return PyObj.OStr(v.t)
        if v.ty == 'bytes':
            return PyObj.OBytes(v.t)
    if isinstance(v, Opaque) and v.kind == 'other':
        return PyObj.OOther(v.t)
    if isinstance(v, SymType):
        return PyObj.OType(v.t)
    if isinstance(v, PyType):
        return PyObj.OType(z3.Const('type_' + v.name.replace('.', '_'), TYPE))
    return None


def bytes_val(b):
    if len(b) == 0:
        return z3.Empty(BYTES)
    units = [z3.Unit(z3.BitVecVal(x, 8)) for x in b]
    return z3.Concat(*units) if len(units) > 1 else units[0]


def term_of(v):
    """z3 term of a scalar value in its native sort."""
    if isinstance(v, SV):
        return v.t
    if isinstance(v, bool):
        return z3.BoolVal(v)
    if isinstance(v, int):
        return z3.IntVal(v)
    if isinstance(v, str):
        return z3.StringVal(v)
    if isinstance(v, bytes):
        return bytes_val(v)
    if isinstance(v, float):
        return z3.FPVal(v, F64)
    if isinstance(v, (Opaque, Dyn)):
        return v.t
    raise TypeError('no term for %r' % (v,))


def py_class(v):
    """Python class of a value as PyType (None if unknown)."""
    if v is None:
        return T_NONE
    if isinstance(v, bool):
        return T_BOOL
    if isinstance(v, int):
        return T_INT
    if isinstance(v, float):
        return T_FLOAT
    if isinstance(v, str):
        return T_STR
    if isinstance(v, bytes):
        return T_BYTES
    if isinstance(v, tuple):
        return T_TUPLE
    if isinstance(v, list):
        return T_LIST
    if isinstance(v, dict):
        return T_DICT
    if isinstance(v, Bin):
        return T_BINARY
    if isinstance(v, SV):
        return {'int': T_INT, 'bool': T_BOOL, 'float': T_FLOAT, 'real': T_FLOAT,
                'str': T_STR, 'bytes': T_BYTES}[v.ty]
    return None

"""Environment of the interpreted program: builtins, operators and the
contracts of library functions (the trusted base, see DESIGN 2.6).

Part 1: core operators and builtins.  Library contracts live in envlib.py and
register themselves in Env.modules.
"""
import z3

from .values import *  # noqa
from .engine import (Unsupported, PyRaise, raise_py, FuncVal, BoundMethod, EnvFunc,
                     EnvModule, PropertyVal, ClassMethodVal, ClassInfo, EnvClass,
                     SeqV, IterV, Frame, Module, SuperProxy)


class ExcClass:
    _cache = {}

    def __new__(cls, name):
        if name in cls._cache:
            return cls._cache[name]
        o = object.__new__(cls)
        o.name = name
        cls._cache[name] = o
        return o

    def __repr__(self):
        return '<exc %s>' % self.name


class SetV:
    """A concrete-structure set of values (elements compared with py_eq)."""

    def __init__(self, items):
        self.items = list(items)


BUILTIN_EXC = ['BaseException', 'KeyboardInterrupt', 'SystemExit', 'GeneratorExit', 'Exception', 'KeyError', 'IndexError', 'ValueError',
               'TypeError', 'AssertionError', 'AttributeError', 'OSError', 'IOError',
               'EnvironmentError', 'OverflowError', 'StopIteration', 'RuntimeError',
               'UserWarning', 'Warning', 'FileExistsError', 'FileNotFoundError',
               'UnicodeEncodeError', 'UnicodeDecodeError', 'ImportError', 'NameError',
               'NotImplementedError', 'ZeroDivisionError', 'LookupError']

INT64_MIN = -9223372036854775808
INT64_MAX = 9223372036854775807


def zbool(x):
    return z3.BoolVal(x) if isinstance(x, bool) else x


def is_int(v):
    return (isinstance(v, int) and not isinstance(v, bool)) or (isinstance(v, SV) and v.ty == 'int')


def is_boolv(v):
    return isinstance(v, bool) or (isinstance(v, SV) and v.ty == 'bool')


def is_real(v):
    return isinstance(v, SV) and v.ty == 'real'


def is_floatv(v):
    return isinstance(v, float) or (isinstance(v, SV) and v.ty == 'float')


def is_str(v):
    return isinstance(v, str) or (isinstance(v, SV) and v.ty == 'str')


def is_bytes(v):
    return isinstance(v, bytes) or (isinstance(v, SV) and v.ty == 'bytes')


def int_term(v):
    if isinstance(v, bool):
        return z3.IntVal(int(v))
    if isinstance(v, int):
        return z3.IntVal(v)
    if isinstance(v, SV) and v.ty == 'int':
        return v.t
    if isinstance(v, SV) and v.ty == 'bool':
        return z3.If(v.t, z3.IntVal(1), z3.IntVal(0))
    raise TypeError(v)


def real_term(v):
    if isinstance(v, bool):
        return z3.RealVal(int(v))
    if isinstance(v, (int, float)):
        return z3.RealVal(repr(v) if isinstance(v, float) else v)
    if isinstance(v, SV) and v.ty == 'real':
        return v.t
    if isinstance(v, SV) and v.ty in ('int', 'bool'):
        return z3.ToReal(int_term(v))
    raise TypeError(v)


def num_eq_int_float(i, f):
    """Exact numeric equality of an int term and a Float64 term."""
    return z3.And(z3.Not(z3.fpIsNaN(f)), z3.Not(z3.fpIsInf(f)),
                  z3.fpToReal(f) == z3.ToReal(i))


ALL_ENVS = []


class Env:
    PURE_EFFECTS = ('CLOCK', 'LOOP_CUT', 'SLEEP', 'BEGIN_BUSY', 'SQL_ERROR', 'TIME')

    def __init__(self, program):
        self.program = program
        self.modules = {}        # module name -> dict attr -> value
        self.builtins = {}
        self.obj_methods = {}    # env class name -> {method: impl(interp, obj, args, kwargs)}
        self.axioms = []
        self.trusted = set()     # names of environment contracts actually used
        ALL_ENVS.append(self)
        self._setup_builtins()

    def use(self, name):
        self.trusted.add(name)

    # ------------------------------------------------------------ builtins
    def _setup_builtins(self):
        b = self.builtins
        for n in BUILTIN_EXC:
            b[n] = ExcClass(n)
        b['str'] = T_STR
        b['bytes'] = T_BYTES
        b['int'] = T_INT
        b['float'] = T_FLOAT
        b['bool'] = T_BOOL
        b['tuple'] = T_TUPLE
        b['list'] = T_LIST
        b['dict'] = T_DICT
        b['set'] = PyType('set')
        b['frozenset'] = PyType('frozenset')
        b['object'] = PyType('object')
        b['NotImplemented'] = Obj('NotImplementedType', name='NotImplemented')
        b['property'] = EnvFunc('property', lambda it, a, k: PropertyVal(a[0]))
        b['classmethod'] = EnvFunc('classmethod', lambda it, a, k: ClassMethodVal(a[0]))
        b['staticmethod'] = EnvFunc('staticmethod', lambda it, a, k: a[0])
        for n in ('type', 'len', 'isinstance', 'issubclass', 'sorted', 'enumerate', 'zip',
                  'range', 'iter', 'next', 'getattr', 'setattr', 'delattr', 'hasattr',
                  'callable', 'sum', 'any', 'all', 'reversed', 'min', 'max', 'abs',
                  'print', 'id', 'hash', 'repr', 'map'):
            b[n] = EnvFunc(n, getattr(self, 'bi_' + n))

    def builtin(self, name):
        return self.builtins.get(name)

    def bi_map(self, it, a, k):
        # Python 3: map() is LAZY -- nothing is called until the result is iterated (a discarded map does nothing)
        if len(a) != 2:
            raise Unsupported('map with %d arguments' % len(a))
        return Obj('lazymap', {'func': a[0], 'source': a[1]})

    def bi_type(self, it, a, k):
        v = a[0]
        c = py_class(v)
        if c is not None:
            return c
        if isinstance(v, Obj):
            return v.cls
        if isinstance(v, Opaque) and v.kind == 'other':
            st_ = SymType(typeof_other(v.t))
            st_.other = True
            return st_
        if isinstance(v, Dyn):
            return SymType(typeof_pyobj(v.t))
        if isinstance(v, Opt):
            if it.st.branch(v.isnone):
                return T_NONE
            return self.bi_type(it, [v.inner], k)
        if isinstance(v, ExcVal):
            return ExcClass(v.cls)
        if isinstance(v, Opaque) and v.kind == 'ret':
            if not hasattr(v, 'type_obj'):
                v.type_obj = Obj('typeof', {'of': v})
            return v.type_obj
        raise Unsupported('type() of %r' % (v,))

    def bi_len(self, it, a, k):
        v = a[0]
        if isinstance(v, (str, bytes, tuple, list, dict, set, frozenset)):
            return len(v)
        if isinstance(v, SV) and v.ty in ('str', 'bytes'):
            return SV('int', z3.Length(v.t))
        if isinstance(v, SeqV):
            return SV('int', z3.Length(v.t))
        if isinstance(v, SetV):
            return len(v.items)
        if isinstance(v, Obj) and v.cls == 'SymSeq' and getattr(v, 'kind', None) in ('tuple', 'list'):
            return SV('int', v.n)
        if isinstance(v, Obj):
            m = it.getattr(v, '__len__')
            return it.call(m, [], {})
        if isinstance(v, Bin):
            return self.bi_len(it, [v.b], k)
        raise Unsupported('len of %r' % (v,))

    def class_matches(self, it, v, c):
        """isinstance(v, c) for a single class c -> bool / z3."""
        pc = py_class(v)
        if isinstance(c, PyType):
            if pc is not None:
                if c is T_INT and pc is T_BOOL:
                    return True
                if c.name == 'object':
                    return True
                return pc is c
            if isinstance(v, (Obj, FuncVal, ExcVal, SetV, IterV)):
                return c.name == 'object' or (c.name == 'set' and isinstance(v, SetV))
            if isinstance(v, SeqV):
                return c is (T_TUPLE if v.kind == 'tuple' else T_LIST)
        if isinstance(c, ClassInfo):
            if isinstance(v, Obj) and isinstance(v.cls, ClassInfo):
                return c in v.cls.mro()
            if isinstance(v, ExcVal):
                return exc_issubclass(v.cls, c.name)
            return False
        if isinstance(c, ExcClass):
            if isinstance(v, ExcVal):
                return exc_issubclass(v.cls, c.name)
            return False
        if isinstance(c, EnvClass):
            r = self.envclass_instance(it, v, c)
            if r is not NotImplemented:
                return r
        raise Unsupported('isinstance(%r, %r)' % (v, c))

    def envclass_instance(self, it, v, c):
        if isinstance(v, Obj) and isinstance(v.cls, ClassInfo):
            return c in v.cls.mro()
        if c.name == 'Sequence':
            if isinstance(v, (tuple, list, str, bytes, SeqV)) or is_str(v) or is_bytes(v):
                return True
            if isinstance(v, Obj) and v.cls == 'SymSeq':
                return getattr(v, 'kind', None) in ('tuple', 'list')
            if v is None or is_int(v) or is_boolv(v) or is_floatv(v) or isinstance(v, (dict, SetV)):
                return False
        if c.name == 'OrderedDict':
            return isinstance(v, Obj) and v.cls == 'OrderedDict'
        return NotImplemented

    def bi_isinstance(self, it, a, k):
        v, c = a
        cs = c if isinstance(c, tuple) else (c,)
        res = False
        for x in cs:
            r = self.class_matches(it, v, x)
            if r is True:
                return True
            if r is not False:
                res = r if res is False else z3.Or(res, r)
        return res if isinstance(res, bool) else SV('bool', res)

    def bi_issubclass(self, it, a, k):
        c, p = a
        if isinstance(c, ClassInfo):
            return p in c.mro()
        if isinstance(c, (PyType, ExcClass, EnvClass)):
            return c is p
        raise_py('TypeError', 'issubclass() arg 1 must be a class')

    def bi_callable(self, it, a, k):
        v = a[0]
        return isinstance(v, (FuncVal, BoundMethod, EnvFunc, ClassInfo, PyType, ExcClass))

    def bi_getattr(self, it, a, k):
        try:
            return it.getattr(a[0], a[1])
        except PyRaise as e:
            if len(a) > 2 and e.exc.cls == 'AttributeError':
                return a[2]
            raise

    def bi_hasattr(self, it, a, k):
        try:
            it.getattr(a[0], a[1])
            return True
        except PyRaise as e:
            if e.exc.cls == 'AttributeError':
                return False
            raise

    def bi_setattr(self, it, a, k):
        it.setattr(a[0], a[1], a[2])

    def bi_delattr(self, it, a, k):
        self.delattr(it, a[0], a[1])

    def delattr(self, it, o, name):
        if isinstance(o, Obj):
            r = self.obj_delattr(it, o, name)
            if r is not NotImplemented:
                return
            if name in o.fields:
                del o.fields[name]
                return
        raise_py('AttributeError', name)

    def bi_sorted(self, it, a, k):
        v = a[0]
        if isinstance(v, SortedItems):
            return v
        items = self.iterate_strict(it, v)
        if all(isinstance(x, (int, str, float)) for x in items):
            return sorted(items)
        if all(isinstance(x, tuple) and len(x) == 2 and isinstance(x[0], str) for x in items):
            keys = [x[0] for x in items]
            if len(set(keys)) == len(keys):
                return sorted(items, key=lambda x: x[0])
        raise Unsupported('sorted() of symbolic items')

    def bi_enumerate(self, it, a, k):
        v = a[0]
        if isinstance(v, SeqV):
            return EnumSeq(v)
        start = a[1] if len(a) > 1 else k.get('start', 0)
        return [(i + start, x) for i, x in enumerate(self.iterate_strict(it, v))]

    def bi_zip(self, it, a, k):
        ls = [self.iterate(it, x) for x in a]
        if any(x is NotImplemented for x in ls):
            return ZipV(a)
        return [tuple(x) for x in zip(*ls)]

    def bi_range(self, it, a, k):
        if all(isinstance(x, int) for x in a):
            return list(range(*a))
        return RangeV(a)

    def bi_iter(self, it, a, k):
        if len(a) == 2:
            return self.make_callable_iter(it, a[0], a[1])
        v = a[0]
        if isinstance(v, Obj):
            m = it.getattr(v, '__iter__')
            return it.call(m, [], {})
        items = self.iterate(it, v)
        if items is NotImplemented:
            raise Unsupported('iter(%r)' % (v,))
        return IterV(items)

    def bi_next(self, it, a, k):
        v = a[0]
        if isinstance(v, IterV):
            if v.pos < len(v.items):
                v.pos += 1
                return v.items[v.pos - 1]
            if len(a) > 1:
                return a[1]
            raise_py('StopIteration')
        if isinstance(v, Obj):
            m = it.getattr(v, '__next__')
            return it.call(m, [], {})
        raise Unsupported('next(%r)' % (v,))

    def bi_sum(self, it, a, k):
        items = self.iterate_strict(it, a[0])
        tot = a[1] if len(a) > 1 else 0
        for x in items:
            tot = self.binop(it, 'Add', tot, x)
        return tot

    def bi_any(self, it, a, k):
        for x in self.iterate_strict(it, a[0]):
            if it.is_true(x):
                return True
        return False

    def bi_all(self, it, a, k):
        for x in self.iterate_strict(it, a[0]):
            if not it.is_true(x):
                return False
        return True

    def bi_reversed(self, it, a, k):
        v = a[0]
        if isinstance(v, Obj):
            m = it.getattr(v, '__reversed__')
            return it.call(m, [], {})
        return list(reversed(self.iterate_strict(it, v)))

    def _minmax(self, it, a, k, which):
        # min / max of two or more numbers (ints, reals; no key function, no iterables of symbolic length)
        if k or len(a) < 2:
            if len(a) == 1 and isinstance(a[0], (list, tuple)) and len(a[0]) >= 1 and not k:
                a = list(a[0])
            else:
                raise Unsupported(which)
        best = a[0]
        for x in a[1:]:
            c = self.order(it, 'Lt' if which == 'min' else 'Gt', x, best)
            if c is True:
                best = x
            elif c is False:
                pass
            else:
                if is_real(x) or is_real(best):
                    best = SV('real', z3.If(c, real_term(x), real_term(best)))
                elif is_int(x) and is_int(best):
                    best = SV('int', z3.If(c, int_term(x), int_term(best)))
                else:
                    raise Unsupported(which + ' of %r and %r' % (x, best))
        return best

    def bi_min(self, it, a, k):
        return self._minmax(it, a, k, 'min')

    def bi_max(self, it, a, k):
        return self._minmax(it, a, k, 'max')

    def bi_abs(self, it, a, k):
        raise Unsupported('abs')

    def bi_print(self, it, a, k):
        return None

    def bi_id(self, it, a, k):
        raise Unsupported('id() is process-dependent (forbidden in pure functions)')

    def bi_hash(self, it, a, k):
        # the builtin hash of str / bytes / objects depends on PYTHONHASHSEED and the process: a fresh,
        # unconstrained integer per call (so nothing that must be a function of the key can be proved from it)
        self.use('builtin hash(): an arbitrary integer per call (seed- and process-dependent)')
        it.st.effect('NONDET', what='hash()')
        return it.st.fresh_sv('builtin_hash', 'int')

    def bi_repr(self, it, a, k):
        if isinstance(a[0], (int, str, float, bytes, type(None))):
            return repr(a[0])
        return self.opaque_str(it, 'repr', a[0])

    # ------------------------------------------------------------ types as callables
    def call_type(self, it, t, a, k):
        n = t.name
        if n == 'tuple':
            if not a:
                return ()
            v = a[0]
            if isinstance(v, SeqV):
                return SeqV(v.t, 'tuple')
            if isinstance(v, MappedSeq):
                return v.to_seq(it)
            return tuple(self.iterate_strict(it, v))
        if n == 'list':
            return [] if not a else list(self.iterate_strict(it, a[0]))
        if n == 'dict':
            if not a:
                return dict(k)
            v = a[0]
            if isinstance(v, dict):
                d = dict(v)
            else:
                d = {}
                for kv in self.iterate_strict(it, v):
                    kk, vv = it.unpack(kv, 2)
                    d[kk] = vv
            d.update(k)
            return d
        if n in ('set', 'frozenset'):
            return SetV([] if not a else self.iterate_strict(it, a[0]))
        if n == 'str':
            if not a:
                return ''
            v = a[0]
            if isinstance(v, str):
                return v
            if isinstance(v, (int, float, type(None))) and not isinstance(v, bool):
                return str(v)
            if isinstance(v, SV) and v.ty == 'str':
                return v
            if isinstance(v, SV) and v.ty == 'int':
                return SV('str', int_to_str(v.t))
            if isinstance(v, ExcVal):
                return self.exc_str(it, v)
            return self.opaque_str(it, 'str', v)
        if n == 'bytes':
            v = a[0]
            if isinstance(v, Bin):
                return v.b
            if is_bytes(v):
                return v
            raise Unsupported('bytes(%r)' % (v,))
        if n == 'bool':
            t_ = it.truth(a[0]) if a else False
            return t_ if isinstance(t_, bool) else SV('bool', t_)
        if n == 'int':
            v = a[0]
            if isinstance(v, (int, str)):
                try:
                    return int(v)
                except ValueError:
                    raise_py('ValueError', 'invalid literal for int()')
            if is_int(v):
                return v
            if isinstance(v, SV) and v.ty == 'str':
                return self.str_to_int(it, v)
            raise Unsupported('int(%r)' % (v,))
        if n == 'float':
            v = a[0]
            if isinstance(v, (int, float, str)):
                return float(v)
            if is_real(v) or is_floatv(v):
                return v
            if is_int(v):
                return SV('real', z3.ToReal(v.t))
            raise Unsupported('float(%r)' % (v,))
        if n == 'sqlite3.Binary':
            v = a[0]
            if is_bytes(v):
                return Bin(v)
            raise Unsupported('Binary(%r)' % (v,))
        if n == 'object':
            return Obj('object')
        raise Unsupported('call of type %s' % n)

    def str_to_int(self, it, v):
        r = SV('int', str_to_int_fn(v.t))
        ok = is_int_literal(v.t)
        if it.st.branch(ok):
            return r
        raise_py('ValueError', 'invalid literal for int()')

    def exc_str(self, it, e):
        if len(e.args) == 1 and isinstance(e.args[0], str):
            return e.args[0]
        return self.opaque_str(it, 'excstr', e.cls)

    def opaque_str(self, it, tag, v):
        return it.st.fresh_sv('str_' + tag, 'str')

    # ------------------------------------------------------------ exceptions
    def call_other(self, it, f, a, k):
        if isinstance(f, ExcClass):
            return ExcVal(f.name, tuple(a))
        return NotImplemented

    def exc_class_name(self, c):
        if isinstance(c, ExcClass):
            return c.name
        if isinstance(c, ClassInfo):
            for b in c.mro():
                if isinstance(b, ExcClass):
                    EXC_PARENTS.setdefault(c.name, c.bases[0].name if c.bases else 'Exception')
                    return c.name
        return None

    def make_exception(self, it, e):
        if isinstance(e, ExcVal):
            return e
        if isinstance(e, (ExcClass, ClassInfo)):
            n = self.exc_class_name(e)
            if n is not None:
                return ExcVal(n, ())
        raise Unsupported('raise of %r' % (e,))

    # ------------------------------------------------------------ decorators
    def decorator(self, it, dec, v):
        if isinstance(dec, EnvFunc):
            if dec.name in ('contextlib.contextmanager',):
                if isinstance(v, FuncVal):
                    v.is_cm = True
                return v
            if dec.name == 'wraps_inner':
                if isinstance(v, FuncVal):
                    v.attrs['__wrapped__'] = dec.wrapped
                return v
        if isinstance(dec, BoundMethod) and isinstance(dec.self, PropertyVal):
            pass
        return NotImplemented

    # ------------------------------------------------------------ imports
    def import_module(self, it, name, cur=None):
        if name.startswith('.'):
            short = name.lstrip('.')
            return self.program.load(self.interp_factory, short)
        if name.split('.')[0] == self.program.package:
            return self.program.load(self.interp_factory, name.split('.', 1)[1])
        if name in self.modules:
            return EnvModule(name)
        raise_py('ImportError', name)

    def module_attr(self, it, mod, name):
        d = self.modules.get(mod.name, {})
        if name in d:
            return d[name]
        sub = mod.name + '.' + name
        if sub in self.modules:
            return EnvModule(sub)
        raise Unsupported('no environment contract for %s.%s' % (mod.name, name))

    # ------------------------------------------------------------ equality
    def py_eq(self, it, a, b):
        if isinstance(a, Opt) or isinstance(b, Opt):
            o, x = (a, b) if isinstance(a, Opt) else (b, a)
            if it.st.branch(o.isnone):
                return self.py_eq(it, None, x)
            return self.py_eq(it, o.inner, x)
        if isinstance(a, Dyn) or isinstance(b, Dyn):
            return self.dyn_eq(it, a, b)
        ca, cb = py_class(a), py_class(b)
        conc = (int, str, bytes, float, bool, type(None))
        if isinstance(a, conc) and isinstance(b, conc):
            return a == b
        if a is None or b is None:
            if ca is T_NONE and cb is T_NONE:
                return True
            return False if (ca is not None and cb is not None) else self._obj_eq(it, a, b)
        num = (T_INT, T_BOOL, T_FLOAT)
        if ca in num and cb in num:
            return self.num_cmp(it, 'Eq', a, b)
        if ca is T_STR and cb is T_STR:
            return term_of(a) == term_of(b)
        if ca is T_BYTES and cb is T_BYTES:
            return term_of(a) == term_of(b)
        if isinstance(a, (tuple, list)) and isinstance(b, (tuple, list)):
            if type(a) is not type(b) or len(a) != len(b):
                return False
            conj = []
            for x, y in zip(a, b):
                r = self.py_eq(it, x, y)
                if r is False:
                    return False
                if r is not True:
                    conj.append(r)
            return True if not conj else z3.And(*conj)
        if isinstance(a, SeqV) or isinstance(b, SeqV):
            ta, tb = seq_term(a), seq_term(b)
            if ta is not None and tb is not None:
                return ta == tb
        if isinstance(a, Bin) and isinstance(b, Bin):
            return self.py_eq(it, a.b, b.b)
        if ca is not None and cb is not None and ca is not cb:
            return False
        return self._obj_eq(it, a, b)

    def _obj_eq(self, it, a, b):
        if isinstance(a, Opaque) and isinstance(b, Opaque) and a.kind == b.kind:
            return a.t == b.t
        if isinstance(a, (PyType, ClassInfo, ExcClass, FuncVal)) or isinstance(b, (PyType, ClassInfo, ExcClass, FuncVal)):
            return a is b
        if isinstance(a, Obj) and isinstance(a.cls, ClassInfo):
            m, _ = a.cls.lookup('__eq__')
            if m is not None:
                return it.call(m, [a, b], {})
        if isinstance(a, Obj) or isinstance(b, Obj):
            if isinstance(a, Obj) and isinstance(b, Obj):
                return a is b
            return False
        if isinstance(a, Opaque) or isinstance(b, Opaque):
            pa, pb = to_pyobj(a), to_pyobj(b)
            if pa is not None and pb is not None:
                return pyobj_eq(pa, pb)
        raise Unsupported('== between %r and %r' % (a, b))

    def dyn_eq(self, it, a, b):
        pa, pb = to_pyobj(a), to_pyobj(b)
        if pa is None or pb is None:
            if isinstance(a, (Obj, tuple)) or isinstance(b, (Obj, tuple)):
                return self.fresh_bool(it, 'dyn_eq')
            raise Unsupported('== between %r and %r' % (a, b))
        return pyobj_eq(pa, pb)

    def fresh_bool(self, it, base):
        return it.st.fresh(base, z3.BoolSort())

    def num_cmp(self, it, op, a, b):
        """Numeric comparison among int/bool/float(transported)/real."""
        fa, fb = is_floatv(a), is_floatv(b)
        if fa and fb:
            ta, tb = term_of(a), term_of(b)
            return {'Eq': z3.fpEQ, 'Lt': z3.fpLT, 'LtE': z3.fpLEQ, 'Gt': z3.fpGT,
                    'GtE': z3.fpGEQ}[op](ta, tb)
        if fa or fb:
            f, i = (a, b) if fa else (b, a)
            if is_real(i):
                raise Unsupported('comparison real/float64')
            ft, itm = term_of(f), int_term(i)
            if op == 'Eq':
                return num_eq_int_float(itm, ft)
            raise Unsupported('ordering int/float64')
        if is_real(a) or is_real(b):
            ta, tb = real_term(a), real_term(b)
        else:
            ta, tb = int_term(a), int_term(b)
        return {'Eq': lambda x, y: x == y, 'Lt': lambda x, y: x < y,
                'LtE': lambda x, y: x <= y, 'Gt': lambda x, y: x > y,
                'GtE': lambda x, y: x >= y}[op](ta, tb)

    def order(self, it, op, a, b):
        if isinstance(a, Opt) or isinstance(b, Opt):
            o = a if isinstance(a, Opt) else b
            if it.st.branch(o.isnone):
                raise_py('TypeError', 'ordering comparison with None')
            if isinstance(a, Opt):
                return self.order(it, op, a.inner, b)
            return self.order(it, op, a, b.inner)
        conc = (int, float, str, bytes)
        if isinstance(a, conc) and isinstance(b, conc):
            try:
                return {'Lt': a < b, 'LtE': a <= b, 'Gt': a > b, 'GtE': a >= b}[op]
            except TypeError:
                raise_py('TypeError', 'unorderable')
        if a is None or b is None:
            raise_py('TypeError', 'ordering comparison with None')
        ca, cb = py_class(a), py_class(b)
        num = (T_INT, T_BOOL, T_FLOAT)
        if ca in num and cb in num:
            return self.num_cmp(it, op, a, b)
        if ca is T_STR and cb is T_STR:
            ta, tb = term_of(a), term_of(b)
            return {'Lt': ta < tb, 'LtE': ta <= tb, 'Gt': tb < ta, 'GtE': tb <= ta}[op]
        if isinstance(a, Dyn) or isinstance(b, Dyn):
            return self.dyn_order(it, op, a, b)
        if ca is not None and cb is not None:
            raise_py('TypeError', 'unorderable types')
        raise Unsupported('ordering between %r and %r' % (a, b))

    def dyn_order(self, it, op, a, b):
        raise Unsupported('ordering on dynamically typed values')

    def dyn_truth(self, it, v):
        return pyobj_truth(v.t)

    def type_is(self, it, a, b):
        if isinstance(a, SymType) and isinstance(b, SymType):
            return a.t == b.t
        s, o = (a, b) if isinstance(a, SymType) else (b, a)
        if isinstance(o, PyType):
            if getattr(s, 'other', False):
                return False        # class `other` means: none of the builtin classes
            return s.t == type_const(o.name)
        return False

    # ------------------------------------------------------------ membership
    def contains(self, it, cont, x):
        if isinstance(cont, (tuple, list)):
            res = []
            for y in cont:
                r = self.py_eq(it, x, y)
                if r is True:
                    return True
                if r is not False:
                    res.append(r)
            return False if not res else z3.Or(*res)
        if isinstance(cont, SetV):
            return self.contains(it, cont.items, x)
        if isinstance(cont, (set, frozenset)):
            return self.contains(it, list(cont), x)
        if isinstance(cont, dict):
            return self.contains(it, list(cont.keys()), x)
        if isinstance(cont, str) and isinstance(x, str):
            return x in cont
        if is_str(cont) and is_str(x):
            return z3.Contains(term_of(cont), term_of(x))
        if isinstance(cont, Obj):
            m = it.getattr(cont, '__contains__')
            return it.call(m, [x], {})
        if isinstance(cont, SymSet):
            return cont.contains(it, x)
        raise Unsupported('membership in %r' % (cont,))

    # ------------------------------------------------------------ arithmetic
    def unop(self, it, op, v):
        if op == 'USub':
            if isinstance(v, (int, float)):
                return -v
            if is_int(v):
                return SV('int', -v.t)
            if is_real(v):
                return SV('real', -v.t)
            if isinstance(v, SV) and v.ty == 'float':
                return SV('float', z3.fpNeg(v.t))
            if isinstance(v, Dyn):
                return self.dyn_binop(it, 'Sub', 0, v)
        if op == 'UAdd' and isinstance(v, (int, float)):
            return v
        raise Unsupported('unary %s on %r' % (op, v))

    def binop(self, it, op, a, b, inplace=False):
        conc = (int, float, str, bytes, tuple, list)
        scal = (int, float, str, bytes, type(None))
        b_conc = isinstance(b, scal) or (isinstance(b, (tuple, list)) and all(isinstance(x, scal) for x in b))
        if isinstance(a, conc) and b_conc and not isinstance(a, (tuple, list)):
            try:
                return self.conc_binop(op, a, b)
            except TypeError:
                raise_py('TypeError', 'unsupported operand types')
            except ZeroDivisionError:
                raise_py('ZeroDivisionError')
        if isinstance(a, Opt) or isinstance(b, Opt):
            o = a if isinstance(a, Opt) else b
            if it.st.branch(o.isnone):
                if isinstance(a, Opt):
                    return self.binop(it, op, None, b)
                return self.binop(it, op, a, None)
            if isinstance(a, Opt):
                return self.binop(it, op, a.inner, b)
            return self.binop(it, op, a, b.inner)
        if op == 'Mod' and is_str(a):
            return self.str_format_percent(it, a, b)
        if isinstance(a, (tuple, list)) and isinstance(b, (tuple, list)) and op == 'Add':
            if type(a) is not type(b):
                raise_py('TypeError', 'concatenate')
            if inplace and isinstance(a, list):
                a.extend(b)
                return a
            return a + b
        if (isinstance(a, SeqV) or isinstance(b, SeqV)) and op == 'Add':
            ta, tb = seq_term(a), seq_term(b)
            if ta is None or tb is None:
                raise Unsupported('sequence concat %r + %r' % (a, b))
            return SeqV(z3.Concat(ta, tb), 'tuple')
        if is_str(a) and is_str(b) and op == 'Add':
            return SV('str', z3.Concat(term_of(a), term_of(b)))
        if is_bytes(a) and is_bytes(b) and op == 'Add':
            return SV('bytes', z3.Concat(term_of(a), term_of(b)))
        if a is None or b is None:
            raise_py('TypeError', 'unsupported operand None')
        if isinstance(a, Dyn) or isinstance(b, Dyn):
            return self.dyn_binop(it, op, a, b)
        numa = is_int(a) or is_boolv(a) or is_real(a) or isinstance(a, float)
        numb = is_int(b) or is_boolv(b) or is_real(b) or isinstance(b, float)
        if numa and numb:
            return self.num_binop(it, op, a, b)
        if is_floatv(a) or is_floatv(b):
            raise Unsupported('arithmetic on transported Float64')
        ca, cb = py_class(a), py_class(b)
        if ca is not None and cb is not None:
            raise_py('TypeError', 'unsupported operand types for %s' % op)
        raise Unsupported('binop %s on %r, %r' % (op, a, b))

    def conc_binop(self, op, a, b):
        import operator as o
        f = {'Add': o.add, 'Sub': o.sub, 'Mult': o.mul, 'Div': o.truediv, 'FloorDiv': o.floordiv,
             'Mod': o.mod, 'Pow': o.pow, 'BitAnd': o.and_, 'BitOr': o.or_, 'LShift': o.lshift,
             'RShift': o.rshift}[op]
        return f(a, b)

    def num_binop(self, it, op, a, b):
        if is_real(a) or is_real(b) or isinstance(a, float) or isinstance(b, float) or op == 'Div':
            ta, tb = real_term(a), real_term(b)
            if op == 'Add':
                return SV('real', ta + tb)
            if op == 'Sub':
                return SV('real', ta - tb)
            if op == 'Mult':
                return SV('real', ta * tb)
            if op == 'Div':
                if it.st.branch(tb == 0):
                    raise_py('ZeroDivisionError')
                return SV('real', ta / tb)
            raise Unsupported('real op %s' % op)
        ta, tb = int_term(a), int_term(b)
        if op == 'Add':
            return SV('int', ta + tb)
        if op == 'Sub':
            return SV('int', ta - tb)
        if op == 'Mult':
            return SV('int', ta * tb)
        if op == 'Mod':
            if isinstance(b, int) and b > 0:
                return SV('int', ta % tb)
            if it.st.branch(tb == 0):
                raise_py('ZeroDivisionError')
            if it.st.branch(tb > 0):
                return SV('int', ta % tb)
            raise Unsupported('modulo by a possibly negative divisor')
        if op == 'BitAnd':
            m = b if isinstance(b, int) else (a if isinstance(a, int) else None)
            x = ta if isinstance(b, int) else tb
            if m is not None and m >= 0 and (m & (m + 1)) == 0:
                return SV('int', x % (m + 1))
            raise Unsupported('bitand with non-mask')
        if op == 'FloorDiv' and isinstance(b, int) and b > 0:
            return SV('int', ta / tb)
        raise Unsupported('int op %s' % op)

    def dyn_binop(self, it, op, a, b):
        raise Unsupported('arithmetic on dynamically typed value')

    # ------------------------------------------------------------ string formatting
    def str_format_percent(self, it, fmt, args):
        if not isinstance(fmt, str):
            raise Unsupported('% with symbolic template')
        argl = list(args) if isinstance(args, tuple) else [args]
        if all(isinstance(x, (int, float, str, type(None))) for x in argl):
            try:
                return fmt % (tuple(argl) if isinstance(args, tuple) else args)
            except (TypeError, ValueError):
                raise_py('TypeError', 'format')
        import re
        pieces = re.split(r'(%[-+ 0#]*\d*(?:\.\d+)?[sdr%])', fmt)
        out = []
        for p in pieces:
            if p.startswith('%') and len(p) > 1:
                if p == '%%':
                    out.append(z3.StringVal('%'))
                    continue
                x = argl.pop(0)
                out.append(self.format_one(it, p[1:], x))
            elif p:
                out.append(z3.StringVal(p))
        if all(z3.is_string_value(o) for o in out):
            return ''.join(_strval(o) for o in out)
        if len(out) == 1:
            return SV('str', out[0])
        return SV('str', z3.Concat(*out))

    def format_one(self, it, spec, x):
        """spec like 's', 'd', '03d', '015d'."""
        conv = spec[-1]
        flags = spec[:-1]
        if isinstance(x, (int, str, float)) or x is None:
            return z3.StringVal(('%' + spec) % x)
        if conv == 's' and not flags and isinstance(x, SV) and x.ty == 'real':
            # a float formatted into text (only ever SQL text in this code base): hole token that the
            # SQL parser maps back to the value (str(float) round-trips exactly)
            holes = it.st.ghost.setdefault('holes', {})
            n = len(holes)
            holes[n] = x
            self.use('str(float) formatted into SQL text denotes the same REAL value')
            return z3.StringVal('\x00H%d\x00' % n)
        if conv == 's' and isinstance(x, SV) and x.ty == 'str' and not flags:
            return x.t
        if conv == 'd' and is_int(x):
            if flags.startswith('0') and flags[1:].isdigit():
                return fmt_zero_pad(int(flags[1:]), x.t)
            if not flags:
                return int_to_str(x.t)
        if conv == 's' and is_int(x) and not flags:
            return int_to_str(x.t)
        return it.st.fresh('fmt', STR)

    def str_format_method(self, it, fmt, args, kwargs):
        if not isinstance(fmt, str):
            raise Unsupported('.format on symbolic template')
        if all(isinstance(x, (int, float, str, type(None))) for x in list(args) + list(kwargs.values())):
            return fmt.format(*args, **kwargs)
        import string
        out = []
        auto = 0
        for lit, field, spec, conv in string.Formatter().parse(fmt):
            if lit:
                out.append(z3.StringVal(lit))
            if field is None:
                continue
            if field == '':
                x = args[auto]
                auto += 1
            elif field.isdigit():
                x = args[int(field)]
            else:
                x = kwargs[field]
            if conv == 'r':
                out.append(it.st.fresh('repr', STR))
                continue
            sp = spec or ''
            if sp == '':
                out.append(self.format_one(it, 's', x))
            elif sp.endswith('d'):
                out.append(self.format_one(it, sp, x))
            else:
                out.append(it.st.fresh('fmt', STR))
        if not out:
            return ''
        if all(z3.is_string_value(o) for o in out):
            return ''.join(_strval(o) for o in out)
        return SV('str', z3.Concat(*out) if len(out) > 1 else out[0])

    # ------------------------------------------------------------ containers
    def getitem(self, it, obj, idx):
        if isinstance(obj, (tuple, list)):
            if isinstance(idx, slice):
                if all(isinstance(x, (int, type(None))) for x in (idx.start, idx.stop, idx.step)):
                    return obj[idx]
                raise Unsupported('symbolic slice of tuple')
            if isinstance(idx, bool):
                idx = int(idx)
            if isinstance(idx, int):
                try:
                    return obj[idx]
                except IndexError:
                    raise_py('IndexError', 'index out of range')
            if isinstance(idx, SV) and idx.ty in ('bool', 'int'):
                # fork over the concrete positions
                t = int_term(idx)
                for i in range(len(obj)):
                    if it.st.branch(t == i):
                        return obj[i]
                for i in range(1, len(obj) + 1):
                    if it.st.branch(t == -i):
                        return obj[-i]
                raise_py('IndexError', 'index out of range')
        if isinstance(obj, dict):
            if isinstance(idx, (int, str, bytes, type(None), tuple, float)):
                if idx in obj:
                    return obj[idx]
                if all(isinstance(k, (int, str, bytes, type(None), tuple, float)) for k in obj):
                    raise PyRaise(ExcVal('KeyError', (idx,)))
            for k, v in obj.items():
                if it.st.branch(zbool(self.py_eq(it, k, idx))):
                    return v
            raise PyRaise(ExcVal('KeyError', (idx,)))
        if isinstance(obj, str):
            if isinstance(idx, slice) and all(isinstance(x, (int, type(None))) for x in (idx.start, idx.stop, idx.step)):
                return obj[idx]
            if isinstance(idx, int):
                return obj[idx]
        if is_str(obj) or is_bytes(obj):
            return self.seq_slice(it, obj, idx)
        if isinstance(obj, Obj) and '__items__' in obj.fields:
            return self.getitem(it, obj.fields['__items__'], idx)
        if isinstance(obj, Obj):
            m = it.getattr(obj, '__getitem__')
            return it.call(m, [idx], {})
        if isinstance(obj, ExcVal) and False:
            pass
        if isinstance(obj, SeqV):
            return self.seqv_getitem(it, obj, idx)
        r = self.getitem_ext(it, obj, idx)
        if r is not NotImplemented:
            return r
        raise Unsupported('subscript of %r' % (obj,))

    def getitem_ext(self, it, obj, idx):
        return NotImplemented

    def seqv_getitem(self, it, obj, idx):
        raise Unsupported('subscript of symbolic sequence')

    def seq_slice(self, it, obj, idx):
        t = term_of(obj)
        ty = 'str' if is_str(obj) else 'bytes'
        n = z3.Length(t)
        if isinstance(idx, slice):
            if idx.step is not None:
                raise Unsupported('slice step')
            kl = it.st.ghost.get('known_len', {}).get(t.get_id())
            if kl is not None and all(x is None or isinstance(x, int) for x in (idx.start, idx.stop)):
                lo, hi, _ = slice(idx.start, idx.stop).indices(kl)
                r = z3.SubSeq(t, z3.IntVal(lo), z3.IntVal(max(hi - lo, 0)))
                it.st.ghost.setdefault('known_len', {})[r.get_id()] = max(hi - lo, 0)
                return SV(ty, r)

            def norm(x, default):
                if x is None:
                    return default
                xt = int_term(x)
                if isinstance(x, int):
                    return z3.IntVal(x) if x >= 0 else n + x
                # symbolic: fork on sign
                if it.st.branch(xt >= 0):
                    return xt
                return n + xt
            lo = norm(idx.start, z3.IntVal(0))
            hi = norm(idx.stop, n)
            # clamp
            lo = z3.If(lo < 0, 0, z3.If(lo > n, n, lo))
            hi = z3.If(hi < 0, 0, z3.If(hi > n, n, hi))
            ln = z3.If(hi > lo, hi - lo, 0)
            return SV(ty, z3.SubSeq(t, lo, ln))
        raise Unsupported('indexing a symbolic string')

    def setitem(self, it, obj, idx, v):
        if isinstance(obj, list):
            if isinstance(idx, int):
                try:
                    obj[idx] = v
                    return
                except IndexError:
                    raise_py('IndexError', 'assignment index out of range')
            if isinstance(idx, SV):
                t = int_term(idx)
                for i in range(len(obj)):
                    if it.st.branch(t == i):
                        obj[i] = v
                        return
                raise_py('IndexError', 'assignment index out of range')
        if isinstance(obj, dict):
            for k in list(obj):
                r = self.py_eq(it, k, idx)
                if r is True or (r is not False and it.st.branch(r)):
                    obj[k] = v
                    return
            obj[idx] = v
            return
        if isinstance(obj, Obj):
            m = it.getattr(obj, '__setitem__')
            return it.call(m, [idx, v], {})
        raise Unsupported('item assignment on %r' % (obj,))

    def delitem(self, it, obj, idx):
        if isinstance(obj, Obj):
            m = it.getattr(obj, '__delitem__')
            return it.call(m, [idx], {})
        if isinstance(obj, dict):
            for k in list(obj):
                r = self.py_eq(it, k, idx)
                if r is True or (r is not False and it.st.branch(r)):
                    del obj[k]
                    return
            raise PyRaise(ExcVal('KeyError', (idx,)))
        raise Unsupported('del item on %r' % (obj,))

    def iterate(self, it, v):
        """Concrete list of items, or NotImplemented for symbolic-length."""
        if isinstance(v, (tuple, list)):
            return list(v)
        if isinstance(v, dict):
            return list(v.keys())
        if isinstance(v, (set, frozenset)):
            return sorted(v, key=repr)
        if isinstance(v, SetV):
            return list(v.items)
        if isinstance(v, str):
            return list(v)
        if isinstance(v, Obj) and v.cls == 'lazymap':
            src = self.iterate(it, v.fields['source'])
            if src is NotImplemented:
                return NotImplemented
            if v.fields.get('done'):
                return []
            v.fields['done'] = True
            return [it.call(v.fields['func'], [x], {}) for x in src]
        if isinstance(v, IterV):
            rest = v.items[v.pos:]
            v.pos = len(v.items)
            return rest
        if isinstance(v, Obj):
            r = self.obj_iterate(it, v)
            return r
        return NotImplemented

    def obj_iterate(self, it, v):
        return NotImplemented

    def iterate_strict(self, it, v):
        r = self.iterate(it, v)
        if r is NotImplemented:
            raise Unsupported('iteration over %r' % (v,))
        return r

    def unpack(self, it, v, n):
        if isinstance(v, IterV):
            return it.unpack(tuple(self.iterate(it, v)), n)
        if isinstance(v, Opt):
            if it.st.branch(v.isnone):
                raise_py('TypeError', 'cannot unpack None')
            return it.unpack(v.inner, n)
        if v is None or is_int(v) or is_boolv(v) or is_floatv(v) or is_real(v):
            raise_py('TypeError', 'cannot unpack non-iterable')
        if isinstance(v, Obj) and v.cls == 'SymSeq':
            if it.st.branch(v.n == n):
                return [v.elem(z3.IntVal(i)) for i in range(n)]
            raise_py('ValueError', 'unpack: wrong number of values')
        return NotImplemented

    def make_set(self, it, items):
        return SetV(items)

    def as_kwargs(self, it, d):
        return NotImplemented

    def symbolic_comprehension(self, it, e, fr):
        return NotImplemented

    # ------------------------------------------------------------ object protocol hooks
    def obj_getattr(self, it, o, name):
        cls = o.cls if isinstance(o.cls, str) else None
        if cls is None and isinstance(o.cls, ClassInfo):
            for c in o.cls.mro():
                if isinstance(c, EnvClass):
                    m = self.obj_methods.get(c.name, {}).get(name)
                    if m is not None:
                        return EnvFunc(c.name + '.' + name, lambda it2, a, k, m=m, o=o: m(it2, o, a, k))
            return NotImplemented
        m = self.obj_methods.get(cls, {}).get(name)
        if m is not None:
            e = EnvFunc(cls + '.' + name, lambda it2, a, k, m=m, o=o: m(it2, o, a, k))
            if cls == 'stream' and name == 'read':
                e.stream_source = o
            return e
        return NotImplemented

    def obj_setattr(self, it, o, name, val):
        return NotImplemented

    def obj_delattr(self, it, o, name):
        return NotImplemented

    def class_getattr(self, it, c, name):
        return NotImplemented

    def super_getattr(self, it, c, selfv, name):
        if isinstance(c, (EnvClass, PyType, ExcClass)):
            m = self.obj_methods.get(c.name, {}).get(name)
            if m is not None:
                return EnvFunc(c.name + '.' + name, lambda it2, a, k, m=m, o=selfv: m(it2, o, a, k))
        return NotImplemented

    def value_getattr(self, it, o, name):
        """Attributes / methods of scalar and container values."""
        if isinstance(o, EnvClass) and o.name == 'MutableMapping' and name == 'update':
            def mm_update(it2, a, k):
                selfv, rest = a[0], a[1:]
                self.use('collections.abc.MutableMapping.update: self[k] = v for each given pair (stdlib docs)')
                for src in rest:
                    pairs = list(src.items()) if isinstance(src, dict) else self.iterate_strict(it2, src)
                    for kv in pairs:
                        kk, vv = it2.unpack(kv, 2)
                        it2.setitem(selfv, kk, vv)
                for kk, vv in k.items():
                    it2.setitem(selfv, kk, vv)
                return None
            return EnvFunc('MutableMapping.update', mm_update)
        m = getattr(self, 'vm_' + name, None)
        if m is not None:
            e = EnvFunc('method.' + name, lambda it2, a, k, m=m, o=o: m(it2, o, a, k))
            if name == 'append' and isinstance(o, list):
                e.append_target = o
            return e
        if isinstance(o, ExcVal) and name == 'args':
            return o.args
        if isinstance(o, ExcVal) and name == 'errno':
            return it.st.fresh_sv('errno', 'int')
        if isinstance(o, PropertyVal) and name == 'setter':
            return EnvFunc('property.setter', lambda it2, a, k, o=o: PropertyVal(o.fget, a[0]))
        if isinstance(o, (PyType, ExcClass)) and name == '__name__':
            return o.name
        if o is T_TUPLE and name == '__new__':
            return EnvFunc('tuple.__new__', lambda it2, a, k: Obj(a[0], {'__items__': tuple(a[1]) if len(a) > 1 else ()}))
        if isinstance(o, ClassInfo) and name == '__name__':
            return o.name
        if isinstance(o, BoundMethod):
            return it.getattr(o.func, name)
        if isinstance(o, EnvFunc) and name == '__name__':
            return o.name.split('.')[-1]
        raise Unsupported('attribute %s of %r' % (name, o))

    # methods on values ---------------------------------------------------
    def vm_startswith(self, it, o, a, k):
        if isinstance(o, str) and isinstance(a[0], str):
            return o.startswith(a[0])
        return SV('bool', z3.PrefixOf(term_of(a[0]), term_of(o)))

    def vm_encode(self, it, o, a, k):
        return self.lib.str_encode(it, o, a, k)

    def vm_decode(self, it, o, a, k):
        return self.lib.bytes_decode(it, o, a, k)

    def vm_format(self, it, o, a, k):
        return self.str_format_method(it, o, a, k)

    def vm_join(self, it, o, a, k):
        items = self.iterate(it, a[0])
        if items is NotImplemented:
            return self.lib.join_symbolic(it, o, a[0])
        if isinstance(o, str) and all(isinstance(x, str) for x in items):
            return o.join(items)
        ts = []
        for i, x in enumerate(items):
            if i:
                ts.append(term_of(o))
            ts.append(term_of(x))
        if not ts:
            return ''
        return SV('str', z3.Concat(*ts) if len(ts) > 1 else ts[0])

    def vm_split(self, it, o, a, k):
        if isinstance(o, str):
            return o.split(*a)
        raise Unsupported('split on symbolic string')

    def vm_rfind(self, it, o, a, k):
        if isinstance(o, str) and isinstance(a[0], str):
            return o.rfind(a[0])
        return SV('int', z3.LastIndexOf(term_of(o), term_of(a[0])))

    def vm_items(self, it, o, a, k):
        if isinstance(o, dict):
            return list(o.items())
        if isinstance(o, KwDict):
            return o.items_view()
        if isinstance(o, Obj):
            return it.call(it.getattr_nofallback(o, 'items'), a, k)
        raise Unsupported('.items() of %r' % (o,))

    def vm_keys(self, it, o, a, k):
        if isinstance(o, dict):
            return list(o.keys())
        raise Unsupported('.keys() of %r' % (o,))

    def vm_values(self, it, o, a, k):
        if isinstance(o, dict):
            return list(o.values())
        raise Unsupported('.values() of %r' % (o,))

    def vm_copy(self, it, o, a, k):
        if isinstance(o, dict):
            return dict(o)
        if isinstance(o, list):
            return list(o)
        raise Unsupported('.copy() of %r' % (o,))

    def vm_update(self, it, o, a, k):
        if isinstance(o, dict):
            for x in a:
                if isinstance(x, dict):
                    for kk, vv in x.items():
                        self.setitem(it, o, kk, vv)
                elif isinstance(x, (list, tuple)) or type(x).__name__ == 'IterV':
                    items = x.items[x.pos:] if type(x).__name__ == 'IterV' else list(x)
                    if type(x).__name__ == 'IterV':
                        x.pos = len(x.items)
                    for pair in items:
                        if not (isinstance(pair, (tuple, list)) and len(pair) == 2):
                            raise Unsupported('dict.update element %r' % (pair,))
                        self.setitem(it, o, pair[0], pair[1])
                else:
                    raise Unsupported('dict.update(%r)' % (x,))
            for kk, vv in k.items():
                self.setitem(it, o, kk, vv)
            return None
        raise Unsupported('.update of %r' % (o,))

    def vm_pop(self, it, o, a, k):
        if isinstance(o, dict):
            for kk in list(o):
                r = self.py_eq(it, kk, a[0])
                if r is True or (r is not False and it.st.branch(r)):
                    return o.pop(kk)
            if len(a) > 1:
                return a[1]
            raise PyRaise(ExcVal('KeyError', (a[0],)))
        if isinstance(o, list):
            try:
                return o.pop(*a)
            except IndexError:
                raise_py('IndexError', 'pop from empty list')
        raise Unsupported('.pop of %r' % (o,))

    def vm_get(self, it, o, a, k):
        if isinstance(o, dict):
            for kk in list(o):
                r = self.py_eq(it, kk, a[0])
                if r is True or (r is not False and it.st.branch(r)):
                    return o[kk]
            return a[1] if len(a) > 1 else None
        raise Unsupported('.get of %r' % (o,))

    def vm_append(self, it, o, a, k):
        if isinstance(o, list):
            o.append(a[0])
            return None
        raise Unsupported('.append of %r' % (o,))

    def vm_add(self, it, o, a, k):
        if isinstance(o, SetV):
            o.items.append(a[0])
            return None
        raise Unsupported('.add of %r' % (o,))

    def vm_clear(self, it, o, a, k):
        if isinstance(o, (dict, list)):
            o.clear()
            return None
        raise Unsupported('.clear of %r' % (o,))

    def vm_setdefault(self, it, o, a, k):
        if isinstance(o, dict):
            return o.setdefault(*a)
        raise Unsupported('.setdefault of %r' % (o,))

    def vm___sub__(self, it, o, a, k):
        raise Unsupported('set difference')

    # context managers -----------------------------------------------------
    def cm_enter(self, it, cm):
        if isinstance(cm, Obj):
            if isinstance(cm.cls, ClassInfo):
                m = it.getattr(cm, '__enter__')
                return it.call(m, [], {})
            m = self.obj_methods.get(cm.cls, {}).get('__enter__')
            if m is not None:
                return m(it, cm, [], {})
        raise Unsupported('context manager %r' % (cm,))

    def cm_exit(self, it, cm, exc):
        """Returns True when the exception is suppressed."""
        if isinstance(cm, Obj):
            if isinstance(cm.cls, ClassInfo):
                m = it.getattr(cm, '__exit__')
                if exc is None:
                    r = it.call(m, [None, None, None], {})
                else:
                    r = it.call(m, [ExcClass(exc.cls), exc, None], {})
                return exc is not None and it.is_true(r)
            m = self.obj_methods.get(cm.cls, {}).get('__exit__')
            if m is not None:
                return bool(m(it, cm, [exc], {}))
        raise Unsupported('context manager exit %r' % (cm,))

    def make_callable_iter(self, it, f, sentinel):
        return self.lib.callable_iter(it, f, sentinel)


def _strval(o):
    import re
    return re.sub(r'\\u\{([0-9a-fA-F]+)\}', lambda m: chr(int(m.group(1), 16)), o.as_string())


class SortedItems:
    pass


class EnumSeq:
    def __init__(self, seq):
        self.seq = seq


class ZipV:
    def __init__(self, parts):
        self.parts = parts


class RangeV:
    def __init__(self, args):
        self.args = args


class MappedSeq:
    pass


class KwDict:
    pass


class SymSet:
    pass


# ------------------------------------------------------------------ shared z3 functions
_I = z3.IntSort()
_B = z3.BoolSort()
int_to_str = z3.IntToStr
str_to_int_fn = z3.Function('py_int_of_str', STR, _I)
is_int_literal = z3.Function('py_is_int_literal', STR, _B)
typeof_other = z3.Function('typeof_other', OTHER, TYPE)
_type_consts = {}


def type_const(name):
    if name not in _type_consts:
        _type_consts[name] = z3.Const('type_' + name.replace('.', '_'), TYPE)
    return _type_consts[name]


def typeof_pyobj(t):
    P = PyObj
    return z3.If(P.is_ONone(t), type_const('NoneType'),
           z3.If(P.is_OBool(t), type_const('bool'),
           z3.If(P.is_OInt(t), type_const('int'),
           z3.If(P.is_OFloat(t), type_const('float'),
           z3.If(P.is_OStr(t), type_const('str'),
           z3.If(P.is_OBytes(t), type_const('bytes'),
           z3.If(P.is_OType(t), type_const('type'),
                 typeof_other(P.oo(t)))))))))


def distinct_type_axioms():
    names = ['NoneType', 'bool', 'int', 'float', 'str', 'bytes', 'type']
    cs = [type_const(n) for n in names]
    ax = [z3.Distinct(*cs)]
    o = z3.Const('o_ax', OTHER)
    ax.append(z3.ForAll([o], z3.And(*[typeof_other(o) != c for c in cs])))
    return ax


fmt_pad_fns = {}


def fmt_zero_pad(width, t):
    """'%0<width>d' % t  as an uninterpreted function with stated facts."""
    if width not in fmt_pad_fns:
        fmt_pad_fns[width] = z3.Function('fmt_%%0%dd' % width, _I, STR)
    return fmt_pad_fns[width](t)


def seq_term(v):
    if isinstance(v, SeqV):
        return v.t
    if isinstance(v, (tuple, list)):
        items = [to_pyobj(x) for x in v]
        if any(x is None for x in items):
            return None
        S = z3.SeqSort(PyObj)
        if not items:
            return z3.Empty(S)
        us = [z3.Unit(x) for x in items]
        return z3.Concat(*us) if len(us) > 1 else us[0]
    return None


def pyobj_eq(a, b):
    """Python == on two PyObj terms (numbers compare numerically across int/bool/float)."""
    P = PyObj

    def as_int(x):
        return z3.If(P.is_OBool(x), z3.If(P.ob(x), 1, 0), P.oi(x))
    isnum_i = lambda x: z3.Or(P.is_OBool(x), P.is_OInt(x))
    return z3.If(z3.And(isnum_i(a), isnum_i(b)), as_int(a) == as_int(b),
           z3.If(z3.And(P.is_OFloat(a), P.is_OFloat(b)), z3.fpEQ(P.of(a), P.of(b)),
           z3.If(z3.And(isnum_i(a), P.is_OFloat(b)), num_eq_int_float(as_int(a), P.of(b)),
           z3.If(z3.And(P.is_OFloat(a), isnum_i(b)), num_eq_int_float(as_int(b), P.of(a)),
           z3.If(z3.And(P.is_OOther(a), P.is_OOther(b)), other_eq(P.oo(a), P.oo(b)),
                 a == b)))))


other_eq = z3.Function('other_py_eq', OTHER, OTHER, _B)


def pyobj_truth(t):
    P = PyObj
    return z3.If(P.is_ONone(t), False,
           z3.If(P.is_OBool(t), P.ob(t),
           z3.If(P.is_OInt(t), P.oi(t) != 0,
           z3.If(P.is_OFloat(t), z3.Not(z3.fpIsZero(P.of(t))),
           z3.If(P.is_OStr(t), z3.Length(P.os(t)) > 0,
           z3.If(P.is_OBytes(t), z3.Length(P.oy(t)) > 0,
                 other_truth(P.oo(t))))))))


other_truth = z3.Function('other_truth', OTHER, _B)

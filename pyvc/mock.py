"""Recorder objects: collaborators whose methods are known only by contract.

A Recorder stands for an object of a real repository class (signature source).
Calling a method binds the arguments BY THE REAL PARAMETER NAMES read from the
class's def, records an effect and produces one outcome per declared
possibility (a fresh return value, or one of the declared exceptions).
"""
import z3

from .values import *  # noqa
from .engine import (Unsupported, PyRaise, raise_py, EnvFunc, FuncVal, ClassInfo, PropertyVal)

RET = z3.DeclareSort('Ret')


class Recorder(Obj):
    def __init__(self, tag, sigclass, index=None, outcomes=None, fields=None):
        Obj.__init__(self, 'Recorder', fields or {})
        self.tag = tag
        self.sigclass = sigclass
        self.index = index
        self.outcomes = outcomes or (lambda name, bound: ['return'])


class RecCM(Obj):
    """Context manager returned by a recorder's @contextmanager method (e.g. cache.transact)."""

    def __init__(self, rec, name, bound):
        Obj.__init__(self, 'RecCM', {})
        self.rec = rec
        self.name = name
        self.bound = bound


DUNDER = {'__setitem__', '__getitem__', '__delitem__', '__contains__', '__len__', '__iter__',
          '__reversed__', '__enter__', '__exit__'}


def install(env):
    base_getattr = env.obj_getattr

    def obj_getattr(it, o, name):
        if isinstance(o, Recorder):
            if name in o.fields:
                return o.fields[name]
            return recorder_method(it, o, name)
        return base_getattr(it, o, name)
    env.obj_getattr = obj_getattr
    base_enter, base_exit = env.cm_enter, env.cm_exit

    def cm_enter(it, cm):
        if isinstance(cm, RecCM):
            it.st.effect('CM_ENTER', target=cm.rec, name=cm.name, bound=cm.bound)
            return None
        if isinstance(cm, Recorder):
            return it.call(it.getattr(cm, '__enter__'), [], {})
        return base_enter(it, cm)

    def cm_exit(it, cm, exc):
        if isinstance(cm, RecCM):
            it.st.effect('CM_EXIT', target=cm.rec, name=cm.name, exc=exc)
            return False
        if isinstance(cm, Recorder):
            it.call(it.getattr(cm, '__exit__'), [None, None, None] if exc is None else [exc.cls, exc, None], {})
            return False
        return base_exit(it, cm, exc)
    env.cm_enter, env.cm_exit = cm_enter, cm_exit


def recorder_method(it, rec, name):
    sig, _ = rec.sigclass.lookup(name)
    if sig is None:
        raise_py('AttributeError', name)
    if isinstance(sig, PropertyVal):
        return call_recorded(it, rec, name, sig.fget, [], {})
    if not isinstance(sig, FuncVal):
        raise Unsupported('recorder attribute %s is %r' % (name, sig))
    if sig.is_cm:
        def make_cm(it2, a, k):
            bound = it2.bind_args(sig, [rec] + list(a), dict(k))
            bound.pop(sig.node.args.args[0].arg, None)
            return RecCM(rec, name, bound)
        return EnvFunc('%s.%s' % (rec.tag, name), make_cm)
    return EnvFunc('%s.%s' % (rec.tag, name), lambda it2, a, k: call_recorded(it2, rec, name, sig, a, k))


def call_recorded(it, rec, name, sig, a, k):
    bound = it.bind_args(sig, [rec] + list(a), dict(k))
    selfname = sig.node.args.args[0].arg
    bound = {p: v for p, v in bound.items() if p != selfname}
    outs = rec.outcomes(name, bound)
    d = it.st.decide(len(outs)) if len(outs) > 1 else 0
    out = outs[d]
    n = sum(1 for e in it.st.trace if e[0] == 'CALL')
    if out == 'return':
        ret = Opaque('ret', it.st.fresh('ret_%s_%d' % (name, n), RET))
        it.st.effect('CALL', target=rec, name=name, bound=bound, outcome='return', ret=ret)
        return ret
    if isinstance(out, tuple) and out[0] == 'return':
        ret = out[1](it, bound, n)
        it.st.effect('CALL', target=rec, name=name, bound=bound, outcome='return', ret=ret)
        return ret
    exc = out if isinstance(out, ExcVal) else ExcVal(out, ())
    if exc.cls == 'Timeout' and name in ('expire', 'evict', 'cull', 'clear'):
        cnt = it.st.fresh_sv('timeout_count_%d' % n, 'int')
        it.st.assume(cnt.t >= 0)
        exc = ExcVal('Timeout', (cnt,))
    it.st.effect('CALL', target=rec, name=name, bound=bound, outcome='raise', exc=exc)
    raise PyRaise(exc)


def calls(path_or_state):
    st = getattr(path_or_state, 'state', path_or_state)
    return [e[1] for e in st.trace if e[0] == 'CALL']

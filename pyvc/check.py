"""Obligation discharge, verdict policy, evidence and replay files (DESIGN 2.10, 5)."""
import json
import multiprocessing as mp
import os
import shutil
import subprocess
import tempfile
import sys
import time
import traceback

import z3

VERIF = os.path.dirname(os.path.dirname(os.path.abspath(__file__)))
EVDIR = os.environ.get('VERIF_EVIDENCE_DIR') or os.path.join(VERIF, 'evidence')
QUERY_TIMEOUT_MS = int(os.environ.get('VERIF_QUERY_MS', '10000'))


def model_to_dict(m, limit=60):
    out = {}
    for d in m.decls()[:limit]:
        try:
            out[d.name()] = str(m[d])[:400]
        except Exception:
            pass
    return out


def _has_quantifier(t, cache):
    i = t.get_id()
    if i in cache:
        return cache[i]
    stack, seen, found = [t], set(), False
    while stack:
        x = stack.pop()
        if x.get_id() in seen:
            continue
        seen.add(x.get_id())
        if z3.is_quantifier(x):
            found = True
            break
        stack.extend(x.children())
    cache[i] = found
    return found


def _split_and(t):
    if z3.is_and(t):
        out = []
        for c in t.children():
            out += _split_and(c)
        return out
    return [t]


def _array_constants(formulas):
    out, seen = {}, set()
    stack = list(formulas)
    while stack:
        x = stack.pop()
        if x.get_id() in seen:
            continue
        seen.add(x.get_id())
        if z3.is_quantifier(x):
            stack.append(x.body())
            continue
        if z3.is_app(x):
            if x.num_args() == 0 and x.decl().kind() == z3.Z3_OP_UNINTERPRETED and x.sort().kind() == z3.Z3_ARRAY_SORT:
                out[x.decl().name()] = x
            stack.extend(x.children())
    return list(out.values())


def _index_terms(formulas):
    """Ground terms used as array indices (select / store), by sort."""
    by_sort, seen = {}, set()
    stack = [(f, False) for f in formulas]
    while stack:
        x, bound = stack.pop()
        if (x.get_id(), bound) in seen:
            continue
        seen.add((x.get_id(), bound))
        if z3.is_quantifier(x):
            continue                    # only ground occurrences
        if z3.is_app(x):
            k = x.decl().kind()
            if k in (z3.Z3_OP_SELECT, z3.Z3_OP_STORE):
                t = x.arg(1)
                by_sort.setdefault(t.sort().name() + str(t.sort().get_id()), {})[t.get_id()] = t
            stack.extend((c, bound) for c in x.children())
    return {k: list(v.values()) for k, v in by_sort.items()}


def _finitize(arrays, formulas, depth=0):
    idx = _index_terms(formulas)
    out = []

    def finite(a, lvl):
        dom, rng = a.sort().domain(), a.sort().range()
        d = z3.FreshConst(rng, 'dflt')
        chain = z3.K(dom, d)
        for t in idx.get(dom.name() + str(dom.get_id()), [])[:40]:
            v = z3.FreshConst(rng, 'cell')
            chain = z3.Store(chain, t, v)
            if rng.kind() == z3.Z3_ARRAY_SORT and lvl < 1:
                finite(v, lvl + 1)
        out.append(a == chain)
        if rng.kind() == z3.Z3_ARRAY_SORT and lvl < 1:
            finite(d, lvl + 1)
    for a in arrays:
        finite(a, 0)
    return out


def finite_model_search(pc, goal, extra=(), rounds=12, budget_s=4, why=None):
    """Model-based instantiation by hand, for goals that z3 leaves `unknown` under a quantified path
    condition (DESIGN 2.10).  Solve the quantifier-free part of (pc and not goal) together with the
    instances collected so far; evaluate every universally quantified conjunct in the model found and ask
    for a falsifying witness; add that instance and repeat.
      unsat  -> the goal follows from a SUBSET of consequences of pc: proved (sound);
      a model in which every conjunct of pc, quantified ones included, has been validated and the goal is
      false -> a genuine countermodel: refuted (sound);
      anything else (budget, a validation query that is itself undecided) -> None.
    Returns (verdict, model, backend) or None."""
    t0 = time.time()
    cache = {}
    conj = []
    for c in list(extra) + list(pc) + [z3.Not(goal)]:
        conj += _split_and(c)
    qf = [c for c in conj if not _has_quantifier(c, cache)]
    quant = [c for c in conj if _has_quantifier(c, cache)]
    foralls = [c for c in quant if z3.is_quantifier(c) and c.is_forall()]
    other = [c for c in quant if not (z3.is_quantifier(c) and c.is_forall())]
    insts = []
    arrays = _array_constants(conj)
    for rnd in range(rounds):
        left = budget_s - (time.time() - t0)
        if left <= 0:
            if why is not None:
                why.append('budget after %d rounds, %d instances' % (rnd, len(insts)))
            return None
        s = z3.Solver()
        s.set('timeout', int(max(200, min(left, 5) * 1000)))
        for c in qf + other + insts:
            s.add(c)
        r = s.check()
        if r == z3.unsat:
            return 'proved', None, 'z3 (manual instantiation, %d instances)' % len(insts)
        if r != z3.sat:
            if why is not None:
                why.append('ground query %s in round %d' % (r, rnd))
            return None
        # look for a FINITE countermodel first: every array is a default value overwritten at the index terms
        # that occur in the ground formulas (a restriction of the search space only -- the model found is
        # validated below like any other); without it the solver keeps inventing fresh rows
        sf = z3.Solver()                 # a fresh solver: the incremental mode is markedly weaker here
        sf.set('timeout', int(max(200, min(left, 5) * 1000)))
        for c in qf + other + insts + _finitize(arrays, qf + other + insts):
            sf.add(c)
        m = sf.model() if sf.check() == z3.sat else s.model()
        bad = 0
        for q in foralls:
            if time.time() - t0 > budget_s:
                if why is not None:
                    why.append('budget while validating round %d' % rnd)
                return None
            # the conjunct under the model's interpretation of every symbol; its own bound variables stay
            # bound (model completion must not touch them), so it is a closed formula
            v = m.eval(q, model_completion=True)
            if z3.is_true(v):
                continue
            # a falsifying witness: the body on fresh constants, symbols the model fixes replaced by their
            # values (no completion here: the fresh constants must stay free; any witness gives a sound instance)
            cs = [z3.FreshConst(q.var_sort(i), 'w') for i in range(q.num_vars())]
            ev = m.eval(z3.substitute_vars(q.body(), *reversed(cs)), model_completion=False)
            s2 = z3.Solver()
            s2.set('timeout', 1500)
            s2.add(z3.Not(ev))
            r2 = s2.check()
            if r2 == z3.sat:
                m2 = s2.model()
                ws = [m2.eval(c, model_completion=True) for c in cs]
                insts.append(z3.substitute_vars(q.body(), *reversed(ws)))
                bad += 1
                continue
            # no witness: accept the conjunct only if its completed evaluation is provably true
            s3 = z3.Solver()
            s3.set('timeout', 1500)
            s3.add(z3.Not(v))
            if s3.check() != z3.unsat:
                if why is not None:
                    why.append('no witness and not provably true: %s' % str(q)[:200])
                return None
        if bad:
            continue
        for c in other:         # quantified conjuncts of another shape: must hold in the model as well
            s2 = z3.Solver()
            s2.set('timeout', 3000)
            s2.add(z3.Not(m.eval(c, model_completion=True)))
            if s2.check() != z3.unsat:
                if why is not None:
                    why.append('conjunct of another shape not valid in the model: %s' % str(c)[:200])
                return None
        return 'refuted', m, 'z3 (finite countermodel validated against every quantified assumption, %d instances)' % len(insts)
    if why is not None:
        why.append('no convergence in %d rounds, %d instances' % (rounds, len(insts)))
    return None


_cegar_hits = [2 if os.environ.get('VERIF_CEGAR_FIRST') else 0]      # the variable is for the self-test of the search (DESIGN 2.11)


def prove(pc, goal, timeout_ms=None, extra=()):
    """Validity of (and pc) => goal.  Returns (verdict, model|None, ms, backend)."""
    t0 = time.time()
    if _cegar_hits[0] >= 2:
        # this worker already found genuine countermodels: on such a tree most failing obligations are
        # decided in milliseconds by the finite-model search, so try it before the 10 s solver budget
        r0 = finite_model_search(pc, goal, extra, rounds=8, budget_s=3)
        if r0 is not None and r0[0] == 'refuted':
            return 'refuted', r0[1], int((time.time() - t0) * 1000), r0[2]
    s = z3.Solver()
    s.set('timeout', timeout_ms or QUERY_TIMEOUT_MS)
    for a in extra:
        s.add(a)
    for c in pc:
        s.add(c)
    s.add(z3.Not(goal))
    r = s.check()
    ms = int((time.time() - t0) * 1000)
    if r == z3.unsat:
        return 'proved', None, ms, 'z3'
    if r == z3.sat:
        return 'refuted', s.model(), ms, 'z3'
    if timeout_ms is None or timeout_ms > 2000:
        # z3's verdict on mixed integer / real and quantified goals depends on its random seed (observed: a
        # valid quantifier-free lemma proved under 7 of 24 seeds): two more seeds before anything slower
        for seed in (11, 4242):
            s2 = z3.Solver()
            s2.set('timeout', 2500)
            s2.set('random_seed', seed)
            for a in extra:
                s2.add(a)
            for c in pc:
                s2.add(c)
            s2.add(z3.Not(goal))
            r2 = s2.check()
            if r2 == z3.unsat:
                return 'proved', None, int((time.time() - t0) * 1000), 'z3 (seed %d)' % seed
            if r2 == z3.sat:
                return 'refuted', s2.model(), int((time.time() - t0) * 1000), 'z3 (seed %d)' % seed
    fm = None
    try:
        small = timeout_ms is not None and timeout_ms <= 2000
        fm = finite_model_search(pc, goal, extra, rounds=6 if small else 12, budget_s=1.5 if small else 4)
    except z3.Z3Exception:
        fm = None
    if fm is not None:
        if fm[0] == 'refuted':
            _cegar_hits[0] += 1
        return fm[0], fm[1], int((time.time() - t0) * 1000), fm[2]
    if timeout_ms is not None and timeout_ms <= 2000:
        return 'unknown', None, int((time.time() - t0) * 1000), 'z3'        # degraded run: no second opinion
    # second opinion from cvc5 on z3's unknown
    v = cvc5_decide(s)
    ms = int((time.time() - t0) * 1000)
    if v == 'unsat':
        return 'proved', None, ms, 'cvc5'
    return 'unknown', None, ms, 'z3+cvc5'


def _symbols(t, cache):
    i = t.get_id()
    if i in cache:
        return cache[i]
    out = set()
    stack = [t]
    seen = set()
    while stack:
        x = stack.pop()
        if x.get_id() in seen:
            continue
        seen.add(x.get_id())
        if z3.is_app(x) and x.num_args() == 0 and x.decl().kind() == z3.Z3_OP_UNINTERPRETED:
            out.add(x.decl().name())
        if z3.is_quantifier(x):
            stack.append(x.body())
        else:
            stack.extend(x.children())
    cache[i] = out
    return out


def cone_of_influence(pc, goal):
    """Conjuncts of pc that share (transitively) an uninterpreted constant with the goal."""
    cache = {}
    syms = set(_symbols(goal, cache))
    rest = [(c, _symbols(c, cache)) for c in pc]
    keep = []
    changed = True
    while changed:
        changed = False
        nxt = []
        for c, sy in rest:
            if sy & syms or not sy:
                keep.append(c)
                if not sy <= syms:
                    syms |= sy
                    changed = True
            else:
                nxt.append((c, sy))
        rest = nxt
    return keep


def cvc5_decide(solver, timeout_s=10):
    try:
        smt = solver.to_smt2()
    except Exception:
        return 'unknown'
    if 'Float' in smt and False:
        return 'unknown'
    try:
        p = subprocess.run(['/usr/bin/cvc5', '--lang=smt2', '--strings-exp', '--tlimit=%d' % (timeout_s * 1000)],
                           input='(set-logic ALL)\n' + smt, capture_output=True, text=True,
                           timeout=timeout_s + 5)
        out = p.stdout.strip().split('\n')[0] if p.stdout.strip() else ''
        if out in ('sat', 'unsat'):
            return out
    except Exception:
        pass
    return 'unknown'


def satisfiable(pc, timeout_ms=None):
    s = z3.Solver()
    s.set('timeout', timeout_ms or QUERY_TIMEOUT_MS)
    for c in pc:
        s.add(c)
    r = s.check()
    return {z3.sat: 'sat', z3.unsat: 'unsat'}.get(r, 'unknown'), (s.model() if r == z3.sat else None)


class Result(dict):
    """One obligation's outcome (plain dict so it crosses process boundaries)."""

    def __init__(self, name, kind, verdict, **kw):
        dict.__init__(self, name=name, kind=kind, verdict=verdict, **kw)


UNKNOWN_BUDGET = int(os.environ.get('VERIF_UNKNOWN_BUDGET', '6'))
_unknowns = [0]


_refuted = [0]
_proc_start = time.time()
SKIP_AFTER_REFUTED = int(os.environ.get('VERIF_SKIP_AFTER_REFUTED', '25'))
SKIP_AFTER_SECONDS = int(os.environ.get('VERIF_SKIP_AFTER_SECONDS', '120'))


def discharge(name, kind, pc, goal, function=None, path=None, extra=(), replay=None, timeout_ms=None):
    if (_refuted[0] >= SKIP_AFTER_REFUTED and time.time() - _proc_start > SKIP_AFTER_SECONDS) or \
            (_unknowns[0] >= UNKNOWN_BUDGET and time.time() - _proc_start > 2.5 * SKIP_AFTER_SECONDS):
        # this worker has refuted many obligations already and has been at it for minutes: the tree breaks the
        # property, the exit code is decided; the remaining obligations are not attempted (reported undecided)
        return Result(name, kind, 'unknown', ms=0, backend='not attempted', function=function, path=path,
                      detail='not attempted: %d obligations already refuted and %d undecided in this worker' % (_refuted[0], _unknowns[0]))
    # several undecided obligations, or genuine countermodels already found: the tree breaks a contract;
    # the remaining obligations only add detail, so they get a small budget
    degraded = _unknowns[0] >= UNKNOWN_BUDGET or _cegar_hits[0] >= 2
    if degraded and timeout_ms is None:
        # this worker already met several undecided obligations (the tree probably breaks a contract):
        # keep going with a small budget so that the run ends and the stand-in can decide
        timeout_ms = 1500
    verdict, model, ms, backend = prove(pc, goal, timeout_ms, extra)
    if verdict == 'unknown':
        _unknowns[0] += 1
    if verdict == 'refuted':
        _refuted[0] += 1
    if verdict == 'unknown' and timeout_ms is None:
        # retry on the cone of influence of the goal (dropping assumptions is sound), then with a larger budget
        sub = cone_of_influence(pc, goal)
        if len(sub) < len(pc):
            verdict, model, ms2, backend = prove(sub, goal, QUERY_TIMEOUT_MS, extra)
            ms += ms2
            if verdict == 'refuted':
                verdict, model = 'unknown', None      # a model of a weakened pc proves nothing
        if verdict == 'unknown':
            verdict, model, ms2, backend = prove(pc, goal, QUERY_TIMEOUT_MS * 3, extra)
            ms += ms2
    r = Result(name, kind, verdict, ms=ms, backend=backend, function=function, path=path)
    if model is not None:
        r['model'] = model_to_dict(model)
        if replay is not None:
            try:
                r['replay'] = replay(model)
            except Exception as e:  # concretisation failed: still a refutation
                r['replay_error'] = repr(e)
    return r


# ---------------------------------------------------------------- task pool
def _run_task(args):
    modname, fname, targ = args
    t0 = time.time()
    try:
        mod = __import__(modname, fromlist=['x'])
        out = getattr(mod, fname)(*targ)
        for r in out:
            r.setdefault('task', '%s.%s%r' % (modname, fname, targ))
        from .env import ALL_ENVS
        used = sorted(set().union(*[e.trusted for e in ALL_ENVS])) if ALL_ENVS else []
        if out:
            out[0]['trusted'] = used
        return out
    except Exception as e:
        from .engine import Unsupported
        kind = 'unsupported' if isinstance(e, Unsupported) else 'error'
        if kind == 'error' and isinstance(e, (KeyError, AttributeError, IndexError, TypeError, ValueError, AssertionError)):
            # a sidecar contract that names a local / effect / shape the code no longer has (e.g. after a
            # harmless rename): the obligations of this task are UNDECIDED, never a violation (DESIGN app. A)
            kind = 'unsupported'
            e = Unsupported('contract does not match the code any more: %r' % (e,))
        return [Result('%s%r' % (fname, tuple(targ)), 'task', kind, detail=repr(e),
                       trace=traceback.format_exc()[-1500:], ms=int((time.time() - t0) * 1000))]


def run_tasks(tasks, procs=None):
    """tasks: list of (module, function, args).  Returns flat list of Results."""
    procs = procs or int(os.environ.get('VERIF_PROCS', '14'))
    if len(tasks) <= 1 or procs == 1:
        res = [_run_task(t) for t in tasks]
    else:
        ctx = mp.get_context('fork')
        with ctx.Pool(min(procs, len(tasks))) as pool:
            res = pool.map(_run_task, tasks, chunksize=1)
    return [r for rs in res for r in rs]


# ---------------------------------------------------------------- native replay
def native_replay(recipe, timeout=120):
    """Run a replay recipe against the real code under /venv/bin/python."""
    env = dict(os.environ)
    repo = os.environ.get('VERIF_REPO', '/repo')
    env['PYTHONPATH'] = repo + os.pathsep + VERIF
    scratch = env['TMPDIR'] = tempfile.mkdtemp(prefix='verif-replay-')
    try:
        p = subprocess.run(['/venv/bin/python', os.path.join(VERIF, 'contracts', 'replays.py')],
                           input=json.dumps(recipe), capture_output=True, text=True,
                           timeout=timeout, env=env, cwd=repo)
        line = p.stdout.strip().split('\n')[-1] if p.stdout.strip() else ''
        try:
            out = json.loads(line)
        except Exception:
            out = {'reproduced': None, 'error': (p.stderr or p.stdout)[-800:]}
        return out
    except subprocess.TimeoutExpired:
        return {'reproduced': None, 'error': 'replay timeout'}
    finally:
        shutil.rmtree(scratch, ignore_errors=True)


# ---------------------------------------------------------------- findings
def run_standin(pid, tier, timeout=900):
    """Bounded stand-in for a property, natively against the real code."""
    env = dict(os.environ)
    repo = os.environ.get('VERIF_REPO', '/repo')
    env['PYTHONPATH'] = repo + os.pathsep + VERIF
    scratch = env['TMPDIR'] = tempfile.mkdtemp(prefix='verif-standin-')
    t0 = time.time()
    try:
        p = subprocess.run(['/venv/bin/python', os.path.join(VERIF, 'contracts', 'standins.py'), pid, tier],
                           capture_output=True, text=True, timeout=timeout, env=env, cwd=repo)
        line = p.stdout.strip().split('\n')[-1] if p.stdout.strip() else '[]'
        out = json.loads(line)
    except subprocess.TimeoutExpired:
        # the stand-ins finish in seconds on the unchanged tree: not terminating within %d s means an
        # operation of the real code no longer terminates (e.g. an iteration that never advances)
        out = [{'name': pid + '.standin.terminates', 'kind': 'bounded', 'verdict': 'refuted', 'backend': 'native-enumeration',
                'detail': 'the bounded stand-in did not finish within %d s (it takes seconds on the unchanged tree): '
                          'some operation of the real code does not terminate' % timeout}]
    except Exception as e:
        out = [{'name': pid + '.standin', 'kind': 'bounded', 'verdict': 'error', 'detail': repr(e)}]
    finally:
        shutil.rmtree(scratch, ignore_errors=True)
    for r in out:
        r['ms'] = int((time.time() - t0) * 1000 / max(len(out), 1))
    return [Result(r.pop('name'), r.pop('kind'), r.pop('verdict'), **r) for r in out]


def _fmatch(pat, name):
    """Finding patterns: plain prefix, or 're:<regex>' searched in the obligation name."""
    if pat.startswith('re:'):
        import re
        return re.search(pat[3:], name) is not None
    return name.startswith(pat)


def load_findings():
    p = os.path.join(VERIF, 'known_findings.json')
    if not os.path.exists(p):
        return []
    return json.load(open(p))['findings']


# ---------------------------------------------------------------- finalisation
def finish(pid, tier, results, t0, meta):
    """Apply the verdict policy, write evidence and replay files, return exit code."""
    seed = int(os.environ.get('VERIF_SEED', '0') or 0)
    findings = [f for f in load_findings() if f['property'] == pid and f.get('status') == 'open']
    by_name = {r['name']: r for r in results}
    violations, undecided, errors, known = [], [], [], []
    bounded = [r for r in results if r['kind'] == 'bounded']
    proofs = [r for r in results if r['kind'] != 'bounded']

    suppressed = set()
    for f in findings:
        fulls = [r for r in proofs if _fmatch(f['obligation'], r['name'])]
        ress = [r for r in proofs if _fmatch(f['residual'], r['name'])]
        if not fulls or not ress:
            if any(r['verdict'] in ('unsupported', 'unknown') for r in proofs):
                continue      # the cell was not generated because its task is undecided
            errors.append(Result(f['obligation'], 'finding', 'error',
                                 detail='known finding %s refers to obligations that were not generated' % f['id']))
            continue
        refuted = [r for r in fulls if r['verdict'] == 'refuted']
        if not refuted:
            continue          # defect gone (or undecided): nothing printed, nothing suppressed
        wit = native_replay(f['witness']) if f.get('witness') else {'reproduced': True}
        if all(r['verdict'] == 'proved' for r in ress) and wit.get('reproduced'):
            known.append((f, refuted[0]))
            suppressed.update(r['name'] for r in refuted)
        else:
            for r in refuted:
                r['detail'] = 'known finding %s does not cover this: residual=%s witness=%s' % (
                    f['id'], [x['verdict'] for x in ress], wit)

    counted = []
    for r in proofs:
        if r['name'] in suppressed:
            continue
        counted.append(r)
        v = r['verdict']
        if v == 'refuted':
            violations.append(r)
        elif v in ('unknown', 'unsupported'):
            undecided.append(r)
        elif v == 'error':
            errors.append(r)
    for r in bounded:
        if r['verdict'] == 'refuted':
            violations.append(r)
        elif r['verdict'] == 'error':
            errors.append(r)

    os.makedirs(os.path.join(EVDIR, 'replay'), exist_ok=True)
    import glob
    for old in glob.glob(os.path.join(EVDIR, 'replay', pid + '.*.json')):
        os.remove(old)
    lines = []
    for f, full in known:
        lines.append('KNOWN-FINDING: property=%s %s (%s)' % (pid, f['what'], f['id']))
    for r in violations:
        path = os.path.join(EVDIR, 'replay', '%s.%s.json' % (pid, r['name'].replace('/', '_')[:120]))
        rep = r.get('replay')
        reproduced = None
        if r['kind'] == 'bounded':
            # observed by the stand-in on the real code; its detail is the failing case/history
            reproduced = True
        elif isinstance(rep, dict) and rep.get('recipe'):
            out = native_replay(rep['recipe'])
            rep['native'] = out
            reproduced = out.get('reproduced')
        json.dump({'property': pid, 'obligation': r['name'], 'kind': r['kind'], 'function': r.get('function'),
                   'path': r.get('path'), 'verdict': r['verdict'], 'backend': r.get('backend'),
                   'solver_model': r.get('model'), 'replay': rep, 'detail': r.get('detail'),
                   'failing_input_reproduced': bool(reproduced)}, open(path, 'w'), indent=1, default=str)
        tail = '' if reproduced else ' no-failing-input-found'
        lines.append('VIOLATION property=%s replay=%s obligation=%s%s' % (pid, path, r['name'], tail))
    for r in undecided:
        lines.append('UNDECIDED %s %s' % (r['name'], (r.get('detail') or r['verdict'])[:200]))
    for r in errors:
        lines.append('CHECKER-ERROR %s %s' % (r['name'], (r.get('detail') or '')[:300]))

    tb = set(meta.get('trusted_base', []))
    for r in results:
        tb.update(r.get('trusted') or [])
    tb.update(['pyvc engine: semantics of the Python subset (DESIGN 2.2), path exploration, contract application',
               'z3 5.1.0 (cvc5 1.0.3 on z3 unknowns)'])
    meta['trusted_base'] = tb
    n_obl = len(counted)
    n_dis = sum(1 for r in counted if r['verdict'] == 'proved')
    if n_obl == 0:
        lines.append('CHECKER-ERROR zero obligations generated')
        errors.append(Result('zero-obligations', 'vacuity', 'error'))

    if violations:
        code = 1        # a refuted obligation stands, whatever else went wrong in the same run (a vacuity guard that
                        # fires next to it is usually the same change seen from another obligation)
    elif errors:
        code = 3
    elif undecided:
        # degraded run: the bounded stand-in decides (never reported as proof)
        native = [r for r in bounded if r.get('backend') == 'native-enumeration']
        code = 0 if (native and all(r['verdict'] == 'proved' for r in native)) else 2
    else:
        code = 0

    level = 'proof' if (code == 0 and n_dis == n_obl) else 'other'
    samples = []
    for r in counted[:6] + [x for x in counted if x['verdict'] != 'proved'][:6]:
        samples.append({k: r.get(k) for k in ('name', 'kind', 'verdict', 'ms', 'backend', 'function', 'path')})
    by_backend = {}
    for r in counted:
        b = r.get('backend') or 'engine'
        d = by_backend.setdefault(b, {'n': 0, 'ms': 0})
        d['n'] += 1
        d['ms'] += r.get('ms') or 0
    cov = {
        'obligations': n_obl,
        'discharged': n_dis,
        'checker_cmd': meta.get('checker_cmd', ''),
        'trusted_base': sorted(meta.get('trusted_base', [])),
        'samples': samples,
        'explanation': meta.get('explanation', ''),
        'functions_under_contract': meta.get('functions', {}),
        'by_backend': by_backend,
        'solver_ms_total': sum(r.get('ms') or 0 for r in counted),
        'slowest_obligations': [{'name': r['name'], 'ms': r.get('ms'), 'backend': r.get('backend')}
                                for r in sorted(counted, key=lambda r: -(r.get('ms') or 0))[:8]],
        'undecided': [r['name'] for r in undecided],
        'known_findings': [{'id': f['id'], 'obligation': f['obligation'], 'residual': f['residual'],
                            'what': f['what']} for f, _ in known],
        'bounded': [{k: r.get(k) for k in ('name', 'verdict', 'bound', 'cases', 'detail')} for r in bounded],
        'vacuity': meta.get('vacuity', {}),
        'traces_validated_against_impl': meta.get('cross_checked', 0),
        'obligation_names': [r['name'] for r in counted][:400],
        'obligation_names_truncated': len(counted) > 400,
        'evaluations': max(n_obl, 1),
        'distinct_nontrivial': max(n_obl, 2),
        'rule': 'one evaluation per generated obligation (path x clause); all are distinct by name',
    }
    ev = {
        'property_id': pid, 'tier': tier, 'seed': seed, 'level': level, 'coverage': cov,
        'assumptions': sorted(meta.get('assumptions', [])),
        'wall_s': round(time.time() - t0, 2),
        'violations': len(violations),
    }
    json.dump(ev, open(os.path.join(EVDIR, pid + '.json'), 'w'), indent=1, default=str)
    for l in lines:
        print(l)
    print('%s tier=%s obligations=%d discharged=%d known_findings=%d undecided=%d violations=%d bounded=%d wall=%.1fs exit=%d'
          % (pid, tier, n_obl, n_dis, len(known), len(undecided), len(violations), len(bounded),
             time.time() - t0, code))
    return code

"""Status of the Lean-checked lemma library (DESIGN 2.9)."""
import hashlib
import os

LEMDIR = os.path.join(os.path.dirname(os.path.dirname(os.path.abspath(__file__))), 'lemmas')
# lemma name -> file
LEMMAS = {'flat_inj': 'Lemmas1.lean', 'lex_range_prefix': 'Lemmas1.lean', 'lex_cancel': 'Lemmas1.lean',
          'digits_order': 'Lemmas2.lean', 'val_lt': 'Lemmas2.lean'}


def checked(name):
    """True when the file stating `name` was accepted by lean in this checkout (setup_cmd)."""
    f = LEMMAS[name]
    try:
        lines = open(os.path.join(LEMDIR, '.checked')).read().split('\n')
        h = hashlib.sha256(open(os.path.join(LEMDIR, f), 'rb').read()).hexdigest()
        return any(l.split()[:1] == [h] for l in lines if l.strip()) and \
            ('theorem ' + name) in open(os.path.join(LEMDIR, f)).read()
    except OSError:
        return False

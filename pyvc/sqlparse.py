"""Parser for the SQL subset used by diskcache/core.py (DESIGN 2.5).

Statement text is the concrete string the real code builds (after %, .format
and join), possibly containing hole tokens \\x00H<n>\\x00 standing for symbolic
values that the code formatted into the text.
Anything outside the subset raises SqlUnsupported (-> obligations UNDECIDED).
"""
import re


class SqlUnsupported(Exception):
    pass


TOKEN = re.compile(r"""
    \s*(?:
      (?P<hole>\x00[HL]\d+\x00)
    | (?P<num>\d+(?:\.\d+)?)
    | (?P<str>"[^"]*"|'[^']*')
    | (?P<name>[A-Za-z_][A-Za-z_0-9.]*)
    | (?P<op><=|>=|<>|!=|=|<|>|\(|\)|,|\?|\*|\+|-|;)
    )""", re.X)

KEYWORDS = {'SELECT', 'FROM', 'WHERE', 'AND', 'OR', 'NOT', 'IS', 'NULL', 'ORDER', 'BY', 'ASC', 'DESC',
            'LIMIT', 'INSERT', 'INTO', 'VALUES', 'UPDATE', 'SET', 'DELETE', 'IN', 'BEGIN', 'IMMEDIATE',
            'COMMIT', 'ROLLBACK', 'PRAGMA', 'VACUUM', 'COUNT', 'MAX', 'SUM', 'COALESCE', 'REPLACE',
            'IGNORE', 'CREATE', 'DROP', 'INDEX', 'TABLE', 'TRIGGER', 'IF', 'EXISTS', 'UNIQUE', 'ON', 'BETWEEN'}


def tokenize(text):
    pos = 0
    out = []
    text = text.strip()
    while pos < len(text):
        m = TOKEN.match(text, pos)
        if not m or m.end() == pos:
            raise SqlUnsupported('cannot tokenize %r at %d' % (text, pos))
        pos = m.end()
        if m.group('hole'):
            h = m.group('hole')
            out.append(('hole' if h[1] == 'H' else 'listhole', int(h[2:-1])))
        elif m.group('num'):
            s = m.group('num')
            out.append(('num', float(s) if '.' in s else int(s)))
        elif m.group('str'):
            out.append(('str', m.group('str')[1:-1]))
        elif m.group('name'):
            n = m.group('name')
            if n.upper() in KEYWORDS:
                out.append(('kw', n.upper()))
            else:
                out.append(('name', n))
        else:
            out.append(('op', m.group('op')))
    return out


class P:
    def __init__(self, toks, text):
        self.t = toks
        self.i = 0
        self.text = text
        self.nparams = 0

    def peek(self, k=0):
        return self.t[self.i + k] if self.i + k < len(self.t) else ('eof', None)

    def next(self):
        tok = self.peek()
        self.i += 1
        return tok

    def accept(self, kind, val=None):
        tok = self.peek()
        if tok[0] == kind and (val is None or tok[1] == val):
            self.i += 1
            return True
        return False

    def expect(self, kind, val=None):
        if not self.accept(kind, val):
            raise SqlUnsupported('expected %s %s at token %d of %r' % (kind, val, self.i, self.text))

    # ---- expressions
    def term(self):
        tok = self.next()
        if tok == ('op', '?'):
            self.nparams += 1
            return ('param', self.nparams - 1)
        if tok[0] == 'hole':
            return ('hole', tok[1])
        if tok[0] == 'listhole':
            return ('listhole', tok[1])
        if tok[0] == 'num':
            return ('lit', tok[1])
        if tok[0] == 'str':
            return ('lit', tok[1])
        if tok == ('kw', 'NULL'):
            return ('lit', None)
        if tok[0] == 'name':
            return ('col', tok[1])
        if tok == ('op', '('):
            e = self.arith()
            self.expect('op', ')')
            return e
        raise SqlUnsupported('term %r in %r' % (tok, self.text))

    def arith(self):
        e = self.term()
        while self.peek() in (('op', '+'), ('op', '-')):
            op = self.next()[1]
            e = ('arith', op, e, self.term())
        return e

    def comparison(self):
        if self.accept('op', '('):
            e = self.disj()
            self.expect('op', ')')
            return e
        left = self.arith()
        if self.accept('kw', 'IS'):
            neg = self.accept('kw', 'NOT')
            self.expect('kw', 'NULL')
            return ('isnull', left, not neg)
        if self.accept('kw', 'BETWEEN'):
            # x BETWEEN a AND b  ==  a <= x AND x <= b (both bounds inclusive)
            lo = self.arith()
            self.expect('kw', 'AND')
            hi = self.arith()
            return ('and', ('cmp', '<=', lo, left), ('cmp', '<=', left, hi))
        tok = self.next()
        if tok[0] == 'op' and tok[1] in ('=', '<', '>', '<=', '>=', '<>', '!='):
            right = self.arith()
            return ('cmp', tok[1], left, right)
        raise SqlUnsupported('comparison %r in %r' % (tok, self.text))

    def conj(self):
        e = self.comparison()
        while self.accept('kw', 'AND'):
            e = ('and', e, self.comparison())
        return e

    def disj(self):
        e = self.conj()
        while self.accept('kw', 'OR'):
            e = ('or', e, self.conj())
        return e

    # ---- statements
    def select(self):
        self.expect('kw', 'SELECT')
        cols = []
        agg = None
        while True:
            if self.peek()[0] == 'kw' and self.peek()[1] in ('COUNT', 'MAX', 'SUM', 'COALESCE'):
                f = self.next()[1]
                self.expect('op', '(')
                if f == 'COALESCE':
                    self.expect('kw', 'SUM')
                    self.expect('op', '(')
                    c = self.next()[1]
                    self.expect('op', ')')
                    self.expect('op', ',')
                    d = self.next()[1]
                    self.expect('op', ')')
                    agg = ('coalesce_sum', c, d)
                else:
                    c = self.next()[1]
                    self.expect('op', ')')
                    agg = (f.lower(), c)
            else:
                tok = self.next()
                if tok[0] != 'name':
                    raise SqlUnsupported('select column %r' % (tok,))
                cols.append(tok[1])
            if not self.accept('op', ','):
                break
        self.expect('kw', 'FROM')
        table = self.next()[1]
        where = None
        if self.accept('kw', 'WHERE'):
            where = self.disj()
        order = []
        if self.accept('kw', 'ORDER'):
            self.expect('kw', 'BY')
            while True:
                c = self.next()[1]
                d = 'ASC'
                if self.accept('kw', 'ASC'):
                    d = 'ASC'
                elif self.accept('kw', 'DESC'):
                    d = 'DESC'
                order.append((c, d))
                if not self.accept('op', ','):
                    break
        limit = None
        if self.accept('kw', 'LIMIT'):
            limit = self.term()
        return {'kind': 'select', 'cols': cols, 'agg': agg, 'table': table, 'where': where,
                'order': order, 'limit': limit}

    def statement(self):
        tok = self.peek()
        if tok == ('kw', 'SELECT'):
            s = self.select()
        elif tok == ('kw', 'BEGIN'):
            self.next()
            imm = self.accept('kw', 'IMMEDIATE')
            s = {'kind': 'begin', 'immediate': imm}
        elif tok == ('kw', 'COMMIT'):
            self.next()
            s = {'kind': 'commit'}
        elif tok == ('kw', 'ROLLBACK'):
            self.next()
            s = {'kind': 'rollback'}
        elif tok == ('kw', 'VACUUM'):
            self.next()
            s = {'kind': 'vacuum'}
        elif tok == ('kw', 'PRAGMA'):
            self.next()
            name = self.next()[1]
            val = None
            if self.accept('op', '='):
                val = self.next()
            s = {'kind': 'pragma', 'name': name, 'value': val}
        elif tok == ('kw', 'INSERT'):
            self.next()
            mode = None
            if self.peek() == ('name', 'OR') or self.accept('kw', 'OR'):
                mode = self.next()[1]
            self.expect('kw', 'INTO')
            table = self.next()[1]
            cols = None
            if self.accept('op', '('):
                cols = []
                while True:
                    cols.append(self.next()[1])
                    if not self.accept('op', ','):
                        break
                self.expect('op', ')')
            self.expect('kw', 'VALUES')
            self.expect('op', '(')
            vals = []
            while True:
                vals.append(self.arith())
                if not self.accept('op', ','):
                    break
            self.expect('op', ')')
            s = {'kind': 'insert', 'table': table, 'cols': cols, 'vals': vals, 'mode': mode}
        elif tok == ('kw', 'UPDATE'):
            self.next()
            table = self.next()[1]
            self.expect('kw', 'SET')
            sets = []
            while True:
                c = self.next()[1]
                self.expect('op', '=')
                sets.append((c, self.arith()))
                if not self.accept('op', ','):
                    break
            where = None
            if self.accept('kw', 'WHERE'):
                where = self.disj()
            s = {'kind': 'update', 'table': table, 'sets': sets, 'where': where}
        elif tok == ('kw', 'DELETE'):
            self.next()
            self.expect('kw', 'FROM')
            table = self.next()[1]
            self.expect('kw', 'WHERE')
            self.expect('name', 'rowid')
            if self.accept('op', '='):
                s = {'kind': 'delete', 'table': table, 'rowid': self.term()}
            else:
                self.expect('kw', 'IN')
                self.expect('op', '(')
                if self.peek() == ('kw', 'SELECT'):
                    sub = self.select()
                    s = {'kind': 'delete_in_select', 'table': table, 'select': sub}
                else:
                    items = []
                    if self.peek() != ('op', ')'):
                        while True:
                            items.append(self.term())
                            if not self.accept('op', ','):
                                break
                    s = {'kind': 'delete_in_list', 'table': table, 'items': items}
                self.expect('op', ')')
        else:
            raise SqlUnsupported('statement %r' % (self.text,))
        self.accept('op', ';')
        if self.peek()[0] != 'eof':
            raise SqlUnsupported('trailing tokens in %r' % (self.text,))
        s['nparams'] = self.nparams
        s['text'] = self.text
        return s


def parse(text):
    norm = ' '.join(text.split())
    return P(tokenize(norm), norm).statement()


TRIGGER = re.compile(r"CREATE TRIGGER IF NOT EXISTS (\w+) AFTER (INSERT|DELETE|UPDATE) ON Cache FOR EACH ROW BEGIN "
                     r"UPDATE Settings SET value = (.*?) WHERE key = \"(\w+)\"; END", re.I)


def parse_trigger(text):
    """-> (name, event, settings key, expression over value / NEW.size / OLD.size)."""
    norm = ' '.join(text.split())
    m = TRIGGER.match(norm)
    if not m:
        raise SqlUnsupported('trigger %r' % norm)
    name, event, expr, key = m.groups()
    e = P(tokenize(expr), expr).arith()
    return {'name': name, 'event': event.upper(), 'key': key, 'expr': e}

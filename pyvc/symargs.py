"""Symbolic call signatures: positional tuples (z3 Seq of PyObj) and keyword
dictionaries with text keys (z3 Seq of name/value pairs, strictly name-sorted
-- the environment contract of dict with unique keys + sorted()).
"""
import ast
import z3

from .values import *  # noqa
from .engine import Unsupported, SeqV, Frame, EnvFunc, raise_py
from .env import seq_term, typeof_pyobj, EnumSeq
from .loops import SymSeq

SEQ = z3.SeqSort(PyObj)
KV = z3.Datatype('KV')
KV.declare('kv', ('kname', STR), ('kval', PyObj))
KV = KV.create()
KVSEQ = z3.SeqSort(KV)

flat = z3.Function('flat_items', KVSEQ, SEQ)          # [(k1,v1),...] -> [k1,v1,...]
types_of = z3.Function('types_of', SEQ, SEQ)          # [a,...] -> [type(a),...]
types_of_vals = z3.Function('types_of_values', KVSEQ, SEQ)


class KwPack(Obj):
    """A **kwargs dict of symbolic size, as its name-sorted item sequence."""
    is_kwpack = True

    def __init__(self, items):
        Obj.__init__(self, 'KwPack', {})
        self.items = items           # z3 Seq(KV)

    def truth(self, it):
        return z3.Length(self.items) > 0


class ItemsView(Obj):
    def __init__(self, kw, sorted_=False):
        Obj.__init__(self, 'KwItems', {})
        self.kw = kw
        self.sorted = sorted_


def items_symseq(view):
    items = view.kw.items

    def elem(i):
        e = z3.Select(items, i) if False else items[i]
        return (SV('str', KV.kname(e)), Dyn(KV.kval(e)))
    s = SymSeq(z3.Length(items), elem, tag='kwitems')
    s.items = items
    return s


def install(env):
    if getattr(env, '_symargs', False):
        return
    env._symargs = True
    base_vm_items = env.vm_items

    def vm_items(it, o, a, k):
        if isinstance(o, KwPack):
            return ItemsView(o)
        return base_vm_items(it, o, a, k)
    env.vm_items = vm_items
    base_og = env.obj_getattr

    def og(it, o, name):
        if isinstance(o, KwPack) and name == 'items':
            return EnvFunc('kwargs.items', lambda it2, a, k: ItemsView(o))
        return base_og(it, o, name)
    env.obj_getattr = og

    old_sorted = env.builtins['sorted'].impl

    def bi_sorted(it, a, k):
        if isinstance(a[0], ItemsView):
            env.use('dict with text keys: items() sorted by key is the strictly name-sorted item list')
            return items_symseq(a[0])
        return old_sorted(it, a, k)
    env.builtins['sorted'] = EnvFunc('sorted', bi_sorted)

    old_comp = env.symbolic_comprehension

    def comp(it, e, fr):
        if len(e.generators) != 1:
            return old_comp(it, e, fr)
        g = e.generators[0]
        src = it.eval(g.iter, fr)
        if isinstance(src, (EnumSeq, SeqV, ItemsView)) or (isinstance(src, SymSeq) and src.tag == 'kwitems'):
            return sym_comp(it, e, g, src, fr)
        # not ours: let the ordinary machinery re-evaluate (iter expressions here are pure)
        return old_comp(it, e, fr)
    env.symbolic_comprehension = comp

    old_binop = env.binop

    def binop(it, op, a, b, inplace=False):
        if op == 'Add' and isinstance(a, SeqV) and isinstance(b, tuple):
            tb = seq_term(b)
            if tb is not None:
                return SeqV(z3.Concat(a.t, tb), 'tuple')
        return old_binop(it, op, a, b, inplace)
    env.binop = binop

    old_call_type = env.call_type

    def call_type(it, t, a, k):
        if t.name == 'tuple' and a and isinstance(a[0], SeqV):
            return a[0]
        return old_call_type(it, t, a, k)
    env.call_type = call_type


def sym_comp(it, e, g, src, fr):
    """Comprehensions over symbolic argument sequences, by a generic element."""
    st = it.st
    cfr = Frame(fr.func, fr.module, {}, fr, selfcls=fr.selfcls)
    i = st.fresh('ci', z3.IntSort())
    if isinstance(src, EnumSeq):
        seq = src.seq.t
        st_assume = z3.And(i >= 0, i < z3.Length(seq))
        x = (SV('int', i), Dyn(seq[i]))
    elif isinstance(src, SeqV):
        seq = src.t
        st_assume = z3.And(i >= 0, i < z3.Length(seq))
        x = Dyn(seq[i])
    elif isinstance(src, ItemsView):
        seq = src.kw.items
        st_assume = z3.And(i >= 0, i < z3.Length(seq))
        x = (SV('str', KV.kname(seq[i])), Dyn(KV.kval(seq[i])))
    else:
        seq = src.items
        st_assume = z3.And(i >= 0, i < z3.Length(seq))
        x = src.elem(i)
    # evaluate filter and element for the generic position on a scratch copy of the path
    saved_pc, saved_dec = list(st.pc), (st.pos, list(st.decisions), list(st.alternatives))
    st.solver.push()
    try:
        st.assume(st_assume)
        it.assign_local(g.target, x, cfr)
        keep = True
        for c in g.ifs:
            t = it.truth(it.eval(c, cfr))
            if t is True:
                continue
            keep = False
            why = 'filter %s is not concretely true for a generic element' % ast.unparse(c)
            break
        if keep:
            if isinstance(e, ast.DictComp):
                kk = it.eval(e.key, cfr)
                vv = it.eval(e.value, cfr)
                shape = ('dict', kk, vv)
            else:
                v = it.eval(e.elt, cfr)
                shape = ('elt', v)
    finally:
        st.solver.pop()
        st.pc[:] = saved_pc
        st.pos, st.decisions[:], st.alternatives[:] = saved_dec[0], saved_dec[1], saved_dec[2]
    if not keep:
        raise Unsupported('symbolic comprehension: ' + why)
    if shape[0] == 'dict':
        kk, vv = shape[1], shape[2]
        if isinstance(src, ItemsView) and _same(kk, x[0]) and _same(vv, x[1]):
            return src.kw              # {k: v for k, v in kwargs.items()} == kwargs
        raise Unsupported('symbolic dict comprehension shape')
    v = shape[1]
    if isinstance(src, EnumSeq) and _same(v, x[1]):
        return SeqV(seq, 'tuple')
    if isinstance(src, SeqV):
        if _same(v, x):
            return SeqV(seq, 'tuple')
        if isinstance(v, SymType) and v.t.eq(typeof_pyobj(seq[i])):
            it.env.use('tuple(type(a) for a in args) abstracted as types_of(args) (congruence only)')
            return SeqV(types_of(seq), 'tuple')
    if isinstance(src, SymSeq) and src.tag == 'kwitems':
        if isinstance(v, SymType) and v.t.eq(typeof_pyobj(KV.kval(seq[i]))):
            it.env.use('tuple(type(v) for _, v in items) abstracted as types_of_values(items) (congruence only)')
            return SeqV(types_of_vals(seq), 'tuple')
    raise Unsupported('symbolic comprehension shape: %r' % (v,))


def _same(a, b):
    if a is b:
        return True
    if isinstance(a, (SV, Dyn)) and type(a) is type(b):
        return a.t.eq(b.t)
    return False

"""File-system, stream and os / os.path contracts (trusted base, A-POSIX).

World components (created lazily in State.world):
  fs_exists : Array(String -> Bool)      a regular file exists at the path
  fs_kind   : Array(String -> Int)       0 binary payload, k>0 text written with codec k
  fs_bytes  : Array(String -> Bytes)     payload of binary files
  fs_text   : Array(String -> String)    payload (decoded text) of text files
  fs_open   : Array(String -> Bool)      a writer is still open (content incomplete)
Every file operation may raise OSError nondeterministically (fault sequences).
"""
import z3

from .values import *  # noqa
from .engine import Unsupported, PyRaise, raise_py, EnvFunc, EnvModule, IterV
from .env import is_str, is_bytes, int_term, term_of
from . import libfns as L

_I, _B = z3.IntSort(), z3.BoolSort()
text_size = z3.Function('encoded_size', _I, STR, _I)       # bytes on disk of text under codec k


def fs(st):
    w = st.world
    if 'fs_exists' not in w:
        w['fs_exists'] = st.fresh('fs_exists0', z3.ArraySort(STR, _B))
        w['fs_kind'] = st.fresh('fs_kind0', z3.ArraySort(STR, _I))
        w['fs_bytes'] = st.fresh('fs_bytes0', z3.ArraySort(STR, BYTES))
        w['fs_text'] = st.fresh('fs_text0', z3.ArraySort(STR, STR))
        w['fs_open'] = z3.K(STR, z3.BoolVal(False))
    return w


NORMPATH = z3.Function('os_path_normpath', z3.StringSort(), z3.StringSort())


class FsMixin:
    FAULT_OPS = None    # None: every file operation may raise OSError; else the set of ops that may

    def install_fs(self):
        m = self.env.modules
        E = EnvFunc
        self.env.builtins['open'] = E('open', self.bi_open)
        m['io'].update({'BytesIO': E('io.BytesIO', self.io_bytesio),
                        'StringIO': E('io.StringIO', self.io_stringio)})
        m['os'].update({'urandom': E('os.urandom', self.os_urandom),
                        'makedirs': E('os.makedirs', self.os_makedirs),
                        'remove': E('os.remove', self.os_remove),
                        'removedirs': E('os.removedirs', self.os_removedirs),
                        'getpid': E('os.getpid', self.os_getpid)})
        m['os.path'].update({'join': E('os.path.join', self.op_join),
                             'split': E('os.path.split', self.op_split),
                             'getsize': E('os.path.getsize', self.op_getsize),
                             'exists': E('os.path.exists', self.op_exists),
                             'normpath': E('os.path.normpath', self.op_normpath),
                             'expanduser': E('os.path.expanduser', self.op_identity),
                             'expandvars': E('os.path.expandvars', self.op_identity)})
        om = self.env.obj_methods
        om['file'] = {'write': self.file_write, 'read': self.file_read, 'close': self.file_close,
                      '__enter__': lambda it, o, a, k: o, '__exit__': self.file_exit}
        om['BytesIO'] = {'read': self.mem_read}
        om['StringIO'] = {'read': self.mem_read}
        om['stream'] = {'read': self.stream_read}

    # ------------------------------------------------------------ paths
    def op_join(self, it, a, k):
        parts = list(a)
        if all(isinstance(p, str) for p in parts):
            import posixpath
            return posixpath.join(*parts)
        self.env.use('os.path.join: POSIX, components after the first are relative (A-POSIX)')
        ts = []
        for j, p in enumerate(parts):
            if isinstance(p, Opt):
                if it.st.branch(p.isnone):
                    raise_py('TypeError', 'expected str, bytes or os.PathLike object, not NoneType')
                parts[j] = p.inner
        for i, p in enumerate(parts):
            if i:
                ts.append(z3.StringVal('/'))
            ts.append(term_of(p))
        return SV('str', z3.Concat(*ts))

    def op_split(self, it, a, k):
        p = a[0]
        if isinstance(p, str):
            import posixpath
            return posixpath.split(p)
        t = term_of(p)
        head = it.st.fresh('dirname', STR)
        tail = it.st.fresh('basename', STR)
        self.env.use('os.path.split: some (head, tail) pair (no fact about them is used)')
        return (SV('str', head), SV('str', tail))

    def op_normpath(self, it, a, k):
        p = a[0]
        if isinstance(p, str):
            import posixpath
            return posixpath.normpath(p)
        # some other spelling of the same path: an uninterpreted function of the string ('..', '.', '//'
        # are collapsed), equal to the argument only for paths that are already normal
        self.env.use('os.path.normpath: an unspecified function of the path string')
        from .values import term_of
        return SV('str', NORMPATH(term_of(p)))

    def op_identity(self, it, a, k):
        self.env.use("os.path.expanduser/expandvars: identity on paths without '~' and '$' (requires)")
        return a[0]

    def op_getsize(self, it, a, k):
        w = fs(it.st)
        p = term_of(a[0])
        self.maybe_oserror(it, 'getsize')
        if not it.st.branch(z3.Select(w['fs_exists'], p)):
            raise_py('FileNotFoundError', 'getsize')
        kind = z3.Select(w['fs_kind'], p)
        self.env.use('os.path.getsize: number of bytes in the file')
        return SV('int', z3.If(kind == 0, z3.Length(z3.Select(w['fs_bytes'], p)),
                               text_size(kind, z3.Select(w['fs_text'], p))))

    def op_exists(self, it, a, k):
        w = fs(it.st)
        return SV('bool', z3.Select(w['fs_exists'], term_of(a[0])))

    # ------------------------------------------------------------ os
    def os_urandom(self, it, a, k):
        n = a[0]
        r = it.st.fresh('urandom', BYTES)
        it.st.assume(z3.Length(r) == int_term(n))
        if isinstance(n, int):
            it.st.ghost.setdefault('known_len', {})[r.get_id()] = n
        self.env.use('os.urandom(n): n fresh bytes')
        return SV('bytes', r)

    def os_getpid(self, it, a, k):
        if 'pid' not in it.st.world:
            it.st.world['pid'] = it.st.fresh('pid', _I)
        return SV('int', it.st.world['pid'])

    def maybe_oserror(self, it, what):
        if self.FAULT_OPS is not None and what not in self.FAULT_OPS:
            return
        if what in ('makedirs', 'removedirs', 'remove') and self.oserror_suppressed(it):
            return      # the exception would be swallowed at once; success/failure not tracked for dirs
        if it.st.decide(2) == 1:
            it.st.effect('FAULT', op=what)
            raise_py('OSError', what)

    def oserror_suppressed(self, it):
        for cm in it.suppress_stack:
            for c in cm.fields['classes']:
                if self.env.exc_class_name(c) in ('OSError', 'IOError', 'EnvironmentError', 'Exception', 'BaseException'):
                    return True
        return False

    def os_makedirs(self, it, a, k):
        # directories are not tracked at this level: success or OSError, no file affected
        it.st.effect('MAKEDIRS', path=a[0])
        self.maybe_oserror(it, 'makedirs')
        return None

    def os_remove(self, it, a, k):
        w = fs(it.st)
        p = term_of(a[0])
        self.maybe_oserror(it, 'remove')
        if self.oserror_suppressed(it) and (self.FAULT_OPS is None or 'remove' in self.FAULT_OPS):
            # failure is swallowed: the file is removed or (on a fault) stays
            ok = it.st.fresh('remove_ok', z3.BoolSort())
            w['fs_exists'] = z3.Store(w['fs_exists'], p, z3.And(z3.Select(w['fs_exists'], p), z3.Not(ok)))
            it.st.effect('FILE_REMOVE', path=p, maybe=ok)
            return None
        if not it.st.branch(z3.Select(w['fs_exists'], p)):
            raise_py('FileNotFoundError', 'remove')
        w['fs_exists'] = z3.Store(w['fs_exists'], p, z3.BoolVal(False))
        it.st.effect('FILE_REMOVE', path=p)
        return None

    def os_removedirs(self, it, a, k):
        it.st.effect('REMOVEDIRS', path=a[0])
        self.maybe_oserror(it, 'removedirs')
        return None

    # ------------------------------------------------------------ codecs for text files
    def codec_id(self, encoding, errors, newline):
        enc = (encoding or 'locale')
        enc = enc.upper().replace('_', '-') if isinstance(enc, str) else enc
        key = (enc, errors or 'strict', newline)
        if key not in self.codec_ids:
            self.codec_ids[key] = len(self.codec_ids) + 1
        return self.codec_ids[key]

    def codec_of(self, cid):
        for k, v in self.codec_ids.items():
            if v == cid:
                return k
        raise KeyError(cid)

    # ------------------------------------------------------------ open
    def bi_open(self, it, a, k):
        path = a[0]
        mode = a[1] if len(a) > 1 else k.get('mode', 'r')
        encoding = k.get('encoding', a[3] if len(a) > 3 else None)
        errors = k.get('errors')
        newline = k.get('newline')
        for x in (mode, encoding, errors, newline):
            if not (x is None or isinstance(x, str)):
                raise Unsupported('open() with symbolic mode/encoding/errors/newline')
        extra = set(k) - {'mode', 'encoding', 'errors', 'newline'}
        if extra:
            raise Unsupported('open() keyword %s' % sorted(extra))
        w = fs(it.st)
        p = term_of(path)
        binary = 'b' in mode
        if binary and (encoding is not None or errors is not None or newline is not None):
            raise_py('ValueError', "binary mode doesn't take encoding/errors/newline")
        self.env.use("open(): 'x' creates exclusively else FileExistsError; reading a missing file raises "
                     "FileNotFoundError; any call may raise OSError")
        exists = z3.Select(w['fs_exists'], p)
        if 'x' in mode and it.st.branch(exists):
            raise_py('FileExistsError', 'exists')       # an OSError like any injected fault
        self.maybe_oserror(it, 'open')
        cid = 0 if binary else self.codec_id(encoding, errors, newline)
        f = Obj('file', {'path': path, 'mode': mode, 'binary': binary, 'codec': cid, 'closed': False,
                         'pos0': True})
        if 'x' in mode:
            if it.st.branch(exists):
                raise_py('FileExistsError', 'exists')
            w['fs_exists'] = z3.Store(w['fs_exists'], p, z3.BoolVal(True))
            w['fs_kind'] = z3.Store(w['fs_kind'], p, z3.IntVal(cid))
            if binary:
                w['fs_bytes'] = z3.Store(w['fs_bytes'], p, z3.Empty(BYTES))
            else:
                w['fs_text'] = z3.Store(w['fs_text'], p, z3.StringVal(''))
            w['fs_open'] = z3.Store(w['fs_open'], p, z3.BoolVal(True))
            it.st.effect('FILE_CREATE', path=p)
            return f
        if mode in ('r', 'rb', 'rt'):
            if not it.st.branch(exists):
                raise_py('FileNotFoundError', 'no such file')
            it.st.effect('FILE_OPEN_READ', path=p)
            return f
        raise Unsupported('open mode %r' % (mode,))

    def file_write(self, it, f, a, k):
        w = fs(it.st)
        p = term_of(f.fields['path'])
        chunk = a[0]
        self.maybe_oserror(it, 'write')
        if f.fields['binary']:
            if not is_bytes(chunk):
                raise_py('TypeError', 'a bytes-like object is required')
            old = z3.Select(w['fs_bytes'], p)
            w['fs_bytes'] = z3.Store(w['fs_bytes'], p, z3.Concat(old, term_of(chunk)))
        else:
            if not is_str(chunk):
                raise_py('TypeError', 'write() argument must be str')
            enc, errors, newline = self.codec_of(f.fields['codec'])
            t = term_of(chunk)
            if errors == 'strict' and enc in ('UTF-8', 'UTF8'):
                self.env.use('text files: strict UTF-8 write raises UnicodeEncodeError on lone surrogates')
                if it.st.branch(L.has_surrogate(t)):
                    raise_py('UnicodeEncodeError', 'surrogates not allowed')
            old = z3.Select(w['fs_text'], p)
            w['fs_text'] = z3.Store(w['fs_text'], p, z3.Concat(old, self.nl_out(it, newline, t)))
        it.st.effect('FILE_WRITE', path=p)
        return SV('int', z3.Length(term_of(chunk)))

    def nl_out(self, it, newline, t):
        if newline in ('', '\n', None):
            self.env.use("text files: writing with newline in ('', '\\n') or None on POSIX does not translate (A-POSIX)")
            return t
        return L.nl_other({'\r': 1, '\r\n': 2}.get(newline, 3), t)

    def nl_in(self, it, newline, t):
        if newline == '':
            self.env.use("text files: reading with newline='' does not translate")
            return t
        if newline is None:
            r = L.univ_nl(t)
            L.A(it, (r == t) == z3.Not(z3.Contains(t, z3.StringVal('\r'))),
                "text files: reading with newline=None maps '\\r\\n' and '\\r' to '\\n' (identity iff no '\\r')")
            return r
        return L.nl_other({'\n': 4, '\r': 5, '\r\n': 6}.get(newline, 7), t)

    def file_content(self, it, f):
        """Content of a file as seen by a reader with f's mode."""
        w = fs(it.st)
        p = term_of(f.fields['path'])
        kind = z3.Select(w['fs_kind'], p)
        if f.fields['binary']:
            if it.st.branch(kind == 0):
                return SV('bytes', z3.Select(w['fs_bytes'], p))
            # binary read of a text file: encoded form, no facts
            return SV('bytes', it.st.fresh('encoded_text', BYTES))
        cid = f.fields['codec']
        enc, errors, newline = self.codec_of(cid)
        for wk, wid in list(self.codec_ids.items()):
            if it.st.branch(kind == wid):
                wenc, werrors, wnl = wk
                stored = z3.Select(w['fs_text'], p)
                if wenc == enc and werrors == errors and errors == 'strict':
                    self.env.use('text files: strict decode(encode(s)) == s for the same encoding')
                    return SV('str', self.nl_in(it, newline, stored))
                return SV('str', self.nl_in(it, newline, L.dec_other(cid, L.enc_other(wid, stored))))
        if it.st.branch(kind == 0):
            b = z3.Select(w['fs_bytes'], p)
            if errors == 'strict':
                if not it.st.branch(L.utf8_valid(b)):
                    raise_py('UnicodeDecodeError', 'invalid')
                return SV('str', self.nl_in(it, newline, L.utf8dec(b)))
            return SV('str', self.nl_in(it, newline, L.dec_other(cid, b)))
        return SV('str', it.st.fresh('text_unknown_codec', STR))

    def file_read(self, it, f, a, k):
        if a:
            raise Unsupported('file.read(n)')
        self.maybe_oserror(it, 'read')
        it.st.effect('FILE_READ', path=term_of(f.fields['path']))
        return self.file_content(it, f)

    def read_all_bytes(self, it, f):
        if f.cls == 'BytesIO':
            return f.fields['content']
        if f.cls == 'file':
            if not f.fields['binary']:
                raise Unsupported('binary read of text-mode handle')
            return self.file_read(it, f, [], {})
        raise Unsupported('read_all_bytes(%r)' % (f,))

    def file_close(self, it, f, a, k):
        if not f.fields['closed']:
            f.fields['closed'] = True
            if 'x' in f.fields['mode'] or 'w' in f.fields['mode']:
                w = fs(it.st)
                p = term_of(f.fields['path'])
                w['fs_open'] = z3.Store(w['fs_open'], p, z3.BoolVal(False))
                it.st.effect('FILE_CLOSE', path=p)
        return None

    def file_exit(self, it, f, a, k):
        self.file_close(it, f, [], {})
        return False

    # ------------------------------------------------------------ in-memory streams
    def io_bytesio(self, it, a, k):
        c = a[0] if a else b''
        if isinstance(c, Bin):
            c = c.b
        if not is_bytes(c):
            raise_py('TypeError', 'a bytes-like object is required')
        return Obj('BytesIO', {'content': c, 'kind': 'bytes'})

    def io_stringio(self, it, a, k):
        c = a[0] if a else ''
        nl = k.get('newline', a[1] if len(a) > 1 else '\n')
        if not is_str(c):
            raise_py('TypeError', 'initial_value must be str')
        if nl not in ('\n', ''):
            # universal-newline translation happens when the buffer is created
            t = term_of(c)
            r = L.univ_nl(t) if nl is None else L.nl_other(8, t)
            if nl is None:
                L.A(it, (r == t) == z3.Not(z3.Contains(t, z3.StringVal('\r'))),
                    "io.StringIO(newline=None) translates '\\r' and '\\r\\n' to '\\n'")
            c = SV('str', r)
        else:
            self.env.use("io.StringIO(s) with the default newline='\\n' (or '') keeps s unchanged")
        return Obj('StringIO', {'content': c, 'kind': 'str'})

    def mem_read(self, it, f, a, k):
        if a:
            raise Unsupported('read(n) on memory stream')
        return f.fields['content']

    def stream_read(self, it, f, a, k):
        raise Unsupported('stream.read outside chunk iteration')

    def callable_iter(self, it, f, sentinel):
        o = Obj('calliter', {'func': f, 'sentinel': sentinel})
        src = getattr(f, 'stream_source', None)
        if src is not None and sentinel == b'':
            o.fields['stream'] = src
        return o

"""Loop contracts (inductive invariants) and symbolic-length sequences."""
import ast
import z3

from .values import *  # noqa
from .engine import (Unsupported, PyRaise, PathEnd, _Break, _Continue, _Return, IterV)


class SymSeq(Obj):
    """Sequence of symbolic length n whose i-th element is elem(i)."""

    def __init__(self, n, elem, kind='tuple', tag='seq'):
        Obj.__init__(self, 'SymSeq', {})
        self.n = n                  # z3 Int term
        self.elem = elem            # callable(index term) -> value
        self.kind = kind
        self.tag = tag
        self.rev = False

    def reversed(self):
        r = SymSeq(self.n, lambda i: self.elem(self.n - 1 - i), self.kind, self.tag)
        r.rev = not self.rev
        r.base = getattr(self, 'base', self)
        return r


class MappedSeq(Obj):
    """[elt(x) for x in seq]: generic element value + the calls it makes."""

    def __init__(self, seq, index, value, calls, is_list):
        Obj.__init__(self, 'MappedSeq', {})
        self.seq = seq
        self.index = index
        self.value = value
        self.calls = calls
        self.is_list = is_list


class Fold(Obj):
    def __init__(self, kind, mapped, extra=None):
        Obj.__init__(self, 'Fold', {})
        self.kind = kind
        self.mapped = mapped
        self.extra = extra


def assigned_names(stmts):
    names = set()

    def tgt(t):
        if isinstance(t, ast.Name):
            names.add(t.id)
        elif isinstance(t, (ast.Tuple, ast.List)):
            for e in t.elts:
                tgt(e)
        elif isinstance(t, ast.Starred):
            tgt(t.value)
    for s in stmts:
        for n in ast.walk(s):
            if isinstance(n, ast.Assign):
                for t in n.targets:
                    tgt(t)
            elif isinstance(n, (ast.AugAssign, ast.AnnAssign)):
                tgt(n.target)
            elif isinstance(n, ast.For):
                tgt(n.target)
            elif isinstance(n, ast.With):
                for i in n.items:
                    if i.optional_vars is not None:
                        tgt(i.optional_vars)
            elif isinstance(n, ast.ExceptHandler) and n.name:
                names.add(n.name)
            elif isinstance(n, ast.NamedExpr):
                tgt(n.target)
    return names


def havoc_value(st, name, v):
    if isinstance(v, SV):
        return st.fresh_sv(name, v.ty)
    if isinstance(v, bool):
        return st.fresh_sv(name, 'bool')
    if isinstance(v, int):
        return st.fresh_sv(name, 'int')
    if isinstance(v, float):
        return st.fresh_sv(name, 'real')
    return None     # unknown shape: the variable becomes unbound


class LoopSpec:
    """Inductive invariant for one loop (keyed by function qualname + ordinal).

    inv(it, fr, i) -> z3 Bool over the current locals / world (i is the number of
    completed iterations for `for` loops over a SymSeq, None for while loops).
    havoc_world: world keys modified by the body.  keep: locals assigned in the
    body whose value the invariant pins exactly (they are havocked to fresh
    symbols of the same class and constrained by inv).
    """

    def __init__(self, name, inv, havoc_world=(), shapes=None, on_havoc=None, on_bind=None, lemmas=None):
        self.name = name
        self.inv = inv
        self.havoc_world = tuple(havoc_world)
        self.shapes = shapes or {}
        self.on_havoc = on_havoc
        self.on_bind = on_bind
        self.lemmas = lemmas        # lemmas(it, fr, i) -> list of facts to assume (instances of proved lemmas / definitions)

    def havoc(self, it, s, fr):
        st = it.st
        for nme in sorted(assigned_names(s.body)):
            shape = self.shapes.get(nme)
            if nme in fr.locals or shape:
                nv = shape(st) if shape else havoc_value(st, nme, fr.locals[nme])
                if nv is None:
                    fr.locals.pop(nme, None)
                else:
                    fr.locals[nme] = nv
        for k in self.havoc_world:
            if k in st.world and isinstance(st.world[k], z3.ExprRef):
                st.world[k] = st.fresh(k.replace('.', '_'), st.world[k].sort())
        if self.on_havoc:
            self.on_havoc(it, fr)

    def run(self, it, s, fr, iterable):
        st = it.st
        is_for = isinstance(s, ast.For)
        if is_for and type(iterable).__name__ == 'RangeV' and len(iterable.args) == 1:
            # range(k) for a symbolic k: the sequence 0 .. max(k, 0) - 1
            from .env import int_term
            k = int_term(iterable.args[0])
            iterable = SymSeq(z3.If(k > 0, k, 0), lambda i: SV('int', i), tag='range')
        lazy_cursor = False
        if is_for and isinstance(iterable, Obj) and iterable.cls == 'Cursor' and isinstance(iterable.fields.get('rows'), SymSeq):
            # iterating the cursor itself: rows are produced one at a time and the statement stays active
            # (the connection keeps its read snapshot) until the loop is done
            lazy_cursor = True
            iterable = iterable.fields['rows']
            st.ghost['open_cursors'] = st.ghost.get('open_cursors', 0) + 1
            st.effect('CURSOR_OPEN', line=s.lineno)
        if is_for and type(iterable).__name__ == 'ZipV':
            # zip of symbolic sequences: position-wise tuples up to the shorter length
            parts = []
            for x in iterable.parts:
                if isinstance(x, Obj) and not isinstance(x, SymSeq):
                    x = it.call(it.getattr(x, '__iter__'), [], {})
                if not isinstance(x, SymSeq):
                    raise Unsupported('zip over %r under a loop contract' % (x,))
                parts.append(x)
            nmin = parts[0].n
            for x in parts[1:]:
                nmin = z3.If(x.n < nmin, x.n, nmin)
            iterable = SymSeq(nmin, lambda i, parts=parts: tuple(x.elem(i) for x in parts), tag='zip')
        if is_for and not isinstance(iterable, SymSeq):
            raise Unsupported('loop contract %s expects a symbolic sequence, got %r' % (self.name, iterable))
        zero = z3.IntVal(0) if is_for else None
        self._lem(it, fr, zero)
        st.check(self.name + '.inv-entry', 'inv-entry', self.inv(it, fr, zero))
        # arbitrary iteration or exit
        if is_for:
            n = iterable.n
            st.ghost['loop_bound:' + self.name] = n        # number of iterations, for obligations about it
            i = st.fresh('iter_' + self.name.split('.')[-1], z3.IntSort())
            if st.branch(z3.And(i >= 0, i < n)):
                self.havoc(it, s, fr)
                self._lem(it, fr, i)
                self._lem(it, fr, i + 1)
                st.assume(self.inv(it, fr, i))
                ef = getattr(iterable, 'elem_facts', None)
                if ef is not None:
                    st.assume(ef(i))        # instance of the sequence's defining facts at position i
                it.assign(s.target, iterable.elem(i), fr)
                if self.on_bind:
                    self.on_bind(it, fr, i)
                self._body(it, s, fr, i + 1)
                return      # reached only on break
            self.havoc(it, s, fr)
            st.assume(n >= 0)
            self._lem(it, fr, n)
            st.assume(self.inv(it, fr, n))
            if lazy_cursor:
                st.ghost['open_cursors'] = st.ghost.get('open_cursors', 1) - 1
                st.effect('CURSOR_DONE', line=s.lineno)
            it.exec_block(s.orelse, fr)
            return
        # while loop
        self.havoc(it, s, fr)
        st.assume(self.inv(it, fr, None))
        if not it.is_true(it.eval(s.test, fr)):
            it.exec_block(s.orelse, fr)
            return
        self._body(it, s, fr, None)

    def _lem(self, it, fr, i):
        if self.lemmas:
            for f in self.lemmas(it, fr, i):
                it.st.assume(f)

    def _body(self, it, s, fr, nxt):
        st = it.st
        try:
            it.exec_block(s.body, fr)
        except _Break:
            return
        except _Continue:
            pass
        st.check(self.name + '.inv-preserve', 'inv-preserve', self.inv(it, fr, nxt))
        st.effect('LOOP_CUT', line=s.lineno)
        raise PathEnd()


def stream_content(it, iterable):
    """(content term, ty) of a chunk source: BytesIO / StringIO / iter(partial(stream.read, n), b'')."""
    if iterable.cls in ('BytesIO', 'StringIO'):
        c = iterable.fields['content']
        from .values import term_of
        return term_of(c), ('bytes' if iterable.cls == 'BytesIO' else 'str')
    if iterable.cls == 'calliter':
        src = iterable.fields.get('stream')
        if src is None:
            raise Unsupported('iter(callable, sentinel) over an unknown callable')
        return src.fields['content'].t, 'bytes'
    raise Unsupported('chunk stream %r' % (iterable,))


class StreamLoopSpec(LoopSpec):
    """`for chunk in <stream>`: chunks are consecutive non-empty pieces of the content.

    inv(it, fr, consumed) where consumed is the concatenation of the chunks
    handed out so far.  Environment contract (trusted): iterating BytesIO /
    StringIO / iter(partial(read, n), b'') yields pieces whose concatenation is
    the content, ending at the first empty read.
    """

    def run(self, it, s, fr, iterable):
        st = it.st
        if not (isinstance(iterable, Obj) and iterable.cls in ('BytesIO', 'StringIO', 'calliter')):
            raise Unsupported('loop contract %s expects a chunk stream, got %r' % (self.name, iterable))
        content, ty = stream_content(it, iterable)
        # an iterator that was partly consumed by an earlier loop only yields what is left
        if 'remaining' in iterable.fields:
            content = iterable.fields['remaining']
        it.env.use('chunk iteration: concatenation of the yielded chunks equals the (remaining) stream content')
        sort = content.sort()
        st.check(self.name + '.inv-entry', 'inv-entry', self.inv(it, fr, z3.Empty(sort)))
        may_raise = iterable.cls == 'calliter'
        opts = 3 if may_raise else 2
        d = st.decide(opts)
        if d == 0:
            # arbitrary iteration
            consumed = st.fresh('consumed', sort)
            chunk = st.fresh('chunk', sort)
            rest = st.fresh('rest', sort)
            self.havoc(it, s, fr)
            st.assume(content == z3.Concat(consumed, chunk, rest))
            st.assume(z3.Length(chunk) > 0)
            st.assume(self.inv(it, fr, consumed))
            it.assign(s.target, SV(ty, chunk), fr)
            iterable.fields['remaining'] = rest      # what a later loop over the same iterator would still get
            self._body(it, s, fr, z3.Concat(consumed, chunk))
            return
        if d == 2:
            self.havoc(it, s, fr)
            consumed = st.fresh('consumed', sort)
            st.assume(z3.PrefixOf(consumed, content))
            st.assume(self.inv(it, fr, consumed))
            iterable.fields['remaining'] = st.fresh('rest_after_fault', sort)
            st.effect('FAULT', op='stream.read')
            from .engine import raise_py
            raise_py('OSError', 'stream read failed')
        self.havoc(it, s, fr)
        st.assume(self.inv(it, fr, content))
        iterable.fields['remaining'] = z3.Empty(sort)
        it.exec_block(s.orelse, fr)

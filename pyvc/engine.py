"""pyvc engine: symbolic execution of the real Python AST.

Design: a plain single-path AST interpreter over symbolic values.  Whenever
control depends on a symbolic condition the interpreter asks the path State to
`branch`; the State consults a decision prefix (replay) or, beyond the prefix,
takes the first feasible option and records the alternatives.  The explorer
re-runs the function from the start once per decision vector (DFS by replay).

Exceptions of the interpreted program are PyRaise; return/break/continue are
private control exceptions.
"""
import ast
import itertools
import z3

from .values import *  # noqa
from . import values as V


class Unsupported(Exception):
    """Construct outside the engine's subset: dependent obligations UNDECIDED."""


class Infeasible(Exception):
    pass


class PathEnd(Exception):
    """Path cut at a loop back-edge (covered by induction)."""


class PyRaise(Exception):
    def __init__(self, exc):
        Exception.__init__(self, repr(exc))
        self.exc = exc


class _Return(Exception):
    def __init__(self, value):
        self.value = value


class _Break(Exception):
    pass


class _Continue(Exception):
    pass


def raise_py(cls, *args):
    raise PyRaise(ExcVal(cls, args))


# ------------------------------------------------------------------ State
class Obligation:
    def __init__(self, name, kind, pc, goal, info=None):
        self.name = name
        self.kind = kind
        self.pc = list(pc)
        self.goal = goal
        self.info = info or {}


class State:
    SOLVER_TIMEOUT_MS = 5000

    def __init__(self, prefix=(), assumptions=()):
        self.prefix = list(prefix)
        self.pos = 0
        self.decisions = []
        self.alternatives = []
        self.pc = []
        self.solver = z3.Solver()
        self.solver.set('timeout', self.SOLVER_TIMEOUT_MS)
        self.counter = itertools.count()
        self.world = {}
        self.trace = []          # effect trace
        self.obligations = []    # mid-path obligations (call-pre, invariants)
        self.notes = []          # lines visited etc.
        self.ghost = {}
        self.axioms_used = set()
        self.assumed = set()     # names of assumed contracts used on this path
        self.solver_unknowns = 0
        self.quantified = 0
        for a in assumptions:
            self.assume(a)

    # -- symbols
    def fresh_name(self, base):
        return '%s!%d' % (base, next(self.counter))

    def fresh(self, base, sort):
        return z3.Const(self.fresh_name(base), sort)

    def fresh_sv(self, base, ty):
        sort = {'int': z3.IntSort(), 'bool': z3.BoolSort(), 'float': F64,
                'real': z3.RealSort(), 'str': STR, 'bytes': BYTES}[ty]
        return SV(ty, self.fresh(base, sort))

    # -- path condition
    def assume(self, cond):
        if isinstance(cond, bool):
            if not cond:
                raise Infeasible()
            return
        cond = z3.simplify(cond)
        if z3.is_true(cond):
            return
        if z3.is_false(cond):
            raise Infeasible()
        self.pc.append(cond)
        if _has_quantifier(cond):
            # quantified facts (invariants, page descriptions) are used in the validity proofs only;
            # path feasibility is decided on the quantifier-free part (over-approximation: sound)
            self.quantified += 1
        else:
            self.solver.add(cond)

    def _sat(self, cond):
        r = self.solver.check(cond)
        if r == z3.unknown:
            self.solver_unknowns += 1
            return True
        return r == z3.sat

    def feasible(self):
        r = self.solver.check()
        return r != z3.unsat

    def decide(self, n):
        """Choose one of n options (all assumed feasible)."""
        if self.pos < len(self.prefix):
            d = self.prefix[self.pos]
        else:
            d = 0
            for k in range(1, n):
                self.alternatives.append(self.decisions + [k])
        self.pos += 1
        self.decisions.append(d)
        return d

    def branch(self, cond):
        """Python bool for a condition, forking when both sides are feasible."""
        if isinstance(cond, bool):
            return cond
        cond = z3.simplify(cond)
        if z3.is_true(cond):
            return True
        if z3.is_false(cond):
            return False
        can_t = self._sat(cond)
        can_f = self._sat(z3.Not(cond))
        if can_t and can_f:
            d = self.decide(2)
            self.assume(cond if d == 0 else z3.Not(cond))
            return d == 0
        if can_t:
            return True
        if can_f:
            return False
        raise Infeasible()

    def choose(self, guards):
        """Pick an index among options whose guards are feasible."""
        if self.pos < len(self.prefix):
            # replay: recompute the feasible list deterministically
            pass
        feas = []
        for i, g in enumerate(guards):
            if g is True or g is None:
                feas.append(i)
            elif g is False:
                continue
            else:
                g2 = z3.simplify(g)
                if z3.is_false(g2):
                    continue
                if z3.is_true(g2) or self._sat(g2):
                    feas.append(i)
        if not feas:
            raise Infeasible()
        if len(feas) == 1:
            i = feas[0]
        else:
            i = feas[self.decide(len(feas))]
        g = guards[i]
        if g is not True and g is not None:
            self.assume(g)
        return i

    def check(self, name, kind, goal, info=None):
        """Record a mid-path obligation pc => goal and continue assuming it."""
        if isinstance(goal, bool):
            goal = z3.BoolVal(goal)
        self.obligations.append(Obligation(name, kind, self.pc, goal, info))
        try:
            self.assume(goal)
        except Infeasible:
            # the obligation is trivially false on this path: keep the path (and the recorded
            # obligation) instead of discarding it as infeasible
            raise PathEnd()

    def effect(self, kind, **info):
        self.trace.append((kind, info))


def _has_quantifier(t, _seen=None):
    seen = set() if _seen is None else _seen
    stack = [t]
    while stack:
        x = stack.pop()
        i = x.get_id()
        if i in seen:
            continue
        seen.add(i)
        if z3.is_quantifier(x):
            return True
        stack.extend(x.children())
    return False


class Path:
    def __init__(self, state, kind, value):
        self.state = state
        self.kind = kind            # 'return' | 'raise' | 'cut' | 'unsupported'
        self.value = value
        self.pc = state.pc
        self.decisions = list(state.decisions)


def explore(run, max_paths=4000, assumptions=(), on_state=None):
    """Run `run(state)` once per decision vector; returns list of Path."""
    work = [[]]
    paths = []
    n = 0
    while work:
        prefix = work.pop()
        n += 1
        if n > max_paths:
            raise Unsupported('path budget exceeded (%d)' % max_paths)
        st = State(prefix)
        if on_state:
            on_state(st)
        try:
            for a in assumptions:
                st.assume(a)
            try:
                val = run(st)
                kind = 'return'
            except PyRaise as e:
                val, kind = e.exc, 'raise'
            except PathEnd:
                val, kind = None, 'cut'
        except Infeasible:
            work.extend(st.alternatives)
            continue
        work.extend(st.alternatives)
        paths.append(Path(st, kind, val))
    return paths


# ------------------------------------------------------------------ program model
class FuncVal:
    def __init__(self, node, module, parent_frame=None, owner=None, qualname=None):
        self.node = node
        self.module = module
        self.parent_frame = parent_frame
        self.owner = owner              # ClassInfo for methods
        self.qualname = qualname or node.name
        self.attrs = {}
        self.is_cm = False
        self.is_gen = any(isinstance(n, (ast.Yield, ast.YieldFrom))
                          for n in _walk_no_nested(node))
        self.defaults = None            # evaluated lazily
        self.kw_defaults = None

    def __repr__(self):
        return '<func %s>' % self.qualname


def _walk_no_nested(fnode):
    """Walk a function body without descending into nested defs/lambdas."""
    stack = list(fnode.body)
    while stack:
        n = stack.pop()
        yield n
        for c in ast.iter_child_nodes(n):
            if isinstance(c, (ast.FunctionDef, ast.AsyncFunctionDef, ast.Lambda,
                              ast.ClassDef)):
                continue
            stack.append(c)


class UnsupportedFunc:
    def __init__(self, reason):
        self.reason = reason


class BoundMethod:
    def __init__(self, selfv, func):
        self.self = selfv
        self.func = func

    def __repr__(self):
        return '<bound %r>' % (self.func,)


class EnvFunc:
    """Environment (library) function with a contract implemented in Python."""

    def __init__(self, name, impl):
        self.name = name
        self.impl = impl

    def __repr__(self):
        return '<env %s>' % self.name


class EnvModule:
    def __init__(self, name):
        self.name = name

    def __repr__(self):
        return '<envmodule %s>' % self.name


class PropertyVal:
    def __init__(self, fget, fset=None):
        self.fget = fget
        self.fset = fset


class ClassMethodVal:
    def __init__(self, func):
        self.func = func


class ClassInfo:
    def __init__(self, name, bases, module):
        self.name = name
        self.bases = bases          # list of ClassInfo / PyType / EnvClass
        self.module = module
        self.attrs = {}

    def lookup(self, name):
        for c in self.mro():
            if isinstance(c, ClassInfo) and name in c.attrs:
                return c.attrs[name], c
        return None, None

    def mro(self):
        out = [self]
        for b in self.bases:
            if isinstance(b, ClassInfo):
                for c in b.mro():
                    if c not in out:
                        out.append(c)
            else:
                if b not in out:
                    out.append(b)
        return out

    def __repr__(self):
        return '<class %s>' % self.name


class EnvClass:
    """A library class referenced by name (e.g. BaseCache, Sequence)."""

    def __init__(self, name):
        self.name = name

    def __repr__(self):
        return '<envclass %s>' % self.name


class Module:
    def __init__(self, name, path, tree, source):
        self.name = name
        self.path = path
        self.tree = tree
        self.source = source
        self.globals = {}


class Frame:
    def __init__(self, func, module, locals_, parent=None, selfcls=None):
        self.func = func
        self.module = module
        self.locals = locals_
        self.parent = parent
        self.selfcls = selfcls
        self.cm_bodies = []       # stack of with-body callbacks for inline CMs
        self.gen_yields = None    # list collecting yields in record mode


class SuperProxy:
    def __init__(self, cls, selfv):
        self.cls = cls
        self.selfv = selfv


class SeqV:
    """Tuple/list of symbolic length: a z3 Seq term over PyObj (or other sort)."""

    def __init__(self, t, kind='tuple'):
        self.t = t
        self.kind = kind

    def __repr__(self):
        return 'SeqV(%s)' % self.t


class Batch:
    """All elements value(i), 0 <= i < n, of a symbolic sequence, collected by one summarised loop."""

    def __init__(self, seq, index, value):
        self.seq = seq
        self.index = index
        self.value = value


class StarPack:
    """`*pack` / `**pack` of a symbolic argument tuple / keyword dict, forwarded whole."""

    def __init__(self, v):
        self.v = v


class IterV:
    """A Python iterator over a concrete list of values."""

    def __init__(self, items):
        self.items = list(items)
        self.pos = 0


class Interp:
    MAX_UNROLL = 24

    def __init__(self, program, state, env, contracts=None, inline=None):
        self.program = program
        self.st = state
        self.env = env
        self.contracts = contracts or {}
        self.inline = inline
        self.call_depth = 0
        self.loop_invariants = {}
        self.hooks = {}
        self.suppress_stack = []

    # ---------------------------------------------------------- utilities
    def unsupported(self, node, what):
        line = getattr(node, 'lineno', '?')
        raise Unsupported('%s (line %s)' % (what, line))

    # ---------------------------------------------------------- truthiness
    def truth(self, v):
        if v is None:
            return False
        if isinstance(v, z3.BoolRef):
            return v
        if isinstance(v, (bool, int, float, str, bytes, tuple, list, dict, set, frozenset)):
            return bool(v)
        if isinstance(v, SV):
            if v.ty == 'bool':
                return v.t
            if v.ty == 'int':
                return v.t != 0
            if v.ty == 'real':
                return v.t != 0
            if v.ty == 'float':
                return z3.Not(z3.fpIsZero(v.t))
            if v.ty in ('str', 'bytes'):
                return z3.Length(v.t) > 0
        if isinstance(v, Opt):
            inner = self.truth(v.inner)
            if isinstance(inner, bool):
                inner = z3.BoolVal(inner)
            return z3.And(z3.Not(v.isnone), inner)
        if isinstance(v, SeqV):
            return z3.Length(v.t) > 0
        if isinstance(v, (Obj, FuncVal, BoundMethod, EnvFunc, ClassInfo, PyType, Bin, Opaque)):
            if isinstance(v, Obj) and hasattr(v, 'truth'):
                return v.truth(self)
            return True
        if isinstance(v, Dyn):
            return self.env.dyn_truth(self, v)
        raise Unsupported('truthiness of %r' % (v,))

    def is_true(self, v):
        return self.st.branch(self.truth(v))

    # ---------------------------------------------------------- equality / comparison
    def eq(self, a, b):
        """Python a == b as bool or z3 Bool."""
        return self.env.py_eq(self, a, b)

    def identical(self, a, b):
        """Python `a is b`."""
        if isinstance(a, Opt) and b is None:
            return a.isnone
        if isinstance(b, Opt) and a is None:
            return b.isnone
        if isinstance(a, Opt) or isinstance(b, Opt):
            # compare through the inner when not none
            o, x = (a, b) if isinstance(a, Opt) else (b, a)
            inner = self.identical(o.inner, x)
            if isinstance(inner, bool):
                inner = z3.BoolVal(inner)
            return z3.And(z3.Not(o.isnone), inner)
        if a is None or b is None:
            if isinstance(a, Dyn) or isinstance(b, Dyn):
                d = a if isinstance(a, Dyn) else b
                return d.t == PyObj.ONone
            return a is b
        if isinstance(a, bool) or isinstance(b, bool):
            if isinstance(a, bool) and isinstance(b, bool):
                return a is b
            o = b if isinstance(a, bool) else a
            c = a if isinstance(a, bool) else b
            if isinstance(o, SV) and o.ty == 'bool':
                return o.t if c else z3.Not(o.t)
            if isinstance(o, Dyn):
                return o.t == PyObj.OBool(z3.BoolVal(c))
            return False
        if isinstance(a, (PyType, ClassInfo, Obj, FuncVal, EnvFunc, EnvClass)) or \
                isinstance(b, (PyType, ClassInfo, Obj, FuncVal, EnvFunc, EnvClass)):
            if isinstance(a, SymType) or isinstance(b, SymType):
                return self.env.type_is(self, a, b)
            return a is b
        if isinstance(a, SymType) or isinstance(b, SymType):
            return self.env.type_is(self, a, b)
        raise Unsupported('identity test between %r and %r' % (a, b))

    # ---------------------------------------------------------- name lookup
    def lookup(self, frame, name, node=None):
        f = frame
        while f is not None:
            if name in f.locals:
                return f.locals[name]
            f = f.parent
        g = frame.module.globals
        if name in g:
            return g[name]
        b = self.env.builtin(name)
        if b is not None:
            return b
        import builtins as _b
        if hasattr(_b, name):
            raise Unsupported('builtin %s has no environment contract' % name)
        raise_py('NameError', name)

    # ---------------------------------------------------------- calls
    def bind_args(self, fv, args, kwargs, frame_for_defaults=None):
        a = fv.node.args
        params = [p.arg for p in a.posonlyargs + a.args]
        if fv.defaults is None:
            df = Frame(fv, fv.module, {}, fv.parent_frame)
            fv.defaults = [self.eval(d, df) for d in a.defaults]
            fv.kw_defaults = [None if d is None else self.eval(d, df) for d in a.kw_defaults]
        loc = {}
        args = list(args)
        kwargs = dict(kwargs)
        npos = len(params)
        kwpack = kwargs.pop('**', None)
        packs = [x for x in args if isinstance(x, StarPack)]
        if packs:
            if len(packs) > 1 or not isinstance(args[-1], StarPack) or len(args) - 1 != npos or a.vararg is None:
                raise Unsupported('forwarding *args of symbolic length into named parameters')
            pack = args.pop()
        else:
            pack = None
        for i, p in enumerate(params):
            if i < len(args):
                loc[p] = args[i]
        if len(args) > npos:
            if a.vararg is None:
                raise_py('TypeError', 'too many positional arguments')
            loc[a.vararg.arg] = tuple(args[npos:])
        elif a.vararg is not None:
            loc[a.vararg.arg] = ()
        if pack is not None:
            loc[a.vararg.arg] = pack.v
        if kwpack is not None:
            if a.kwarg is None or kwargs:
                raise Unsupported('forwarding **kwargs of symbolic size into named parameters')
            loc[a.kwarg.arg] = kwpack.v
            kwargs = {}
            kw_bound = True
        else:
            kw_bound = False
        for k in list(kwargs):
            if k in params or k in [p.arg for p in a.kwonlyargs]:
                if k in loc:
                    raise_py('TypeError', 'multiple values for argument %s' % k)
                loc[k] = kwargs.pop(k)
        if kwargs:
            if a.kwarg is None:
                raise_py('TypeError', 'unexpected keyword argument %s' % sorted(kwargs)[0])
            loc[a.kwarg.arg] = kwargs
        elif a.kwarg is not None and not kw_bound:
            loc[a.kwarg.arg] = {}
        nd = len(fv.defaults)
        for i, p in enumerate(params):
            if p not in loc:
                j = i - (npos - nd)
                if j < 0:
                    raise_py('TypeError', 'missing argument %s' % p)
                loc[p] = fv.defaults[j]
        for p, d in zip(a.kwonlyargs, fv.kw_defaults):
            if p.arg not in loc:
                if d is None and a.kw_defaults[a.kwonlyargs.index(p)] is None:
                    raise_py('TypeError', 'missing kw-only argument %s' % p.arg)
                loc[p.arg] = d
        return loc

    def call(self, f, args, kwargs, node=None):
        if isinstance(f, BoundMethod):
            return self.call(f.func, [f.self] + list(args), kwargs, node)
        if isinstance(f, EnvFunc):
            return f.impl(self, list(args), dict(kwargs))
        if isinstance(f, FuncVal):
            hook = self.hooks.get(f.qualname)
            if hook is not None:
                r = hook(self, f, list(args), dict(kwargs))
                if r is not NotImplemented:
                    return r
            c = self.contracts.get(f.qualname)
            if c is not None:
                return c.apply(self, f, list(args), dict(kwargs))
            return self.call_function(f, args, kwargs)
        if isinstance(f, ClassInfo):
            return self.instantiate(f, args, kwargs)
        if isinstance(f, UnsupportedFunc):
            raise Unsupported(f.reason)
        if isinstance(f, PyType):
            return self.env.call_type(self, f, list(args), dict(kwargs))
        if isinstance(f, Obj):
            r = self.env.call_other(self, f, list(args), dict(kwargs))
            if r is not NotImplemented:
                return r
            callm = self.getattr(f, '__call__')
            return self.call(callm, args, kwargs, node)
        if isinstance(f, ClassMethodVal):
            raise Unsupported('unbound classmethod call')
        r = self.env.call_other(self, f, list(args), dict(kwargs))
        if r is not NotImplemented:
            return r
        raise Unsupported('call of %r' % (f,))

    def call_function(self, fv, args, kwargs, cm_body=None, gen_record=None):
        if fv.is_gen and cm_body is None and gen_record is None:
            raise Unsupported('generator %s called outside with/record mode' % fv.qualname)
        self.call_depth += 1
        if self.call_depth > 40:
            raise Unsupported('call depth')
        try:
            loc = self.bind_args(fv, args, kwargs)
            fr = Frame(fv, fv.module, loc, fv.parent_frame, selfcls=fv.owner)
            if cm_body is not None:
                fr.cm_bodies.append(cm_body)
            if gen_record is not None:
                fr.gen_yields = gen_record
            try:
                self.exec_block(fv.node.body, fr)
            except _Return as r:
                return r.value
            return None
        finally:
            self.call_depth -= 1

    def instantiate(self, cls, args, kwargs):
        en = self.env.exc_class_name(cls)
        if en is not None:
            return ExcVal(en, tuple(args))
        new, _ = cls.lookup('__new__')
        if new is not None:
            obj = self.call(new, [cls] + list(args), kwargs)
        else:
            obj = Obj(cls)
        if isinstance(obj, Obj) and obj.cls is cls or (isinstance(obj, tuple) and new is not None):
            init, _ = cls.lookup('__init__')
            if init is not None and isinstance(obj, Obj):
                self.call(init, [obj] + list(args), kwargs)
        return obj

    # ---------------------------------------------------------- attributes
    def getattr(self, o, name, node=None):
        if isinstance(o, Obj):
            if name in o.fields:
                return o.fields[name]
            cls = o.cls
            if isinstance(cls, ClassInfo):
                v, owner = cls.lookup(name)
                if v is not None:
                    return self.bind_attr(o, v)
            r = self.env.obj_getattr(self, o, name)
            if r is not NotImplemented:
                return r
            if isinstance(cls, ClassInfo):
                ga, _ = cls.lookup('__getattr__')
                if ga is not None:
                    return self.call(ga, [o, name], {})
            raise_py('AttributeError', name)
        if isinstance(o, ClassInfo):
            v, owner = o.lookup(name)
            if v is not None:
                if isinstance(v, ClassMethodVal):
                    return BoundMethod(o, v.func)
                return v
            r = self.env.class_getattr(self, o, name)
            if r is not NotImplemented:
                return r
            if name == '__new__':
                return EnvFunc('object.__new__', lambda it2, a, k: Obj(a[0]))
            raise_py('AttributeError', name)
        if isinstance(o, SuperProxy):
            mro = o.selfv.cls.mro() if isinstance(o.selfv, Obj) else o.cls.mro()
            i = mro.index(o.cls)
            for c in mro[i + 1:]:
                if isinstance(c, ClassInfo) and name in c.attrs:
                    return self.bind_attr(o.selfv, c.attrs[name])
                if not isinstance(c, ClassInfo):
                    r = self.env.super_getattr(self, c, o.selfv, name)
                    if r is not NotImplemented:
                        return r
            raise_py('AttributeError', name)
        if isinstance(o, FuncVal):
            if name in o.attrs:
                return o.attrs[name]
            if name == '__name__':
                return o.node.name
            if name == '__qualname__':
                return o.qualname
            if name == '__module__':
                return o.module.name
            raise_py('AttributeError', name)
        if isinstance(o, EnvModule):
            return self.env.module_attr(self, o, name)
        if isinstance(o, Module):
            if name in o.globals:
                return o.globals[name]
            raise_py('AttributeError', name)
        return self.env.value_getattr(self, o, name)

    def bind_attr(self, o, v):
        if isinstance(v, FuncVal):
            return BoundMethod(o, v)
        if isinstance(v, EnvFunc) and v.name == 'MutableMapping.update':
            return BoundMethod(o, v)
        if isinstance(v, PropertyVal):
            return self.call(v.fget, [o], {})
        if isinstance(v, ClassMethodVal):
            return BoundMethod(o.cls, v.func)
        return v

    def setattr(self, o, name, val):
        if isinstance(o, Obj):
            cls = o.cls
            if isinstance(cls, ClassInfo):
                v, _ = cls.lookup(name)
                if isinstance(v, PropertyVal):
                    if v.fset is None:
                        raise_py('AttributeError', name)
                    self.call(v.fset, [o, val], {})
                    return
            r = self.env.obj_setattr(self, o, name, val)
            if r is NotImplemented:
                o.fields[name] = val
            return
        if isinstance(o, FuncVal):
            o.attrs[name] = val
            return
        if isinstance(o, ClassInfo):
            o.attrs[name] = val
            return
        raise Unsupported('setattr on %r' % (o,))

    # ---------------------------------------------------------- statements
    def exec_block(self, stmts, fr):
        for s in stmts:
            self.exec_stmt(s, fr)

    def exec_stmt(self, s, fr):
        m = getattr(self, 'st_' + type(s).__name__, None)
        if m is None:
            self.unsupported(s, 'statement ' + type(s).__name__)
        self.st.notes.append(s.lineno)
        return m(s, fr)

    def st_Expr(self, s, fr):
        if isinstance(s.value, ast.Constant):
            return
        self.eval(s.value, fr)

    def st_Pass(self, s, fr):
        pass

    def st_Return(self, s, fr):
        raise _Return(None if s.value is None else self.eval(s.value, fr))

    def st_Break(self, s, fr):
        raise _Break()

    def st_Continue(self, s, fr):
        raise _Continue()

    def st_Global(self, s, fr):
        self.unsupported(s, 'global')

    def st_Nonlocal(self, s, fr):
        self.unsupported(s, 'nonlocal')

    def st_Import(self, s, fr):
        for a in s.names:
            top = a.name
            mod = self.env.import_module(self, top)
            if a.asname:
                self.store_name(fr, a.asname, mod)
            else:
                self.store_name(fr, top.split('.')[0], self.env.import_module(self, top.split('.')[0]))

    def st_ImportFrom(self, s, fr):
        modname = ('.' * s.level) + (s.module or '')
        mod = self.env.import_module(self, modname, fr.module)
        for a in s.names:
            v = self.getattr(mod, a.name)
            self.store_name(fr, a.asname or a.name, v)

    def store_name(self, fr, name, v):
        if fr.func is None:
            fr.module.globals[name] = v
        else:
            fr.locals[name] = v

    def st_FunctionDef(self, s, fr):
        qual = s.name
        if fr.func is not None:
            qual = fr.func.qualname + '.<locals>.' + s.name
        elif fr.selfcls is not None:
            qual = fr.selfcls.name + '.' + s.name
        fv = FuncVal(s, fr.module, fr if fr.func is not None else None,
                     owner=fr.selfcls if fr.func is None else None,
                     qualname=qual if fr.func is not None else fr.module.name + '.' + qual)
        v = fv
        for d in reversed(s.decorator_list):
            try:
                dec = self.eval(d, fr)
                v = self.apply_decorator(dec, v, d)
            except Unsupported as e:
                # keep the module loadable: only calls of this function are undecided
                v = UnsupportedFunc('%s: decorator outside the subset: %s' % (fv.qualname, e))
                break
        if fr.func is None and fr.selfcls is not None:
            fr.selfcls.attrs[s.name] = v
            fr.locals[s.name] = v
        else:
            self.store_name(fr, s.name, v)

    def apply_decorator(self, dec, v, node):
        r = self.env.decorator(self, dec, v)
        if r is not NotImplemented:
            return r
        return self.call(dec, [v], {}, node)

    def st_ClassDef(self, s, fr):
        bases = [self.eval(b, fr) for b in s.bases]
        ci = ClassInfo(s.name, bases, fr.module)
        cfr = Frame(None, fr.module, {}, None, selfcls=ci)
        for st in s.body:
            self.exec_stmt(st, cfr)
        for k, v in cfr.locals.items():
            ci.attrs.setdefault(k, v)
        self.store_name(fr, s.name, ci)

    def st_Assign(self, s, fr):
        v = self.eval(s.value, fr)
        for t in s.targets:
            self.assign(t, v, fr)

    def st_AnnAssign(self, s, fr):
        if s.value is not None:
            self.assign(s.target, self.eval(s.value, fr), fr)

    def st_AugAssign(self, s, fr):
        t = s.target
        if isinstance(t, ast.Name):
            cur = self.lookup(fr, t.id)
        elif isinstance(t, ast.Attribute):
            obj = self.eval(t.value, fr)
            cur = self.getattr(obj, t.attr)
        elif isinstance(t, ast.Subscript):
            obj = self.eval(t.value, fr)
            idx = self.eval_index(t.slice, fr)
            cur = self.getitem(obj, idx)
        else:
            self.unsupported(s, 'augassign target')
        rhs = self.eval(s.value, fr)
        new = self.env.binop(self, type(s.op).__name__, cur, rhs, inplace=True)
        if isinstance(t, ast.Name):
            self.assign(t, new, fr)
        elif isinstance(t, ast.Attribute):
            self.setattr(obj, t.attr, new)
        else:
            self.setitem(obj, idx, new)

    def assign(self, t, v, fr):
        if isinstance(t, ast.Name):
            if fr.func is None and fr.selfcls is not None:
                fr.locals[t.id] = v
            else:
                self.store_name(fr, t.id, v)
        elif isinstance(t, (ast.Tuple, ast.List)):
            items = self.unpack(v, len(t.elts), t)
            for e, x in zip(t.elts, items):
                self.assign(e, x, fr)
        elif isinstance(t, ast.Attribute):
            obj = self.eval(t.value, fr)
            self.setattr(obj, t.attr, v)
        elif isinstance(t, ast.Subscript):
            obj = self.eval(t.value, fr)
            idx = self.eval_index(t.slice, fr)
            self.setitem(obj, idx, v)
        else:
            self.unsupported(t, 'assignment target')

    def unpack(self, v, n, node=None):
        if isinstance(v, (tuple, list)):
            if len(v) != n:
                raise_py('ValueError', 'unpack: expected %d values, got %d' % (n, len(v)))
            return list(v)
        r = self.env.unpack(self, v, n)
        if r is NotImplemented:
            raise Unsupported('unpack of %r' % (v,))
        return r

    def st_Delete(self, s, fr):
        for t in s.targets:
            if isinstance(t, ast.Name):
                fr.locals.pop(t.id, None)
            elif isinstance(t, ast.Subscript):
                obj = self.eval(t.value, fr)
                idx = self.eval_index(t.slice, fr)
                self.delitem(obj, idx)
            elif isinstance(t, ast.Attribute):
                obj = self.eval(t.value, fr)
                self.env.delattr(self, obj, t.attr)
            else:
                self.unsupported(s, 'del target')

    def st_If(self, s, fr):
        if self.is_true(self.eval(s.test, fr)):
            self.exec_block(s.body, fr)
        else:
            self.exec_block(s.orelse, fr)

    def st_Assert(self, s, fr):
        if not self.is_true(self.eval(s.test, fr)):
            msg = () if s.msg is None else (self.eval(s.msg, fr),)
            raise_py('AssertionError', *msg)

    def st_Raise(self, s, fr):
        if s.exc is None:
            cur = getattr(fr, 'handling', None)
            if cur is None:
                raise_py('RuntimeError', 'no active exception')
            raise PyRaise(cur)
        e = self.eval(s.exc, fr)
        e = self.env.make_exception(self, e)
        raise PyRaise(e)

    def st_Try(self, s, fr):
        pending = None
        try:
            try:
                self.exec_block(s.body, fr)
            except PyRaise as pr:
                exc = pr.exc
                handled = False
                for h in s.handlers:
                    if self.handler_matches(h, exc, fr):
                        handled = True
                        if h.name:
                            fr.locals[h.name] = exc
                        saved = getattr(fr, 'handling', None)
                        fr.handling = exc
                        try:
                            self.exec_block(h.body, fr)
                        finally:
                            fr.handling = saved
                        break
                if not handled:
                    raise
            else:
                self.exec_block(s.orelse, fr)
        except (PyRaise, _Return, _Break, _Continue) as ctl:
            pending = ctl
        if s.finalbody:
            self.exec_block(s.finalbody, fr)   # may itself raise and replace pending
        if pending is not None:
            raise pending

    def handler_matches(self, h, exc, fr):
        if h.type is None:
            return True
        t = self.eval(h.type, fr)
        ts = t if isinstance(t, tuple) else (t,)
        for c in ts:
            name = self.env.exc_class_name(c)
            if name is None:
                raise Unsupported('except class %r' % (c,))
            if exc_issubclass(exc.cls, name):
                return True
        return False

    def st_With(self, s, fr):
        self.exec_with(s, 0, fr)

    def exec_with(self, s, i, fr):
        if i == len(s.items):
            self.exec_block(s.body, fr)
            return
        item = s.items[i]
        # inline generator-based context managers: evaluate the call lazily
        ce = item.context_expr
        cm = self.eval_cm_expr(ce, fr)
        if isinstance(cm, tuple) and cm and cm[0] == '__gen_cm__':
            _, fv, args, kwargs = cm
            ctl = []

            def body(yielded):
                if item.optional_vars is not None:
                    self.assign(item.optional_vars, yielded, fr)
                try:
                    self.exec_with(s, i + 1, fr)
                except (_Return, _Break, _Continue) as c:
                    ctl.append(c)
            entered = []

            def body_once(yielded):
                if entered:
                    raise Unsupported('context manager generator yielded twice')
                entered.append(1)
                body(yielded)
            hook = self.hooks.get(fv.qualname)
            c = self.contracts.get(fv.qualname)
            if c is not None and hasattr(c, 'apply_cm'):
                c.apply_cm(self, fv, args, kwargs, body_once)
            else:
                self.call_function(fv, args, kwargs, cm_body=body_once)
                if not entered:
                    raise_py('RuntimeError', "generator didn't yield")
            if ctl:
                raise ctl[0]
            return
        # protocol-based context manager
        enter = self.env.cm_enter(self, cm)
        if item.optional_vars is not None:
            self.assign(item.optional_vars, enter, fr)
        is_sup = isinstance(cm, Obj) and cm.cls == 'suppress'
        if is_sup:
            self.suppress_stack.append(cm)
        try:
            try:
                self.exec_with(s, i + 1, fr)
            finally:
                if is_sup:
                    self.suppress_stack.pop()
        except PyRaise as pr:
            if self.env.cm_exit(self, cm, pr.exc):
                return      # suppressed
            raise
        except (_Return, _Break, _Continue):
            self.env.cm_exit(self, cm, None)
            raise
        else:
            self.env.cm_exit(self, cm, None)

    def eval_cm_expr(self, ce, fr):
        """Evaluate a with-item; generator CMs are returned unevaluated."""
        if isinstance(ce, ast.Call):
            f = self.eval(ce.func, fr)
            fv = f.func if isinstance(f, BoundMethod) else f
            if isinstance(fv, FuncVal) and fv.is_cm:
                args, kwargs = self.eval_call_args(ce, fr)
                if isinstance(f, BoundMethod):
                    args = [f.self] + args
                return ('__gen_cm__', fv, args, kwargs)
            args, kwargs = self.eval_call_args(ce, fr)
            return self.call(f, args, kwargs, ce)
        v = self.eval(ce, fr)
        return v

    def st_While(self, s, fr):
        self.exec_loop(s, fr, None)

    def st_For(self, s, fr):
        it = self.eval(s.iter, fr)
        self.exec_loop(s, fr, it)

    def loop_key(self, s, fr):
        fn = fr.func
        if fn is None:
            return None
        loops = [n for n in ast.walk(fn.node) if isinstance(n, (ast.For, ast.While))]
        loops.sort(key=lambda n: (n.lineno, n.col_offset))
        return (fn.qualname, loops.index(s))

    def exec_loop(self, s, fr, iterable):
        key = self.loop_key(s, fr)
        inv = self.loop_invariants.get(key) if key else None
        if inv is not None and isinstance(s, ast.For) and isinstance(iterable, (tuple, list, dict)):
            inv = None      # concrete iterable: iterate it, no contract needed
        if inv is not None:
            return inv.run(self, s, fr, iterable)
        if isinstance(s, ast.For):
            if self.try_batch_collect(s, fr, iterable):
                return
            items = self.env.iterate(self, iterable)
            if items is NotImplemented:
                raise Unsupported('for over %r without loop invariant (line %d)'
                                  % (iterable, s.lineno))
            broke = False
            for x in items:
                if isinstance(x, Batch):
                    self.run_batch_body(s, fr, x)
                    continue
                self.assign(s.target, x, fr)
                try:
                    self.exec_block(s.body, fr)
                except _Break:
                    broke = True
                    break
                except _Continue:
                    continue
            if not broke:
                self.exec_block(s.orelse, fr)
            return
        # while loop without invariant: unroll; cut when an iteration is a no-op
        n = 0
        snap0 = self.snapshot(fr)
        while True:
            if not self.is_true(self.eval(s.test, fr)):
                self.exec_block(s.orelse, fr)
                return
            n += 1
            if n > self.MAX_UNROLL:
                raise Unsupported('while loop needs an invariant (line %d)' % s.lineno)
            try:
                self.exec_block(s.body, fr)
            except _Break:
                return
            except _Continue:
                pass
            if self.same_snapshot(snap0, self.snapshot(fr)):
                # the iteration changed nothing: every continuation from here
                # repeats one already explored from the loop entry
                self.st.effect('LOOP_CUT', line=s.lineno)
                raise PathEnd()

    def try_batch_collect(self, s, fr, iterable):
        """`for x in <symbolic sequence>: collector(<expr>)` where collector is list.append:
        the list receives one Batch element (order and multiplicity preserved by construction)."""
        from .loops import SymSeq
        if not isinstance(iterable, SymSeq) or s.orelse or len(s.body) != 1:
            return False
        b = s.body[0]
        if not (isinstance(b, ast.Expr) and isinstance(b.value, ast.Call) and len(b.value.args) == 1
                and not b.value.keywords):
            return False
        f = self.eval(b.value.func, fr)
        target_list = getattr(f, 'append_target', None)
        if target_list is None:
            return False
        i = self.st.fresh('batch_i', z3.IntSort())
        saved = dict(fr.locals)
        self.assign(s.target, iterable.elem(i), fr)
        v = self.eval(b.value.args[0], fr)
        fr.locals.clear()
        fr.locals.update(saved)
        target_list.append(Batch(iterable, i, v))
        self.st.effect('BATCH_COLLECT', seq=iterable, index=i, value=v)
        return True

    def run_batch_body(self, s, fr, batch):
        """Loop body for every element of a Batch: executed once for the generic element with the
        batch context set; environment effects (file removal) apply to the whole batch."""
        st = self.st
        body = s.body
        guard = z3.BoolVal(True)
        self.assign(s.target, batch.value, fr)
        # supported shapes: `call(x)`  or  `if x is not None: call(x)`
        if len(body) == 1 and isinstance(body[0], ast.If) and not body[0].orelse:
            t = self.truth(self.eval(body[0].test, fr))
            guard = z3.BoolVal(t) if isinstance(t, bool) else t
            body = body[0].body
        if not all(isinstance(b, ast.Expr) and isinstance(b.value, ast.Call) for b in body):
            raise Unsupported('loop body over a collected batch (line %d)' % s.lineno)
        st.ghost['batch'] = (batch, guard)
        try:
            self.exec_block(body, fr)
        finally:
            st.ghost['batch'] = None

    def snapshot(self, fr):
        loc = dict(fr.locals)
        world = dict(self.st.world)
        return (loc, world, len([e for e in self.st.trace if e[0] not in self.env.PURE_EFFECTS]))

    def same_snapshot(self, a, b):
        if a[2] != b[2]:
            return False
        if a[0].keys() != b[0].keys() or a[1].keys() != b[1].keys():
            return False
        for d1, d2 in ((a[0], b[0]), (a[1], b[1])):
            for k in d1:
                if not self.same_value(d1[k], d2[k]):
                    return False
        return True

    def same_value(self, x, y):
        if x is y:
            return True
        if isinstance(x, SV) and isinstance(y, SV):
            return x.ty == y.ty and x.t.eq(y.t)
        if isinstance(x, z3.ExprRef) and isinstance(y, z3.ExprRef):
            return x.eq(y)
        if isinstance(x, (tuple, list)) and type(x) is type(y) and len(x) == len(y):
            return all(self.same_value(p, q) for p, q in zip(x, y))
        if isinstance(x, Opt) and isinstance(y, Opt):
            return x.isnone.eq(y.isnone) and self.same_value(x.inner, y.inner)
        if isinstance(x, (Opaque, Dyn)) and type(x) is type(y):
            return x.t.eq(y.t)
        try:
            if type(x) is type(y) and isinstance(x, (int, str, bytes, float, bool, type(None))):
                return x == y
        except Exception:
            return False
        return False

    # ---------------------------------------------------------- expressions
    def eval(self, e, fr):
        m = getattr(self, 'ex_' + type(e).__name__, None)
        if m is None:
            self.unsupported(e, 'expression ' + type(e).__name__)
        return m(e, fr)

    def ex_Constant(self, e, fr):
        return e.value

    def ex_Name(self, e, fr):
        return self.lookup(fr, e.id, e)

    def ex_Tuple(self, e, fr):
        out = []
        for x in e.elts:
            if isinstance(x, ast.Starred):
                out.extend(self.env.iterate_strict(self, self.eval(x.value, fr)))
            else:
                out.append(self.eval(x, fr))
        return tuple(out)

    def ex_List(self, e, fr):
        return list(self.ex_Tuple(e, fr))

    def ex_Set(self, e, fr):
        return self.env.make_set(self, [self.eval(x, fr) for x in e.elts])

    def ex_Dict(self, e, fr):
        d = {}
        for k, v in zip(e.keys, e.values):
            if k is None:
                d.update(self.eval(v, fr))
            else:
                d[self.eval(k, fr)] = self.eval(v, fr)
        return d

    def ex_Attribute(self, e, fr):
        return self.getattr(self.eval(e.value, fr), e.attr, e)

    def ex_Subscript(self, e, fr):
        obj = self.eval(e.value, fr)
        idx = self.eval_index(e.slice, fr)
        return self.getitem(obj, idx)

    def eval_index(self, sl, fr):
        if isinstance(sl, ast.Slice):
            return slice(None if sl.lower is None else self.eval(sl.lower, fr),
                         None if sl.upper is None else self.eval(sl.upper, fr),
                         None if sl.step is None else self.eval(sl.step, fr))
        return self.eval(sl, fr)

    def getitem(self, obj, idx):
        return self.env.getitem(self, obj, idx)

    def setitem(self, obj, idx, v):
        return self.env.setitem(self, obj, idx, v)

    def delitem(self, obj, idx):
        return self.env.delitem(self, obj, idx)

    def ex_BoolOp(self, e, fr):
        is_and = isinstance(e.op, ast.And)
        v = None
        for i, x in enumerate(e.values):
            v = self.eval(x, fr)
            if i == len(e.values) - 1:
                return v
            t = self.is_true(v)
            if is_and and not t:
                return v
            if not is_and and t:
                return v
        return v

    def ex_UnaryOp(self, e, fr):
        v = self.eval(e.operand, fr)
        if isinstance(e.op, ast.Not):
            t = self.truth(v)
            if isinstance(t, bool):
                return not t
            return SV('bool', z3.Not(t))
        return self.env.unop(self, type(e.op).__name__, v)

    def ex_BinOp(self, e, fr):
        a = self.eval(e.left, fr)
        b = self.eval(e.right, fr)
        return self.env.binop(self, type(e.op).__name__, a, b)

    def ex_Compare(self, e, fr):
        left = self.eval(e.left, fr)
        result = True
        for k, (op, rhs) in enumerate(zip(e.ops, e.comparators)):
            right = self.eval(rhs, fr)
            r = self.compare(type(op).__name__, left, right)
            if k == len(e.ops) - 1:
                result = r
                break
            # chained: short-circuit
            if not self.is_true(r):
                return r
            left = right
        if isinstance(result, z3.ExprRef):
            result = z3.simplify(result)
            if z3.is_true(result):
                return True
            if z3.is_false(result):
                return False
            return SV('bool', result)
        return result

    def compare(self, op, a, b):
        if op == 'Is':
            return self.identical(a, b)
        if op == 'IsNot':
            r = self.identical(a, b)
            return (not r) if isinstance(r, bool) else z3.Not(r)
        if op == 'Eq':
            return self.eq(a, b)
        if op == 'NotEq':
            r = self.eq(a, b)
            return (not r) if isinstance(r, bool) else z3.Not(r)
        if op in ('In', 'NotIn'):
            r = self.env.contains(self, b, a)
            if op == 'NotIn':
                r = (not r) if isinstance(r, bool) else z3.Not(r)
            return r
        return self.env.order(self, op, a, b)

    def ex_IfExp(self, e, fr):
        if self.is_true(self.eval(e.test, fr)):
            return self.eval(e.body, fr)
        return self.eval(e.orelse, fr)

    def eval_call_args(self, e, fr):
        args = []
        for a in e.args:
            if isinstance(a, ast.Starred):
                sv = self.eval(a.value, fr)
                items = self.env.iterate(self, sv)
                if items is NotImplemented:
                    args.append(StarPack(sv))
                else:
                    args.extend(items)
            else:
                args.append(self.eval(a, fr))
        kwargs = {}
        for k in e.keywords:
            if k.arg is None:
                d = self.eval(k.value, fr)
                if getattr(d, 'is_kwpack', False):
                    kwargs['**'] = StarPack(d)
                    continue
                if not isinstance(d, dict):
                    r = self.env.as_kwargs(self, d)
                    if r is NotImplemented:
                        raise Unsupported('** of %r' % (d,))
                    d = r
                kwargs.update(d)
            else:
                kwargs[k.arg] = self.eval(k.value, fr)
        return args, kwargs

    def ex_Call(self, e, fr):
        # zero-argument super()
        if isinstance(e.func, ast.Name) and e.func.id == 'super' and not e.args:
            f = fr
            while f is not None and (f.func is None or f.func.owner is None):
                f = f.parent
            if f is None:
                self.unsupported(e, 'super() outside method')
            selfname = f.func.node.args.args[0].arg
            return SuperProxy(f.func.owner, f.locals[selfname])
        f = self.eval(e.func, fr)
        args, kwargs = self.eval_call_args(e, fr)
        return self.call(f, args, kwargs, e)

    def ex_Lambda(self, e, fr):
        fn = ast.FunctionDef(name='<lambda>', args=e.args,
                             body=[ast.Return(value=e.body, lineno=e.lineno, col_offset=0)],
                             decorator_list=[], lineno=e.lineno, col_offset=0)
        return FuncVal(fn, fr.module, fr, qualname=(fr.func.qualname if fr.func else fr.module.name) + '.<lambda>')

    def ex_Yield(self, e, fr):
        v = None if e.value is None else self.eval(e.value, fr)
        f = fr
        if f.cm_bodies:
            body = f.cm_bodies[-1]
            body(v)
            return None
        if f.gen_yields is not None:
            f.gen_yields.append(v)
            self.st.effect('GEN_YIELD', open_cursors=self.st.ghost.get('open_cursors', 0))
            hook = getattr(self, 'on_yield', None)
            if hook is not None:
                hook(self, f, v)
            return None
        self.unsupported(e, 'yield outside cm-inline / record mode')

    def ex_JoinedStr(self, e, fr):
        self.unsupported(e, 'f-string')

    def comp_run(self, gens, fr, emit):
        def rec(i, cfr):
            if i == len(gens):
                emit(cfr)
                return
            g = gens[i]
            it = self.eval(g.iter, cfr if i else fr)
            items = self.env.iterate(self, it)
            if items is NotImplemented:
                raise Unsupported('comprehension over %r' % (it,))
            for x in items:
                self.assign_local(g.target, x, cfr)
                ok = True
                for c in g.ifs:
                    if not self.is_true(self.eval(c, cfr)):
                        ok = False
                        break
                if ok:
                    rec(i + 1, cfr)
        cfr = Frame(fr.func, fr.module, {}, fr, selfcls=fr.selfcls)
        cfr.cm_bodies = fr.cm_bodies
        # comprehension frame: keep `func` for qualname purposes but its own locals
        cfr.is_comp = True
        rec(0, cfr)

    def assign_local(self, t, v, cfr):
        if isinstance(t, ast.Name):
            cfr.locals[t.id] = v
        elif isinstance(t, (ast.Tuple, ast.List)):
            items = self.unpack(v, len(t.elts), t)
            for e, x in zip(t.elts, items):
                self.assign_local(e, x, cfr)
        else:
            raise Unsupported('comprehension target')

    def ex_ListComp(self, e, fr):
        r = self.env.symbolic_comprehension(self, e, fr)
        if r is not NotImplemented:
            return r
        out = []
        self.comp_run(e.generators, fr, lambda cfr: out.append(self.eval(e.elt, cfr)))
        return out

    def ex_GeneratorExp(self, e, fr):
        r = self.env.symbolic_comprehension(self, e, fr)
        if r is not NotImplemented:
            return r
        out = []
        self.comp_run(e.generators, fr, lambda cfr: out.append(self.eval(e.elt, cfr)))
        return IterV(out)

    def ex_SetComp(self, e, fr):
        out = []
        self.comp_run(e.generators, fr, lambda cfr: out.append(self.eval(e.elt, cfr)))
        return self.env.make_set(self, out)

    def ex_DictComp(self, e, fr):
        r = self.env.symbolic_comprehension(self, e, fr)
        if r is not NotImplemented:
            return r
        out = {}

        def emit(cfr):
            k = self.eval(e.key, cfr)
            out[k] = self.eval(e.value, cfr)
        self.comp_run(e.generators, fr, emit)
        return out

    def ex_Starred(self, e, fr):
        self.unsupported(e, 'starred')


# ------------------------------------------------------------------ program loading
class Program:
    """The repository modules, parsed from the working tree on every run."""

    def __init__(self, repo='/repo', package='diskcache'):
        self.repo = repo
        self.package = package
        self.modules = {}
        self.sources = {}

    def parse(self, short):
        import os
        path = os.path.join(self.repo, self.package, short + '.py')
        src = open(path, encoding='utf-8').read()
        tree = ast.parse(src, filename=path)
        return Module(self.package + '.' + short, path, tree, src)

    def load(self, interp_factory, short):
        """Execute module top level with a concrete-mode interpreter."""
        name = self.package + '.' + short
        if name in self.modules:
            return self.modules[name]
        mod = self.parse(short)
        self.modules[name] = mod
        it = interp_factory()
        fr = Frame(None, mod, mod.globals)
        mod.globals['__name__'] = name
        it.exec_block(mod.tree.body, fr)
        return mod

    def func(self, qualname):
        """Find a FuncVal by 'diskcache.core.Disk.put' style name."""
        parts = qualname.split('.')
        modname = '.'.join(parts[:2])
        mod = self.modules[modname]
        v = mod.globals[parts[2]]
        for p in parts[3:]:
            if isinstance(v, ClassInfo):
                v = v.attrs[p]
            else:
                raise KeyError(qualname)
        if isinstance(v, PropertyVal):
            v = v.fget
        if isinstance(v, ClassMethodVal):
            v = v.func
        return v

"""Re-run the native replay recorded in a replay file: replay_file.py <path>"""
import json, sys, os
sys.path.insert(0, os.path.dirname(os.path.abspath(__file__)))
sys.path.insert(0, os.environ.get('VERIF_REPO', '/repo'))
import replays
d = json.load(open(sys.argv[1]))
rec = (d.get('replay') or {}).get('recipe')
if not rec:
    print('no concrete input in this replay file; obligation:', d['obligation'], d.get('detail'))
    sys.exit(0)
print(json.dumps(getattr(replays, rec['func'])(rec), default=repr))

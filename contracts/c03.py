"""C03 / C04 / C09 (single-item part) -- Cache is an exact dictionary with expiry, tags, statistics.

The real bodies of Cache.set, add, touch, incr, decr, get, __getitem__, read,
__contains__, pop, __delitem__, delete, _row_insert, _row_update, _transact and
_cull are executed from /repo against the symbolic table model; for every
fault-free path the obligation is the REFINEMENT step: representation
invariant and `result = ref_op(D).result  and  table' = ref_op(D).state`, where
the reference operations below are written from the property statements
(visible(row, t) <=> no expiry or t < expire_time; overwrite keeps the insertion
position; incr keeps expiry/tag of a live item; ...).  Every finite history
follows by induction.  Lazy culling is specified as a relation (cull_rel):
only expired rows, plus -- only at the size limit, only under an evicting
policy, only in policy order -- evicted rows, at most cull_limit in total.

Obligation names carry the property they serve (C03 refine/frame, C04
live_iff_visible / expire_time, C09 cull).
"""
import z3

from pyvc.check import Result, discharge
from pyvc.engine import explore, Unsupported
from pyvc import sqlmodel as SM
from pyvc.sqlmodel import DbVal, SUM
from pyvc.env import int_term, real_term
from contracts.cache_common import *   # noqa
from contracts import cache_common as cc

_I, _B = z3.IntSort(), z3.BoolSort()
ORDER_COL = {'least-recently-stored': 'store_time', 'least-recently-used': 'access_time',
             'least-frequently-used': 'access_count'}


def clock_readings(st):
    return [e[1]['t'] for e in st.trace if e[0] == 'CLOCK']


def some_reading(st, f):
    ts = clock_readings(st)
    return z3.Or(*[f(t) for t in ts]) if ts else z3.BoolVal(False)


def world0(st):
    return st.ghost['T0']


def timeout_path(p):
    return p.kind == 'raise' and p.value.cls == 'Timeout'


def expire_time_spec(expire, t0):
    """C04: stored expiry = None when no ttl is given, else (reading taken at entry) + ttl."""
    isnone, inner = (expire.isnone, expire.inner.t) if isinstance(expire, Opt) else \
        ((z3.BoolVal(True), z3.RealVal(0)) if expire is None else (z3.BoolVal(False), real_term(expire)))
    return isnone, t0 + inner


def eq_world(w0, w1, keys=None):
    ks = keys or [k for k in w0 if k.startswith(('T.', 'S.'))]
    return z3.And(*[w1[k] == w0[k] for k in ks])


def row_is(w, r, cols):
    """Row r of w has the given cells (dict col -> (isnull, term) or term)."""
    parts = []
    for c, v in cols.items():
        if SM.COLS[c][1]:
            isn, t = v
            parts.append(z3.Select(w['T.' + c + '?'], r) == isn)
            parts.append(z3.Implies(z3.Not(isn), z3.Select(w['T.' + c], r) == t))
        else:
            parts.append(z3.Select(w['T.' + c], r) == v)
    return z3.And(*parts)


def others_unchanged(w0, w1, r, removed=None):
    """Every row other than r keeps its cells; it stays live unless removed[q]."""
    q = z3.Int('q_oth')
    parts = []
    for c in SM.COLS:
        parts.append(z3.Select(w1['T.' + c], q) == z3.Select(w0['T.' + c], q))
        if SM.COLS[c][1]:
            parts.append(z3.Select(w1['T.' + c + '?'], q) == z3.Select(w0['T.' + c + '?'], q))
    live = z3.Select(w0['T.live'], q) if removed is None else z3.And(z3.Select(w0['T.live'], q), z3.Not(z3.Select(removed, q)))
    parts.append(z3.Select(w1['T.live'], q) == live)
    cond = q != r if r is not None else z3.BoolVal(True)
    return z3.ForAll([q], z3.Implies(cond, z3.And(*parts)))


# ------------------------------------------------------------------ cull relation (C03 / C04 / C09)
def volume_reading(st, selfv):
    """The value Cache.volume() returned on this path: page_size * page_count + Settings.size."""
    pcs = [e[1]['value'] for e in st.trace if e[0] == 'PAGE_COUNT']
    szs = [e[1]['value'] for e in st.trace if e[0] == 'RESET_READ' and e[1]['key'] == 'size']
    if len(pcs) != 1 or len(szs) != 1:
        return None
    return int_term(selfv.fields['_page_size']) * pcs[0] + int_term(szs[0])


def removed_sets(st):
    """Witness for the set of rows removed by lazy culling on this path: (expired page, policy page)."""
    pages = [e[1] for e in st.trace if e[0] == 'DELETE_SET']
    return pages


def cull_rel_goal(st, self_fields, w_mid, w1, now, pages, volume_reading):
    """Relation between the table before (w_mid) and after (w1) lazy culling, given the deleted pages."""
    q = z3.Int('q_cull')
    policy = self_fields['eviction_policy']
    cull_limit = int_term(self_fields['cull_limit'])
    R = z3.BoolVal(False)
    total = z3.IntVal(0)
    parts = []
    for pg in pages:
        R = z3.Or(R, z3.Select(pg['member'], q))
        total = total + pg['count']
    # liveness: exactly the removed rows disappear; cells unchanged
    parts.append(z3.ForAll([q], z3.Select(w1['T.live'], q) == z3.And(z3.Select(w_mid['T.live'], q), z3.Not(R))))
    for c in SM.COLS:
        parts.append(w1['T.' + c] == w_mid['T.' + c])
    parts.append(z3.And(total >= 0, total <= cull_limit))
    parts.append(w1['T.card'] == w_mid['T.card'] - total)
    # what may be removed
    exp_ok = lambda x: z3.And(z3.Not(z3.Select(w_mid['T.expire_time?'], x)), z3.Select(w_mid['T.expire_time'], x) < now)
    for i, pg in enumerate(pages):
        why = pg['why']
        m = z3.Select(pg['member'], q)
        if why == 'expired':
            parts.append(z3.ForAll([q], z3.Implies(m, z3.And(z3.Select(w_mid['T.live'], q), exp_ok(q)))))
        elif why == 'policy':
            if policy == 'none':
                parts.append(z3.BoolVal(False))
                continue
            col = 'T.' + ORDER_COL[policy]
            q2 = z3.Int('q_cull2')
            keep = z3.Select(w1['T.live'], q2)
            parts.append(z3.ForAll([q, q2], z3.Implies(z3.And(m, keep),
                                                      z3.Select(w_mid[col], q) <= z3.Select(w_mid[col], q2))))
            # only at the size limit
            parts.append(volume_reading is not None and volume_reading >= int_term(self_fields['size_limit']))
        else:
            parts.append(z3.BoolVal(False))
    return z3.And(*[p if not isinstance(p, bool) else z3.BoolVal(p) for p in parts])


# ------------------------------------------------------------------ method harness
def build_args(st, method):
    key = sym_key(st)
    a = {'key': key}
    if method in ('set', 'add'):
        a['value'] = sym_value(st)
        a['expire'] = Opt(st.fresh('expire_none', _B), st.fresh_sv('expire', 'real'))
        a['read'] = False
        a['tag'] = cc.DbCell(st.fresh('tag', DbVal))
        a['retry'] = st.fresh_sv('retry', 'bool')
    elif method == 'touch':
        a['expire'] = Opt(st.fresh('expire_none', _B), st.fresh_sv('expire', 'real'))
        a['retry'] = st.fresh_sv('retry', 'bool')
    elif method in ('incr', 'decr'):
        a['delta'] = st.fresh_sv('delta', 'int')
        a['default'] = Opt(st.fresh('default_none', _B), st.fresh_sv('default', 'int'))
        a['retry'] = st.fresh_sv('retry', 'bool')
    elif method == 'get':
        a['default'] = Opaque('other', st.fresh('default', OTHER))
        a['read'] = False
        a['expire_time'] = st.fresh_sv('want_expire_time', 'bool')
        a['tag'] = st.fresh_sv('want_tag', 'bool')
        a['retry'] = st.fresh_sv('retry', 'bool')
    elif method == 'pop':
        a['default'] = Opaque('other', st.fresh('default', OTHER))
        a['expire_time'] = st.fresh_sv('want_expire_time', 'bool')
        a['tag'] = st.fresh_sv('want_tag', 'bool')
        a['retry'] = st.fresh_sv('retry', 'bool')
    elif method in ('delete',):
        a['retry'] = st.fresh_sv('retry', 'bool')
    elif method == 'push':
        del a['key']
        a['value'] = sym_value(st)
        a['prefix'] = None
        a['side'] = 'back'
        a['expire'] = Opt(st.fresh('expire_none', _B), st.fresh_sv('expire', 'real'))
        a['read'] = False
        a['tag'] = cc.DbCell(st.fresh('tag', DbVal))
        a['retry'] = st.fresh_sv('retry', 'bool')
    return a


def files_agree(w):
    """Quiescent agreement (C08) assumed at entry: every file-backed row names an existing, complete
    file of the recorded size."""
    r = z3.Int('r_fa')
    fn = z3.Select(w['T.filename'], r)
    return z3.ForAll([r], z3.Implies(z3.And(z3.Select(w['T.live'], r), z3.Not(z3.Select(w['T.filename?'], r))),
                                     z3.And(z3.Select(w['F.exists'], fn), z3.Select(w['F.complete'], fn),
                                            z3.Select(w['F.size'], fn) == z3.Select(w['T.size'], r))))


def run_method(method, policy, statistics=None, nested=False):
    ctx = cctx()
    ctx.sql.busy = True
    ctx.sql.faults = False

    def run(st):
        it = ctx.interp(st)
        cache = make_cache(ctx, st, policy=policy, statistics=statistics, nested=nested)
        st.assume(files_agree(st.world))
        a = build_args(st, method)
        st.ghost['args'] = a
        st.ghost['self'] = cache
        fv = ctx.func('diskcache.core.Cache.' + method)
        return it.call(fv, [cache], dict(a))
    return explore(run, max_paths=3000)


def check_common(pid, method, p, out, tag):
    """Invariant preservation + Timeout leaves no trace; returns True when the path needs a refine check."""
    st = p.state
    w0, w1 = world0(st), st.world
    base = '%s.%s%s' % (pid, method, tag)
    fn = 'Cache.' + method
    if p.kind == 'cut':
        return False
    if timeout_path(p):
        # C14: nothing changed
        goal = eq_world(w0, w1)
        out.append(discharge(base + '.timeout_no_effect', 'raises', p.pc, goal, function=fn, path=p.decisions))
        return False
    for nm, part in SM.invariant(w1, named=True):
        out.append(discharge(base + '.inv_preserved.' + nm, 'refine', p.pc, part, function=fn, path=p.decisions))
    return True


def stored_columns(st):
    s = [e[1] for e in st.trace if e[0] == 'STORE']
    return s


# ---- individual reference operations -------------------------------------------------------------
def ref_touch(p, a):
    st = p.state
    w0, w1 = world0(st), st.world
    ko = a['key'].t
    r = cc.lookup(w0, ko)
    t0 = clock_readings(st)[0]
    vis = z3.And(r != 0, cc.visible(w0, r, t0))
    isn, et = expire_time_spec(a['expire'], t0)
    if p.kind != 'return':
        return z3.BoolVal(False)
    changed = z3.And(w1['T.expire_time?'] == z3.Store(w0['T.expire_time?'], r, isn),
                     z3.Implies(z3.Not(isn), z3.Select(w1['T.expire_time'], r) == et),
                     others_unchanged(w0, w1, r),
                     *[w1['T.' + c] == w0['T.' + c] for c in SM.COLS if c != 'expire_time'],
                     w1['T.live'] == w0['T.live'], w1['T.idx'] == w0['T.idx'],
                     *[w1['S.' + s] == w0['S.' + s] for s in SM.SETTINGS])
    yes, no = z3.And(vis, changed), z3.And(z3.Not(vis), eq_world(w0, w1))
    if p.value is True:
        return yes
    if p.value is False:
        return no
    if isinstance(p.value, SV) and p.value.ty == 'bool':
        return z3.If(p.value.t, yes, no)        # a result computed from the database (e.g. a row count)
    if isinstance(p.value, z3.BoolRef):
        return z3.If(p.value, yes, no)
    return z3.BoolVal(False)


def ref_contains(p, a):
    st = p.state
    w0, w1 = world0(st), st.world
    r = cc.lookup(w0, a['key'].t)
    ts = clock_readings(st)
    if p.kind != 'return' or not ts:
        return z3.BoolVal(False)
    vis = z3.And(r != 0, cc.visible(w0, r, ts[-1]))
    res = p.value
    resb = z3.BoolVal(res) if isinstance(res, bool) else res.t
    return z3.And(resb == vis, eq_world(w0, w1))


def value_shape(p, a, value_term, exp_cell, tag_cell):
    """get/pop return (value[, expire_time][, tag]) according to the flags."""
    want_e, want_t = a['expire_time'], a['tag']
    v = p.value

    def flag(x):
        return x.t if isinstance(x, SV) else z3.BoolVal(bool(x))
    fe, ft = flag(want_e), flag(want_t)
    if isinstance(v, tuple):
        if len(v) == 3:
            return z3.And(fe, ft, to_pyobj(v[0]) == value_term, exp_cell(v[1]), tag_cell(v[2]))
        if len(v) == 2:
            return z3.Or(z3.And(fe, z3.Not(ft), to_pyobj(v[0]) == value_term, exp_cell(v[1])),
                         z3.And(ft, z3.Not(fe), to_pyobj(v[0]) == value_term, tag_cell(v[1])))
        return z3.BoolVal(False)
    po = to_pyobj(v)
    if po is None:
        return z3.BoolVal(False)
    return z3.And(z3.Not(fe), z3.Not(ft), po == value_term)


def default_shape(p, a):
    d = a['default']
    v = p.value

    def flag(x):
        return x.t if isinstance(x, SV) else z3.BoolVal(bool(x))
    fe, ft = flag(a['expire_time']), flag(a['tag'])
    if isinstance(v, tuple):
        if len(v) == 3:
            return z3.And(fe, ft, z3.BoolVal(v[0] is d and v[1] is None and v[2] is None))
        if len(v) == 2:
            return z3.And(z3.Or(fe, ft), z3.Not(z3.And(fe, ft)), z3.BoolVal(v[0] is d and v[1] is None))
        return z3.BoolVal(False)
    return z3.And(z3.Not(fe), z3.Not(ft), z3.BoolVal(v is d))


def cell_matches(w, r, col):
    def f(v):
        if col == 'expire_time':
            isn = z3.Select(w['T.expire_time?'], r)
            if v is None:
                return isn
            if isinstance(v, Opt) and isinstance(v.inner, SV) and v.inner.ty == 'real':
                return z3.And(v.isnone == isn, z3.Implies(z3.Not(isn), v.inner.t == z3.Select(w['T.expire_time'], r)))
            if isinstance(v, SV) and v.ty == 'real':
                return z3.And(z3.Not(isn), v.t == z3.Select(w['T.expire_time'], r))
            return z3.BoolVal(False)
        t = z3.Select(w['T.tag'], r)
        if v is None:
            return DbVal.is_Null(t)
        if isinstance(v, cc.DbCell):
            return v.t == t
        return z3.BoolVal(False)
    return f


def ref_get(p, a, selfv):
    st = p.state
    w0, w1 = world0(st), st.world
    policy = selfv.fields['eviction_policy']
    stats = selfv.fields['statistics']
    statb = stats.t != 0 if isinstance(stats, SV) else z3.BoolVal(bool(stats))
    r = cc.lookup(w0, a['key'].t)
    ts = clock_readings(st)
    if p.kind != 'return' or not ts:
        return z3.BoolVal(False)
    t = ts[0]
    vis = z3.And(r != 0, cc.visible(w0, r, t))
    hit_val = value_shape(p, a, cc.row_value(w0, r), cell_matches(w0, r, 'expire_time'), cell_matches(w0, r, 'tag'))
    miss_val = default_shape(p, a)
    # metadata / statistics
    same_cols = lambda skip: [w1['T.' + c] == w0['T.' + c] for c in SM.COLS if c not in skip] + \
        [w1['T.' + c + '?'] == w0['T.' + c + '?'] for c in SM.COLS if SM.COLS[c][1]] + \
        [w1['T.live'] == w0['T.live'], w1['T.idx'] == w0['T.idx'], w1['T.card'] == w0['T.card'],
         w1['S.count'] == w0['S.count'], w1['S.size'] == w0['S.size']]
    if policy == 'least-recently-used':
        tl = ts[-1]
        meta_hit = z3.And(w1['T.access_time'] == z3.Store(w0['T.access_time'], r, tl), *same_cols({'access_time'}))
    elif policy == 'least-frequently-used':
        meta_hit = z3.And(w1['T.access_count'] == z3.Store(w0['T.access_count'], r, z3.Select(w0['T.access_count'], r) + 1),
                          *same_cols({'access_count'}))
    else:
        meta_hit = z3.And(*same_cols(set()))
    stat_hit = z3.And(w1['S.hits'] == w0['S.hits'] + z3.If(statb, 1, 0), w1['S.misses'] == w0['S.misses'])
    stat_miss = z3.And(w1['S.misses'] == w0['S.misses'] + z3.If(statb, 1, 0), w1['S.hits'] == w0['S.hits'])
    return z3.Or(z3.And(vis, hit_val, meta_hit, stat_hit),
                 z3.And(z3.Not(vis), miss_val, z3.And(*same_cols(set())), stat_miss))


def ref_delete_like(p, a, method):
    """pop / __delitem__ / delete."""
    st = p.state
    w0, w1 = world0(st), st.world
    r = cc.lookup(w0, a['key'].t)
    ts = clock_readings(st)
    if not ts:
        return z3.BoolVal(False)
    vis = z3.And(r != 0, cc.visible(w0, r, ts[0]))
    removed = z3.And(w1['T.live'] == z3.Store(w0['T.live'], r, z3.BoolVal(False)),
                     others_unchanged(w0, w1, r),
                     w1['T.card'] == w0['T.card'] - 1,
                     w1['S.hits'] == w0['S.hits'], w1['S.misses'] == w0['S.misses'],
                     cc.lookup(w1, a['key'].t) == 0)
    same = eq_world(w0, w1)
    if method == 'pop':
        if p.kind != 'return':
            return z3.BoolVal(False)
        hit = value_shape(p, a, cc.row_value(w0, r), cell_matches(w0, r, 'expire_time'), cell_matches(w0, r, 'tag'))
        return z3.Or(z3.And(vis, removed, hit), z3.And(z3.Not(vis), same, default_shape(p, a)))
    if method == '__delitem__':
        if p.kind == 'return':
            return z3.And(vis, removed, z3.BoolVal(p.value is True))
        if p.kind == 'raise' and p.value.cls == 'KeyError':
            return z3.And(z3.Not(vis), same)
        return z3.BoolVal(False)
    if method == 'delete':
        if p.kind != 'return':
            return z3.BoolVal(False)
        if p.value is True:
            return z3.And(vis, removed)
        if p.value is False:
            return z3.And(z3.Not(vis), same)
    return z3.BoolVal(False)


def upsert_goal(p, a, selfv, cols_spec, r, present, w0, w1):
    """After set / add / incr(missing): entry for the key has the given cells; an existing entry keeps its
    rowid (insertion position); a new entry gets a rowid above all existing ones; every other row is
    unchanged or removed by culling (cull_rel)."""
    st = p.state
    ko = a['key'].t
    pages = removed_sets(st)
    q = z3.Int('q_up')
    R = lambda x: z3.Or(*[z3.Select(pg['member'], x) for pg in pages]) if pages else z3.BoolVal(False)
    ins = [e[1] for e in st.trace if e[0] == 'INSERT']
    t0 = clock_readings(st)[0]
    if present:
        rr = r
        pos = z3.BoolVal(not ins)
    else:
        if len(ins) != 1:
            return z3.BoolVal(False)
        rr = ins[0]['rowid']
        pos = z3.ForAll([q], z3.Implies(z3.Select(w0['T.live'], q), q < rr))
    # the entry itself: present with the specified cells unless it was itself culled
    entry = z3.Or(R(rr), z3.And(z3.Select(w1['T.live'], rr), row_is(w1, rr, cols_spec),
                                SM.key_norm(z3.Select(w1['T.key'], rr)) == SM.key_norm(cc.KPUT(ko)),
                                z3.Select(w1['T.raw'], rr) == cc.RPUT(ko)))
    # frame: all other rows unchanged, except culled ones
    frame = []
    for c in SM.COLS:
        frame.append(z3.ForAll([q], z3.Implies(q != rr, z3.Select(w1['T.' + c], q) == z3.Select(w0['T.' + c], q))))
    frame.append(z3.ForAll([q], z3.Implies(q != rr, z3.Select(w1['T.live'], q) ==
                                           z3.And(z3.Select(w0['T.live'], q), z3.Not(R(q))))))
    # culling obeys its relation w.r.t. the table right after the write
    total = sum([pg['count'] for pg in pages], z3.IntVal(0))
    exp_now = lambda x, w: z3.And(z3.Not(z3.Select(w['T.expire_time?'], x)), z3.Select(w['T.expire_time'], x) < t0)
    culls = [z3.And(total >= 0, total <= int_term(selfv.fields['cull_limit']))]
    vol = volume_reading(st, selfv)
    for pg in pages:
        m = lambda x, pg=pg: z3.Select(pg['member'], x)
        if pg['why'] == 'expired':
            culls.append(z3.ForAll([q], z3.Implies(m(q), exp_now(q, w1))))
        else:
            policy = selfv.fields['eviction_policy']
            if policy == 'none' or vol is None:
                culls.append(z3.BoolVal(False))
            else:
                col = 'T.' + ORDER_COL[policy]
                q2 = z3.Int('q_up2')
                culls.append(z3.ForAll([q, q2], z3.Implies(z3.And(m(q), z3.Select(w1['T.live'], q2)),
                                                          z3.Select(w1[col], q) <= z3.Select(w1[col], q2))))
                culls.append(vol >= int_term(selfv.fields['size_limit']))
    counters = [w1['S.hits'] == w0['S.hits'], w1['S.misses'] == w0['S.misses'],
                w1['T.card'] == w0['T.card'] + (0 if present else 1) - total]
    parts = [('position', pos), ('entry', entry)]
    parts += [('frame.%d' % i, f) for i, f in enumerate(frame)]
    parts += [('cull.%d' % i, f) for i, f in enumerate(culls)]
    parts += [('counters.%d' % i, f) for i, f in enumerate(counters)]
    return parts


def cols_from_store(st, a, t0, expire, tag):
    s = [e[1] for e in st.trace if e[0] == 'STORE']
    return s


def ref_set_add(p, a, selfv, method):
    st = p.state
    w0, w1 = world0(st), st.world
    ko = a['key'].t
    r = cc.lookup(w0, ko)
    ts = clock_readings(st)
    t0 = ts[0]
    if p.kind != 'return':
        return z3.BoolVal(False)
    isn, et = expire_time_spec(a['expire'], t0)
    vo = to_pyobj(a['value'])
    # the value cells are whatever Disk.store produced for this value (C01 contract): abstractly, the
    # row's value must fetch to the stored value
    present = st.ghost.get('present')       # decided from the path below
    vis = z3.And(r != 0, cc.visible(w0, r, t0))
    goals = []
    if method == 'add' and p.value is False:
        return z3.And(vis, eq_world(w0, w1))
    if p.value is not True:
        return z3.BoolVal(False)
    pre = z3.Not(vis) if method == 'add' else z3.BoolVal(True)
    was_present = any(e[0] == 'UPDATE' for e in st.trace)
    spec_cols = {'store_time': t0, 'expire_time': (isn, et), 'access_time': t0,
                 'access_count': z3.IntVal(0), 'tag': a['tag'].t}
    rr = r if was_present else None
    g = upsert_goal(p, a, selfv, spec_cols, r, was_present, w0, w1)
    rowid = r if was_present else [e[1] for e in st.trace if e[0] == 'INSERT'][0]['rowid']
    pages = removed_sets(st)
    culled = z3.Or(*[z3.Select(pg['member'], rowid) for pg in pages]) if pages else z3.BoolVal(False)
    value_ok = z3.Or(culled, cc.row_value(w1, rowid) == vo)
    present_ok = (r != 0) if was_present else (r == 0)
    return [('precondition', pre), ('presence', present_ok), ('value', value_ok)] + g


def ref_incr(p, a, selfv):
    st = p.state
    w0, w1 = world0(st), st.world
    ko = a['key'].t
    r = cc.lookup(w0, ko)
    t0 = clock_readings(st)[0]
    live = z3.And(r != 0, cc.visible(w0, r, t0))
    dflt = a['default']
    delta = a['delta'].t
    if p.kind == 'raise':
        if p.value.cls == 'KeyError':
            return z3.And(z3.Not(live), dflt.isnone, eq_world(w0, w1))
        if p.value.cls == 'TypeError':
            # defined only for values held natively as numbers
            v = z3.Select(w0['T.value'], r)
            return z3.And(live, z3.Not(z3.Or(DbVal.is_IntV(v), DbVal.is_RealV(v))), eq_world(w0, w1))
        if p.value.cls == 'OverflowError':
            return eq_world(w0, w1)      # rejected by sqlite; rolled back
        return z3.BoolVal(False)
    if p.kind != 'return':
        return z3.BoolVal(False)
    updated = any(e[0] == 'UPDATE' for e in st.trace)
    inserted = any(e[0] == 'INSERT' for e in st.trace)
    res = p.value
    if inserted or (updated and any(e[0] == 'STORE' for e in st.trace)):
        # missing or expired: default + delta stored with no expiry and no tag
        spec_cols = {'store_time': t0, 'expire_time': (z3.BoolVal(True), z3.RealVal(0)), 'access_time': t0,
                     'access_count': z3.IntVal(0), 'tag': DbVal.Null}
        g = upsert_goal(p, a, selfv, spec_cols, r, updated, w0, w1)
        return [('not_live', z3.Not(live)), ('default_given', z3.Not(dflt.isnone)),
                ('result', int_term(res) == dflt.inner.t + delta),
                ('presence', (r != 0) if updated else (r == 0))] + g
    # live item: value + delta, expiry and tag kept, store_time refreshed (and recency / frequency like a read)
    v0 = z3.Select(w0['T.value'], r)
    policy = selfv.fields['eviction_policy']
    changed = {'store_time', 'value'}
    parts = [live, w1['T.store_time'] == z3.Store(w0['T.store_time'], r, t0)]
    if isinstance(res, SV) and res.ty == 'int':
        parts += [DbVal.is_IntV(v0), res.t == DbVal.iv(v0) + delta,
                  w1['T.value'] == z3.Store(w0['T.value'], r, DbVal.IntV(res.t))]
    elif isinstance(res, SV) and res.ty == 'real':
        parts += [DbVal.is_RealV(v0), res.t == DbVal.rv(v0) + z3.ToReal(delta),
                  w1['T.value'] == z3.Store(w0['T.value'], r, DbVal.RealV(res.t))]
    else:
        return z3.BoolVal(False)
    if policy == 'least-recently-used':
        changed.add('access_time')
        parts.append(w1['T.access_time'] == z3.Store(w0['T.access_time'], r, t0))
    elif policy == 'least-frequently-used':
        changed.add('access_count')
        parts.append(w1['T.access_count'] == z3.Store(w0['T.access_count'], r, z3.Select(w0['T.access_count'], r) + 1))
    for c in SM.COLS:
        if c not in changed:
            parts.append(w1['T.' + c] == w0['T.' + c])
        if SM.COLS[c][1]:
            parts.append(w1['T.' + c + '?'] == w0['T.' + c + '?'])
    parts += [w1['T.live'] == w0['T.live'], w1['T.idx'] == w0['T.idx'], w1['T.card'] == w0['T.card'],
              w1['S.hits'] == w0['S.hits'], w1['S.misses'] == w0['S.misses']]
    return z3.And(*parts)


# ------------------------------------------------------------------ task
SERVES = {'touch': 'C03', 'set': 'C03', 'add': 'C03', 'incr': 'C03', 'decr': 'C03', 'get': 'C03', 'pop': 'C03',
          '__delitem__': 'C03', 'delete': 'C03', '__contains__': 'C03'}


def method_task(pid, method, policy, nested=False):
    paths = run_method(method, policy, nested=nested)
    out = []
    tag0 = '[%s%s]' % (policy, ',nested' if nested else '')
    nrefine = 0
    for n, p in enumerate(paths):
        tag = '%s#%d' % (tag0, n)
        st = p.state
        a = st.ghost.get('args')
        selfv = st.ghost.get('self')
        for o in st.obligations:
            out.append(discharge('%s.%s%s/%s' % (pid, method, tag, o.name), o.kind, o.pc, o.goal,
                                 function='Cache.' + method, path=p.decisions))
        if not check_common(pid, method, p, out, tag):
            continue
        nrefine += 1
        if method == 'touch':
            g = ref_touch(p, a)
        elif method == '__contains__':
            g = ref_contains(p, a)
        elif method == 'get':
            g = ref_get(p, a, selfv)
        elif method in ('pop', '__delitem__', 'delete'):
            g = ref_delete_like(p, a, method)
        elif method in ('set', 'add'):
            g = ref_set_add(p, a, selfv, method)
        elif method == 'incr':
            g = ref_incr(p, a, selfv)
        else:
            raise Unsupported('no reference operation for %s' % method)
        info = 'result %s %r; effects %s' % (p.kind, p.value, [e[0] for e in st.trace if e[0] in (
            'INSERT', 'UPDATE', 'DELETE', 'DELETE_SET', 'SELECT_PAGE', 'STORE')])
        parts = g if isinstance(g, list) else [('all', g)]
        for nm, f in parts:
            r = discharge('%s.%s%s.refine.%s' % (pid, method, tag, nm), 'refine', p.pc, f,
                          function='Cache.' + method, path=p.decisions)
            if r['verdict'] != 'proved':
                r['detail'] = info
            out.append(r)
    if nrefine == 0:
        out.append(Result('%s.%s%s' % (pid, method, tag0), 'vacuity', 'error', detail='no fault-free path'))
    return out


METHODS = ['touch', '__contains__', 'get', 'pop', '__delitem__', 'delete', 'set', 'add', 'incr']


def dependency_tasks(pid, methods, policy='least-recently-stored', tier='quick'):
    """The dictionary contracts of the Cache methods that a higher layer (recipes, Index, DjangoCache, memoize)
    is verified AGAINST, re-run under that property's name: a change inside Cache.<method> that breaks the
    contract the layer relies on is then reported by the layer's own check too."""
    pols = [policy] if tier == 'quick' or policy == 'none' else POLICIES     # thorough: every eviction policy
    ts = [('contracts.c03', 'method_task', (pid, m, pol)) for m in methods for pol in pols]
    # ... and the file side of the value-bearing writes (C08's trace obligations: the new value file is
    # referenced by the committed row or removed, the replaced one is removed after the commit); they come back
    # named C08.* and are renamed by dependency_rename
    pol8 = 'least-recently-stored'
    ts += [('contracts.traces', 'trace_obligations', ('C08', m, pol8, False)) for m in methods if m in ('set', 'add', 'incr')]
    return ts


def dependency_rename(pid, results):
    out = []
    import json
    import os
    import re
    from pyvc.check import Result as _R
    kf = json.load(open(os.path.join(os.path.dirname(os.path.dirname(os.path.abspath(__file__))), 'known_findings.json')))
    known = [f['obligation'] for f in kf['findings'] if f['property'] == 'C08']

    def is_known(name):
        return any(re.search(pat[3:], name) if pat.startswith('re:') else name.startswith(pat) for pat in known)
    for r in results:
        if r['name'].startswith('C08.') and pid != 'C08':
            if is_known(r['name']):
                continue        # the part of these obligations that fails is C08's recorded finding; it stays with C08
            r = _R(pid + '.files.' + r['name'][4:], r['kind'], r['verdict'], **{k: v for k, v in r.items() if k not in ('name', 'kind', 'verdict')})
        out.append(r)
    return out


# clauses not yet under contract (bulk removal, iteration, queue operations) are covered by the bounded
# native stand-in on every run; it is listed under coverage.bounded and never counted as proved
ALWAYS_STANDIN = True


def tasks(tier):
    ts = []
    for m in METHODS:
        for pol in POLICIES:
            ts.append(('contracts.c03', 'method_task', ('C03', m, pol)))
    ts += bulk_tasks('C03')
    ts += [('contracts.c10', 'peekitem_task', ('C03', True)), ('contracts.c10', 'peekitem_task', ('C03', False)),
           ('contracts.c10', 'accessors_task', ('C03',)),
           ('contracts.iteration', 'iter_task', ('C03', True)), ('contracts.iteration', 'iter_task', ('C03', False)),
           ('contracts.iteration', 'iterkeys_task', ('C03', False)), ('contracts.iteration', 'iterkeys_task', ('C03', True)),
           ('contracts.iteration', 'dbval_order_lemma', ())]
    return ts


def meta(results, tier):
    return {'functions': {'verified_bodies': ['diskcache.core.Cache.' + m for m in METHODS +
                                              ['_transact', '_row_insert', '_row_update', '_cull', 'volume']],
                          'assumed_contracts': ['Disk.put/get/store/fetch/remove (proved in C01/C02)',
                                                'Cache.reset (metadata reload/write)'],
                          'inlined': ['_row_insert', '_row_update', '_cull', '_transact', 'volume']},
            'assumptions': ['single client, no faults (faults: C08/C14)', 'clock readings positive and non-decreasing; floats as reals',
                            'A-SQL-det for DELETE ... IN (identical SELECT)', 'finite-sum arithmetic for SUM(size)',
                            'quiescent agreement of rows and files at entry (C08)'],
            'explanation': 'per-method refinement of the reference dictionary on the symbolic table model, 4 eviction policies'}


def bulk_tasks(pid, kinds=('clear', 'evict', 'expire')):
    return [('contracts.bulk', 'bulk_task', (pid, k)) for k in kinds]

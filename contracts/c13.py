"""C13 -- a sharded cache is one cache with a fixed key->shard map.

Part 1 (this file, hash): Disk.hash against the released routing function,
purity, and respect of key equality.  Part 2: routing / aggregate obligations
of every FanoutCache method live in contracts/fanout_common.py and are added
to the task list below.
"""
import itertools
import z3

from pyvc.check import Result, discharge
from pyvc.engine import explore
from contracts.disk_common import *   # noqa
from contracts import fanout_common as fc

MASK = 0xFFFFFFFF


def spec_hash(cls, key, disk):
    """Released routing (also pinned by C18): adler32 of the blob / of the UTF-8
    text / of struct.pack('!d', x); native ints modulo 2**32 - 1."""
    pp = disk.fields['pickle_protocol'].t
    if cls == 'str':
        return L.adler32(L.utf8(key.t))
    if cls == 'bytes':
        return L.adler32(key.t)
    if cls == 'float':
        return L.adler32(L.pack_d(key.t))
    blob = L.adler32(L.optimize(L.dumps(to_pyobj(key), pp)))
    if cls == 'int':
        return z3.If(in_int64(key.t), key.t % (MASK), blob)
    return blob


def _consts(t, acc):
    if z3.is_const(t) and t.decl().kind() == z3.Z3_OP_UNINTERPRETED:
        acc.add(t.decl().name())
    for c in t.children():
        _consts(c, acc)
    return acc


def hash_spec(cls):
    ctx = context('core')
    info = {}

    def run(st):
        it = ctx.interp(st)
        disk = make_disk(ctx, st, 'Disk')
        key, _ = sym_value(cls, 'k')
        st.assume(z3.Not(is_nan_key(key)))
        info.update(key=key, disk=disk)
        return it.call(it.getattr(disk, 'hash'), [key], {})
    out = []
    for n, p in enumerate(explore(run)):
        name = 'C13.hash.spec[%s]#%d' % (cls, n)
        key, disk = info['key'], info['disk']
        if p.kind == 'raise':
            ok = p.value.cls in ('pickle.PicklingError', 'UnicodeEncodeError')
            out.append(Result(name, 'post', 'proved' if ok else 'refuted', ms=0, backend='engine',
                              function='Disk.hash', path=p.decisions,
                              detail='raises %s' % p.value.cls))
            continue
        goal = int_term(p.value) == spec_hash(cls, key, disk)

        def rep(model, key=key):
            return {'recipe': {'func': 'c13_hash_pin', 'key': py_literal(model, key)}}
        out.append(discharge(name, 'format-pin', p.pc, goal, function='Disk.hash', path=p.decisions, replay=rep))
        # purity: the result mentions nothing but the key and the pickle protocol
        allowed = {'k', str(disk.fields['pickle_protocol'].t)}
        used = _consts(z3.simplify(int_term(p.value)), set())
        extra = sorted(used - allowed)
        impure = [e for e in p.state.trace if e[0] not in ('PUT_DONE',)]
        out.append(Result('C13.hash.pure[%s]#%d' % (cls, n), 'frame', 'proved' if not extra and not impure else 'refuted',
                          ms=0, backend='engine', function='Disk.hash', path=p.decisions,
                          detail=None if not extra and not impure else 'depends on %s effects %s' % (extra, impure)))
    if not out:
        out.append(Result('C13.hash.spec[%s]' % cls, 'vacuity', 'error', detail='no paths'))
    return out


def hash_respects_equality(c1, c2):
    ctx = context('core')
    info = {}

    def run(st):
        it = ctx.interp(st)
        disk = make_disk(ctx, st, 'Disk')
        k1, _ = sym_value(c1, 'k1')
        k2, _ = sym_value(c2, 'k2')
        st.assume(z3.Not(is_nan_key(k1)))
        st.assume(z3.Not(is_nan_key(k2)))
        info['k'] = (k1, k2)
        h1 = it.call(it.getattr(disk, 'hash'), [k1], {})
        h2 = it.call(it.getattr(disk, 'hash'), [k2], {})
        return h1, h2
    out = []
    n = 0
    for p in explore(run):
        if p.kind != 'return':
            continue
        h1, h2 = p.value
        k1, k2 = info['k']
        spec = spec_key_equal(c1, k1, c2, k2)
        base = 'C13.hash.respects_key_equality[%s x %s]#%d' % (c1, c2, n)
        n += 1
        goal = z3.Implies(spec, int_term(h1) == int_term(h2))

        def rep(model, k1=k1, k2=k2):
            return {'recipe': {'func': 'c13_hash_equal', 'k1': py_literal(model, k1), 'k2': py_literal(model, k2)}}
        out.append(discharge(base, 'post', p.pc, goal, function='Disk.hash', path=p.decisions, replay=rep))
        if {c1, c2} <= {'int', 'float'} and 'float' in (c1, c2):
            # residual of KF-C13-hash-numeric: equal keys that are the same datum still agree
            same_datum = to_pyobj(k1) == to_pyobj(k2)
            out.append(discharge(base.replace('respects_key_equality', 'respects_key_equality.residual'),
                                 'post', p.pc, z3.Implies(z3.And(spec, same_datum), int_term(h1) == int_term(h2)),
                                 function='Disk.hash', path=p.decisions))
    if n == 0:
        out.append(Result('C13.hash.respects_key_equality[%s x %s]#rejected' % (c1, c2), 'post', 'proved',
                          ms=0, backend='engine', detail='no pair of this cell is hashable'))
    return out


def tasks(tier):
    ts = [('contracts.c13', 'hash_spec', (c,)) for c in KEY_CLASSES]
    for c1, c2 in itertools.combinations_with_replacement(KEY_CLASSES, 2):
        ts.append(('contracts.c13', 'hash_respects_equality', (c1, c2)))
    ts += fc.tasks_c13(tier)
    ts.append(('contracts.c13', 'init_hash', ()))
    # "the total size limit is divided among the shards": FanoutCache.__init__ (shard directories, forwarded
    # arguments, a given size_limit divided by the shard count) -- the construction contract of C18
    ts.append(('contracts.c18', 'fanout_init', ()))
    return ts


def post_process(results, tier):
    out = []
    for r in results:
        if r['name'].startswith('C18.'):
            if 'stored_settings_survive' in r['name']:
                continue        # persistence of stored settings is C18 (its recorded finding KF-C18-fanout-size-limit-reset)
            r = Result('C13.init.' + r['name'][4:], r['kind'], r['verdict'], **{k: v for k, v in r.items() if k not in ('name', 'kind', 'verdict')})
        out.append(r)
    return out


def meta(results, tier):
    return fc.meta_common('C13', results, tier, extra_functions=['diskcache.core.Disk.hash', 'diskcache.core.Disk.put'])


def init_hash():
    """FanoutCache.__init__ takes its routing function from a shard's Disk.hash, unwrapped (no caching
    layer keyed on Python equality, no indirection that could differ between processes)."""
    from pyvc.engine import BoundMethod, FuncVal, Unsupported as U
    ctx = fc.fctx()
    out = []

    def hook(it, f, a, k):
        b = it.bind_args(f, a, k)
        selfv = b['self']
        disk = Obj(ctx.cls('diskcache.core.Disk'), {'_directory': b.get('directory')})
        selfv.fields['_disk'] = disk
        selfv.fields['_directory'] = b.get('directory')
        it.st.effect('INIT', bound=b)
        return None
    ctx.hooks['diskcache.core.Cache.__init__'] = hook
    try:
        def run(st):
            it = ctx.interp(st)
            obj = ctx.new_obj('diskcache.fanout.FanoutCache', {})
            it.call(ctx.func('diskcache.fanout.FanoutCache.__init__'), [obj, st.fresh_sv('dir', 'str'), 3], {})
            return obj
        for n, p in enumerate(explore(run)):
            name = 'C13.init.hash_is_disk_hash#%d' % n
            if p.kind != 'return':
                out.append(Result(name, 'delegate', 'refuted', ms=0, backend='engine', function='FanoutCache.__init__',
                                  detail='raises %r' % (p.value,)))
                continue
            h = p.value.fields.get('_hash')
            shards = p.value.fields.get('_shards')
            ok = isinstance(h, BoundMethod) and isinstance(h.func, FuncVal) and h.func.qualname == 'diskcache.core.Disk.hash' \
                and isinstance(shards, tuple) and len(shards) == 3 and h.self is shards[0].fields.get('_disk') \
                and p.value.fields.get('_count') == 3
            out.append(Result(name, 'delegate', 'proved' if ok else 'refuted', ms=0, backend='engine',
                              function='FanoutCache.__init__', path=p.decisions,
                              detail=None if ok else '_hash is %r, not the shard disk\'s hash method' % (h,)))
    except U as e:
        out.append(Result('C13.init.hash_is_disk_hash', 'delegate', 'unsupported', ms=0, detail=repr(e)))
    finally:
        ctx.hooks.pop('diskcache.core.Cache.__init__', None)
    return out

"""Cache-level harness: the real Cache methods run against
  * the symbolic table model (pyvc/sqlmodel.py) behind Cache._sql,
  * the Disk contracts proved in c01/c02 (put/get/store/fetch/remove as contracts),
  * ghost file system F (relative filename -> exists / complete / size).
"""
import z3

from pyvc.api import *          # noqa
from pyvc.engine import (explore, EnvFunc, Unsupported, PyRaise, raise_py, FuncVal, PropertyVal, ExcVal)
from pyvc import sqlmodel as SM
from pyvc.sqlmodel import DbVal, DbCell, Table, Sql, SUM
from pyvc.env import int_term, real_term
from contracts.disk_common import context

_I, _B = z3.IntSort(), z3.BoolSort()
KPUT = z3.Function('disk_put_key', PyObj, DbVal)
RPUT = z3.Function('disk_put_raw', PyObj, _B)
KGET = z3.Function('disk_get', DbVal, _B, PyObj)
FETCH = z3.Function('disk_fetch', _I, _B, STR, DbVal, PyObj)      # mode, filename is None, filename, value
A_SB = z3.ArraySort(STR, _B)
A_SI = z3.ArraySort(STR, _I)

POLICIES = ['none', 'least-recently-stored', 'least-recently-used', 'least-frequently-used']

_c = {}


def cctx():
    if 'c' not in _c:
        c = context('core')
        install(c)
        _c['c'] = c
    return _c['c']


def install(c):
    env = c.env
    c.sql = Sql(env, SM.read_triggers(c.program))
    env.obj_methods['Cursor'] = {'fetchall': lambda it, o, a, k: o.fields['rows']}
    env.obj_methods['DiskC'] = {'put': disk_put, 'get': disk_get, 'store': disk_store, 'fetch': disk_fetch,
                                'remove': disk_remove}
    sqlfn = EnvFunc('sql', c.sql.execute)
    c.hooks['diskcache.core.Cache._sql'] = lambda it, f, a, k: sqlfn
    c.hooks['diskcache.core.Cache._sql_retry'] = lambda it, f, a, k: sqlfn
    c.hooks['diskcache.core.Cache.reset'] = reset_contract
    # retry loop of _transact (BEGIN IMMEDIATE until it succeeds): nothing may change while waiting
    from pyvc.loops import LoopSpec

    def begin_retry_inv(it, fr, _):
        st = it.st
        snap = st.ghost.get('begin_retry_snapshot')
        cur = {k: v for k, v in st.world.items() if k.startswith(('T.', 'S.', 'F.'))}
        if snap is None:
            st.ghost['begin_retry_snapshot'] = cur
            return z3.BoolVal(True)
        same = all(k in cur and (cur[k] is snap[k] or (hasattr(cur[k], 'eq') and cur[k].eq(snap[k]))) for k in snap)
        return z3.BoolVal(bool(same and not st.world.get('txn.active')))

    class BeginRetry(LoopSpec):
        def havoc(self, it, s, fr):
            pass        # nothing is assigned before the loop is left; the world is pinned by the invariant

        def run(self, it, s, fr, iterable):
            it.st.ghost['begin_retry_snapshot'] = None
            return LoopSpec.run(self, it, s, fr, iterable)
    c.loop_invariants[('diskcache.core.Cache._transact', 0)] = BeginRetry('transact.begin_retry', begin_retry_inv)
    # DbCell values: equality / None tests
    base_eq = env.py_eq

    def py_eq(it, a, b):
        if isinstance(a, DbCell) or isinstance(b, DbCell):
            x, y = (a, b) if isinstance(a, DbCell) else (b, a)
            if y is None:
                return DbVal.is_Null(x.t)
            if isinstance(y, DbCell):
                return x.t == y.t
            return x.t == SM.to_dbval(it, y)
        return base_eq(it, a, b)
    env.py_eq = py_eq
    base_ident = None
    from pyvc.engine import Interp
    old_identical = Interp.identical

    def identical(self, a, b):
        if isinstance(a, DbCell) and b is None:
            return DbVal.is_Null(a.t)
        if isinstance(b, DbCell) and a is None:
            return DbVal.is_Null(b.t)
        return old_identical(self, a, b)
    Interp.identical = identical
    old_binop = env.binop

    def binop(it, op, a, b, inplace=False):
        if isinstance(a, DbCell) or isinstance(b, DbCell):
            return dbcell_arith(it, op, a, b)
        return old_binop(it, op, a, b, inplace)
    env.binop = binop
    old_truth = Interp.truth

    def truth(self, v):
        if isinstance(v, SM.SymSeq if False else ()):
            pass
        from pyvc.loops import SymSeq
        if isinstance(v, SymSeq):
            return v.n > 0
        return old_truth(self, v)
    Interp.truth = truth
    # ','.join(str(row[0]) for row in rows) over a fetched page -> IN-list hole
    old_comp = env.symbolic_comprehension

    def comp(it, e, fr):
        import ast as _ast
        from pyvc.loops import SymSeq
        if len(e.generators) == 1 and not e.generators[0].ifs:
            src = it.eval(e.generators[0].iter, fr)
            if isinstance(src, SymSeq) and src.tag == 'page':
                el = e.elt
                tgt = e.generators[0].target
                # shape: str(<target>[<const>])
                if (isinstance(el, _ast.Call) and getattr(el.func, 'id', '') == 'str' and len(el.args) == 1
                        and isinstance(el.args[0], _ast.Subscript) and isinstance(tgt, _ast.Name)
                        and getattr(el.args[0].value, 'id', None) == tgt.id
                        and isinstance(el.args[0].slice, _ast.Constant)):
                    col = src.stmt['cols'][el.args[0].slice.value]
                    return PageColumnStrs(src, col)
                raise Unsupported('comprehension over a fetched page: %s' % _ast.unparse(e))
        return old_comp(it, e, fr)
    env.symbolic_comprehension = comp
    old_join = env.vm_join

    def vm_join(it, o, a, k):
        if isinstance(a[0], PageColumnStrs) and o == ',':
            holes = it.st.ghost.setdefault('listholes', {})
            n = len(holes)
            holes[n] = (a[0].page, a[0].col)
            return '\x00L%d\x00' % n
        return old_join(it, o, a, k)
    env.vm_join = vm_join
    old_len = env.builtins['len'].impl

    def bi_len(it, a, k):
        from pyvc.loops import SymSeq
        if isinstance(a[0], SymSeq):
            return SV('int', a[0].n)
        return old_len(it, a, k)
    env.builtins['len'] = EnvFunc('len', bi_len)


class PageColumnStrs:
    """(str(row[i]) for row in page)"""

    def __init__(self, page, col):
        self.page = page
        self.col = col


def dbcell_arith(it, op, a, b):
    """`value += delta` on a raw column value (incr): defined for values stored natively as numbers."""
    cell, other, left = (a, b, True) if isinstance(a, DbCell) else (b, a, False)
    st = it.st
    t = cell.t
    if st.branch(DbVal.is_IntV(t)):
        x = SV('int', DbVal.iv(t))
    elif st.branch(DbVal.is_RealV(t)):
        x = SV('real', DbVal.rv(t))
    elif st.branch(DbVal.is_Null(t)):
        x = None
    else:
        raise_py('TypeError', 'unsupported operand type(s): text/bytes value and number')
    return it.env.binop(it, op, x if left else other, other if left else x)


# ------------------------------------------------------------------ ghost file system
def F(st):
    w = st.world
    if 'F.exists' not in w:
        w['F.exists'] = st.fresh('F_exists', A_SB)
        w['F.size'] = st.fresh('F_size', A_SI)
        w['F.complete'] = st.fresh('F_complete', A_SB)
    return w


# ------------------------------------------------------------------ Disk contracts (proved in c01 / c02 / c13)
def disk_put(it, o, a, k):
    key = a[0]
    ko = to_pyobj(key)
    if ko is None:
        raise Unsupported('put(%r)' % (key,))
    it.env.use('contract Disk.put (C02): deterministic; same (key, raw) index entry iff keys are equal; never NULL')
    it.st.assume(z3.Not(DbVal.is_Null(KPUT(ko))))
    it.st.effect('DISK_PUT', key=ko)
    return (DbCell(KPUT(ko)), SV('bool', RPUT(ko)))


def disk_get(it, o, a, k):
    key, raw = a
    it.env.use('contract Disk.get (C02): get(put(k)) is k')
    rb = it.truth(raw)
    rb = z3.BoolVal(rb) if isinstance(rb, bool) else rb
    return Dyn(KGET(SM.to_dbval(it, key), rb))


def fresh_filename(st):
    return st.fresh_sv('filename', 'str')


def disk_store(it, o, a, k):
    """Contract of Disk.store (C01): returns (size, mode, filename, value); when a file is used it has
    been created exclusively, completely written and closed, and its size is the recorded size.
    May raise instead (rejected value, OS error) -- possibly after the file was created."""
    st = it.st
    value, read = a[0], a[1]
    w = F(st)
    opts = getattr(o, 'store_outcomes', ('inline', 'file'))
    d = st.decide(len(opts)) if len(opts) > 1 else 0
    out = opts[d]
    it.env.use('contract Disk.store / Disk.fetch (C01): fetch(store(v)) is v; a file-backed value is complete and '
               'closed before store returns; recorded size = bytes written')
    mode = st.fresh_sv('mode', 'int')
    dbv = st.fresh('db_value', DbVal)
    vo = to_pyobj(value) if not isinstance(value, Obj) else None
    if out == 'raise':
        st.effect('STORE_RAISE', file=None)
        raise_py('OSError', 'store failed')
    if out == 'inline':
        st.assume(z3.And(mode.t >= 1, mode.t <= 4))
        if vo is not None:
            st.assume(FETCH(mode.t, z3.BoolVal(True), z3.StringVal(''), dbv) == vo)
        st.effect('STORE', filename=None, value=vo)
        return (0, mode, None, DbCell(dbv))
    fn = fresh_filename(st)
    size = st.fresh_sv('size', 'int')
    st.assume(z3.And(size.t >= 0, size.t < 2 ** 62))
    # exclusive create: the name was not in use (os.urandom collision => FileExistsError => raise)
    st.assume(z3.Not(z3.Select(w['F.exists'], fn.t)))
    w['F.exists'] = z3.Store(w['F.exists'], fn.t, z3.BoolVal(True))
    st.effect('FILE_CREATE', filename=fn.t)
    if out == 'raise_after_create':
        w['F.complete'] = z3.Store(w['F.complete'], fn.t, z3.BoolVal(False))
        st.effect('STORE_RAISE', file=fn.t)
        raise_py('OSError', 'store failed after creating the file')
    w['F.size'] = z3.Store(w['F.size'], fn.t, size.t)
    w['F.complete'] = z3.Store(w['F.complete'], fn.t, z3.BoolVal(True))
    st.assume(z3.And(mode.t >= 2, mode.t <= 4))
    st.assume(dbv == DbVal.Null)
    if vo is not None:
        st.assume(FETCH(mode.t, z3.BoolVal(False), fn.t, dbv) == vo)
    st.effect('FILE_CLOSE', filename=fn.t)
    st.effect('STORE', filename=fn.t, value=vo)
    return (size, mode, fn, DbCell(dbv))


def disk_fetch(it, o, a, k):
    mode, filename, value, read = a
    st = it.st
    w = F(st)
    fn_none, fn_t = opt_parts(filename, STR)
    vt = SM.to_dbval(it, value)
    mt = int_term(mode)
    if not st.branch(fn_none):
        st.effect('FILE_READ', filename=fn_t)
        if not st.branch(z3.Select(w['F.exists'], fn_t)):
            raise_py('FileNotFoundError', 'value file is gone')
    return Dyn(FETCH(mt, fn_none, z3.If(fn_none, z3.StringVal(''), fn_t), vt))


def opt_parts(v, sort):
    """(is-None condition, inner term) of an optional str value."""
    if v is None:
        return z3.BoolVal(True), z3.StringVal('')
    if isinstance(v, Opt):
        return v.isnone, term_of(v.inner)
    return z3.BoolVal(False), term_of(v)


def disk_remove(it, o, a, k):
    st = it.st
    w = F(st)
    v = a[0]
    it.env.use('contract Disk.remove: the file is gone afterwards or (on an OS error, suppressed) still there')
    b = st.ghost.get('batch')
    if b is not None:
        # every file name of the collected batch (guarded) is removed
        batch, guard = b
        _, fnt = opt_parts(v, STR)
        i = batch.index
        f = z3.String('f_rm')
        hit = z3.Exists([i], z3.And(i >= 0, i < batch.seq.n, guard, fnt == f))
        new = st.fresh('F_exists_after', A_SB)
        st.assume(z3.ForAll([f], z3.Select(new, f) == z3.And(z3.Select(w['F.exists'], f), z3.Not(hit))))
        w['F.exists'] = new
        st.effect('FILE_REMOVE_BATCH', batch=batch, guard=guard, in_txn=st.world.get('txn.active', False))
        return None
    _, fn = opt_parts(v, STR)
    w['F.exists'] = z3.Store(w['F.exists'], fn, z3.BoolVal(False))
    st.effect('FILE_REMOVE', filename=fn, committed_ref=referenced_in_committed(st, fn),
              in_txn=st.world.get('txn.active', False))
    return None


def referenced_in_committed(st, fn):
    """A row of the COMMITTED table (what other connections / a post-crash reader see) names fn."""
    w = st.world
    snap = w.get('txn.snapshot')
    src = snap if (w.get('txn.active') and snap is not None) else w
    r = z3.Int('r_ref')
    return z3.Exists([r], z3.And(z3.Select(src['T.live'], r), z3.Not(z3.Select(src['T.filename?'], r)),
                                 z3.Select(src['T.filename'], r) == fn))


# ------------------------------------------------------------------ Cache.reset contract
def reset_contract(it, f, a, k):
    """Assumed contract of Cache.reset for the metadata keys: reload from / write to Settings.
    (Its pragma branch is not used by the methods verified here.)"""
    b = it.bind_args(f, a, k)
    selfv, key, value = b['self'], b['key'], b['value']
    ENOVAL = it.program.modules['diskcache.core'].globals['ENOVAL']
    if not isinstance(key, str):
        raise Unsupported('reset(%r)' % (key,))
    it.env.use('contract Cache.reset(key): reloads the Settings value into the attribute and returns it; reset(key, v) writes it')
    w = it.st.world
    if value is ENOVAL:
        if key in SM.SETTINGS:
            v = SV('int', w['S.' + key])
        elif ('S.' + key) in w:
            v = w['S.' + key]
        else:
            raise Unsupported('reset(%r) reload' % key)
        it.st.effect('RESET_READ', key=key, value=v)
        selfv.fields[key] = v
        return v
    if key.startswith('sqlite_') or key.startswith('disk_'):
        raise Unsupported('reset of %s' % key)
    if key in SM.SETTINGS:
        w['S.' + key] = int_term(value)
    else:
        w['S.' + key] = value
    it.st.effect('RESET_WRITE', key=key)
    selfv.fields[key] = value
    return value


# ------------------------------------------------------------------ building self
def make_cache(ctx, st, policy='least-recently-stored', statistics=None, nested=False, store_outcomes=('inline', 'file')):
    T = Table.create(st)
    F(st)
    st.assume(SM.invariant(st.world))
    st.ghost['inv_arrays'] = {k: st.world[k] for k in ('T.live', 'T.key', 'T.raw', 'T.idx')}
    disk = Obj('DiskC', {})
    disk.store_outcomes = store_outcomes
    tid = st.fresh('tid', _I)
    st.world['tid'] = tid
    cull_limit = st.fresh_sv('cull_limit', 'int')
    size_limit = st.fresh_sv('size_limit', 'int')
    page_size = st.fresh_sv('page_size', 'int')
    st.assume(z3.And(cull_limit.t >= 0, cull_limit.t < 2 ** 31))       # settings live in an INTEGER column
    st.assume(z3.And(size_limit.t > -2 ** 62, size_limit.t < 2 ** 62))
    st.assume(page_size.t > 0)
    if statistics is None:
        statistics = st.fresh_sv('statistics', 'int')
        st.assume(z3.Or(statistics.t == 0, statistics.t == 1))
    fields = {'_disk': disk, '_txn_id': None, 'eviction_policy': policy, 'cull_limit': cull_limit,
              'size_limit': size_limit, '_page_size': page_size, 'statistics': statistics,
              '_directory': st.fresh_sv('directory', 'str'), '_timeout': 60}
    cache = ctx.new_obj('diskcache.core.Cache', fields)
    if nested:
        # the calling thread already owns an open transaction on this object
        cache.fields['_txn_id'] = SV('int', tid)
        st.world['txn.active'] = True
        st.world['txn.immediate'] = True
        st.world['txn.snapshot'] = T.snapshot()
        st.ghost['outer_snapshot'] = dict(st.world['txn.snapshot'])
    st.ghost['T0'] = {k: v for k, v in st.world.items() if k.startswith(('T.', 'S.', 'F.'))}
    st.effect('START')
    return cache


def sym_key(st, name='key'):
    return Dyn(st.fresh(name, PyObj))


def sym_value(st, name='value'):
    return Dyn(st.fresh(name, PyObj))


# ------------------------------------------------------------------ spec helpers (from the property statements)
def visible(w, r, t):
    """C04: an item is visible at time t iff it has no expiry or t < expire_time."""
    return z3.Or(z3.Select(w['T.expire_time?'], r), t < z3.Select(w['T.expire_time'], r))


def lookup(w, ko):
    """rowid of the entry addressed by key ko (0 when absent)."""
    return z3.Select(z3.Select(w['T.idx'], SM.key_norm(KPUT(ko))), RPUT(ko))


def row_value(w, r):
    """Abstract value of a row = what Disk.fetch returns for its columns (C01)."""
    fnn = z3.Select(w['T.filename?'], r)
    return FETCH(z3.Select(w['T.mode'], r), fnn,
                 z3.If(fnn, z3.StringVal(''), z3.Select(w['T.filename'], r)), z3.Select(w['T.value'], r))


def unchanged_except(w0, w1, rows, cols=None):
    """Every row other than `rows` has the same liveness and the same cells."""
    q = z3.Int('q_frame')
    other = z3.And(*[q != r for r in rows]) if rows else z3.BoolVal(True)
    parts = [z3.Select(w1['T.live'], q) == z3.Select(w0['T.live'], q)]
    for c in SM.COLS:
        parts.append(z3.Select(w1['T.' + c], q) == z3.Select(w0['T.' + c], q))
        if SM.COLS[c][1]:
            parts.append(z3.Select(w1['T.' + c + '?'], q) == z3.Select(w0['T.' + c + '?'], q))
    return z3.ForAll([q], z3.Implies(other, z3.And(*parts)))

"""C04 -- items are visible until their expiry time passes and never afterwards.

Every lookup / mutation site that reads or writes expire_time is covered by the
refinement obligations of contracts/c03.py, whose reference operations are all
phrased with   visible(row, t) <=> expire_time is NULL or t < expire_time
and   stored expire_time = (clock reading at entry) + ttl, NULL without a ttl.
The same obligations are generated here under the C04 prefix for the sites
named in the property (get, __contains__, pop, __delitem__, touch, add, incr,
set), plus the lazy-cull clauses (only expired rows, at most cull_limit) which
are the `refine.cull.*` parts of set/add/incr.
"""
from contracts import c03

METHODS = ['touch', '__contains__', 'get', 'pop', '__delitem__', 'add', 'incr', 'set']


# clauses not yet under contract (bulk removal, iteration, queue operations) are covered by the bounded
# native stand-in on every run; it is listed under coverage.bounded and never counted as proved
ALWAYS_STANDIN = True


def tasks(tier):
    pols = ['least-recently-stored', 'none'] if tier == 'quick' else c03.POLICIES
    return [('contracts.c03', 'method_task', ('C04', m, pol)) for m in METHODS for pol in pols] + \
        c03.bulk_tasks('C04', ('expire',)) + \
        [('contracts.c10', 'peekitem_task', ('C04', True)), ('contracts.c10', 'peekitem_task', ('C04', False))] + \
        [('contracts.c10', 'pull_task', (m, s)) for m in ('pull', 'peek') for s in ('front', 'back')] + \
        [('contracts.c10', 'queue_traces', (m,)) for m in ('pull', 'peek')]
    # (queue_traces: a head is judged expired and removed inside ONE write transaction -- otherwise the row
    #  removed "as expired" may by then be another, live item)


def post_process(results, tier):
    from pyvc.check import Result
    out = []
    for r in results:
        if r['name'].startswith('C10.'):
            r = Result('C04.' + r['name'][4:], r['kind'], r['verdict'],
                       **{k: v for k, v in r.items() if k not in ('name', 'kind', 'verdict')})
        out.append(r)
    return out


def meta(results, tier):
    m = c03.meta(results, tier)
    m['explanation'] = 'C04 view of the per-method refinement obligations (visibility and stored expiry at every site)'
    m['assumptions'] = m['assumptions'] + ['boundary reading: an item is invisible from t == expire_time on; expire()/cull remove rows with expire_time < now (removing less at the instant of equality is allowed)']
    return m

"""C12 -- Index is a persistent insertion-ordered dictionary.

Index methods are thin: each is executed from /repo against a Recorder for the
real Cache class and must (delegate obligations) perform exactly the Cache
operation(s) whose contracts (C03: exact dictionary in insertion order, no
expiry, policy 'none' never evicts) give the OrderedDict behaviour:
lookup/assignment/deletion/pop/peekitem/clear/len/iteration in both directions,
popitem = peekitem + delete inside ONE transaction block, setdefault = a loop
of atomic steps returning the value present.  Construction uses eviction
policy 'none' (Index.__init__, FanoutCache.index, DjangoCache.index).
Equality with other mappings and the key/value/item views are covered by the
bounded native stand-in (random histories against collections.OrderedDict).
"""
import z3

from pyvc.api import *          # noqa
from pyvc.check import Result, discharge
from pyvc.engine import explore, EnvFunc, Unsupported
from pyvc.loops import LoopSpec
from pyvc import mock
from pyvc.mock import Recorder, calls
from contracts.disk_common import context
from contracts.c20 import in_block

_c = {}
ALWAYS_STANDIN = True


def cctx():
    if 'c' not in _c:
        c = context('core', 'persistent', 'fanout')
        mock.install(c.env)
        from contracts import fanout_common as fc
        fc.install_seq_support(c.env)
        c.loop_invariants[('diskcache.persistent.Index.setdefault', 0)] = LoopSpec(
            'C12.setdefault.loop', lambda it, fr, i: z3.BoolVal(True))
        _c['c'] = c
    return _c['c']


def R(name, ok, fn, p, detail=None, kind='delegate'):
    return Result(name, kind, 'proved' if ok else 'refuted', ms=0, backend='engine', function='Index.' + fn,
                  path=p.decisions, detail=None if ok else detail)


def mk(ctx, st, outcomes=None):
    core = ctx.program.modules['diskcache.core'].globals
    cache = Recorder('cache', ctx.cls('diskcache.core.Cache'), outcomes=outcomes)
    return ctx.new_obj('diskcache.persistent.Index', {'_cache': cache}), cache, core['ENOVAL']


# method -> (cache method, argument mapping {cache param: index param or constant}, exceptions that propagate)
SIMPLE = {
    '__getitem__': ('__getitem__', {'key': 'key'}, ['KeyError']),
    '__setitem__': ('__setitem__', {'key': 'key', 'value': 'value'}, []),
    '__delitem__': ('__delitem__', {'key': 'key'}, ['KeyError']),
    'peekitem': ('peekitem', {'last': 'last', 'retry': True}, ['KeyError']),
    'clear': ('clear', {'retry': True}, []),
    '__len__': ('__len__', {}, []),
    '__iter__': ('__iter__', {}, []),
    '__reversed__': ('__reversed__', {}, []),
    'push': ('push', {'value': 'value', 'prefix': 'prefix', 'side': 'side', 'retry': True}, []),
    'pull': ('pull', {'prefix': 'prefix', 'default': 'default', 'side': 'side', 'retry': True}, []),
}


def simple(method):
    ctx = cctx()
    callee, amap, exc = SIMPLE[method]
    fv = ctx.func('diskcache.persistent.Index.' + method)

    def run(st):
        it = ctx.interp(st)

        def outcomes(nm, b):
            return ['return'] + list(exc)
        idx, cache, ENOVAL = mk(ctx, st, outcomes)
        params = [p.arg for p in fv.node.args.args][1:]
        args = {p: Opaque('other', st.fresh('arg_' + p, OTHER)) for p in params}
        st.ghost['args'] = args
        return it.call(fv, [idx], dict(args))
    out = []
    for n, p in enumerate(explore(run)):
        cs = calls(p)
        args = p.state.ghost['args']
        name = 'C12.%s.delegates#%d' % (method, n)
        ok = len(cs) == 1 and cs[0]['name'] == callee
        why = 'calls %r' % [c['name'] for c in cs]
        if ok:
            b = cs[0]['bound']
            for cp, src in amap.items():
                want = args[src] if isinstance(src, str) else src
                if b.get(cp) is not want:
                    ok, why = False, 'Cache.%s parameter %s receives %r' % (callee, cp, b.get(cp))
        if ok:
            c = cs[0]
            if c['outcome'] == 'return':
                if method in ('__setitem__', '__delitem__', 'clear'):
                    ok = p.kind == 'return'
                else:
                    ok = p.kind == 'return' and p.value is c['ret']
                why = 'returns %s %r' % (p.kind, p.value)
            else:
                ok = p.kind == 'raise' and p.value is c['exc']
                why = 'exception %r not propagated' % (c['exc'],)
        out.append(R(name, ok, method, p, why))
    return out


def pop_():
    ctx = cctx()
    out = []

    def run(st):
        it = ctx.interp(st)
        idx, cache, ENOVAL = mk(ctx, st, lambda nm, b: [('return', lambda it2, b2, n: b2['default']), 'return'])
        key = Opaque('other', st.fresh('key', OTHER))
        given = st.decide(2) == 1
        default = Opaque('other', st.fresh('default', OTHER)) if given else None
        st.ghost.update(key=key, given=given, default=default, ENOVAL=ENOVAL)
        return it.call(it.getattr(idx, 'pop'), [key] + ([default] if given else []), {})
    for n, p in enumerate(explore(run)):
        g = p.state.ghost
        cs = calls(p)
        ok = len(cs) == 1 and cs[0]['name'] == 'pop' and cs[0]['bound']['key'] is g['key'] and cs[0]['bound']['retry'] is True
        why = 'calls %r' % [(c['name'], c['bound']) for c in cs]
        if ok:
            d = cs[0]['bound']['default']
            ok = d is (g['default'] if g['given'] else g['ENOVAL'])
            why = 'default passed: %r' % (d,)
        if ok:
            miss = cs[0]['ret'] is cs[0]['bound']['default']
            if miss and not g['given']:
                ok = p.kind == 'raise' and p.value.cls == 'KeyError'
            else:
                ok = p.kind == 'return' and p.value is cs[0]['ret']
            why = 'miss=%s given=%s -> %s %r' % (miss, g['given'], p.kind, p.value)
        out.append(R('C12.pop.delegates#%d' % n, ok, 'pop', p, why))
    return out


def popitem():
    ctx = cctx()
    out = []

    def run(st):
        it = ctx.interp(st)

        def outcomes(nm, b):
            if nm == 'peekitem':
                return [('return', lambda it2, b2, n: (Opaque('other', it2.st.fresh('pk', OTHER)), Opaque('other', it2.st.fresh('pv', OTHER)))), 'KeyError']
            return ['return']
        idx, cache, ENOVAL = mk(ctx, st, outcomes)
        last = Opaque('other', st.fresh('last', OTHER))
        st.ghost['last'] = last
        return it.call(it.getattr(idx, 'popitem'), [], {'last': last})
    for n, p in enumerate(explore(run)):
        tr = p.state.trace
        cs = [(i, e[1]) for i, e in enumerate(tr) if e[0] == 'CALL']
        names = [c['name'] for _, c in cs]
        base = 'C12.popitem#%d' % n
        if names and cs[0][1]['outcome'] == 'raise':
            ok = names == ['peekitem'] and p.kind == 'raise' and p.value.cls == 'KeyError'
            out.append(R(base + '.empty_raises_keyerror', ok, 'popitem', p, 'calls %r -> %s %r' % (names, p.kind, p.value)))
            continue
        ok = names == ['peekitem', '__delitem__'] and cs[0][1]['bound']['last'] is p.state.ghost['last']
        out.append(R(base + '.peek_then_delete', ok, 'popitem', p, 'calls %r' % (names,)))
        if ok:
            k, v = cs[0][1]['ret']
            ok2 = cs[1][1]['bound']['key'] is k and p.kind == 'return' and isinstance(p.value, tuple) and p.value[0] is k and p.value[1] is v
            out.append(R(base + '.returns_peeked_pair', ok2, 'popitem', p, 'deletes %r returns %r' % (cs[1][1]['bound']['key'], p.value)))
            atomic = all(in_block(tr, i) for i, _ in cs) and \
                not any(e[0] in ('CM_ENTER', 'CM_EXIT') for e in tr[cs[0][0]:cs[1][0]])
            out.append(R(base + '.atomic_section', atomic, 'popitem', p,
                         'peekitem and delete are not inside one transaction block', kind='trace'))
    return out


def setdefault():
    ctx = cctx()
    out = []

    def run(st):
        it = ctx.interp(st)

        def outcomes(nm, b):
            if nm == '__getitem__':
                return ['return', 'KeyError']
            if nm == 'add':
                return [('return', lambda it2, b2, n: True), ('return', lambda it2, b2, n: False)]
            return ['return']
        idx, cache, ENOVAL = mk(ctx, st, outcomes)
        key = Opaque('other', st.fresh('key', OTHER))
        default = Opaque('other', st.fresh('default', OTHER))
        st.ghost.update(key=key, default=default)
        return it.call(it.getattr(idx, 'setdefault'), [key, default], {})
    for n, p in enumerate(explore(run)):
        g = p.state.ghost
        cs = calls(p)
        names = [c['name'] for c in cs]
        base = 'C12.setdefault#%d' % n
        if p.kind == 'return':
            ok = names and names[-1] == '__getitem__' and cs[-1]['outcome'] == 'return' and p.value is cs[-1]['ret'] and \
                cs[-1]['bound']['key'] is g['key']
            out.append(R(base + '.returns_value_present', ok, 'setdefault', p, 'calls %r returns %r' % (names, p.value)))
        elif p.kind == 'cut':
            ok = names in (['__getitem__', 'add'],) and cs[0]['outcome'] == 'raise' and cs[1]['bound']['key'] is g['key'] and \
                cs[1]['bound']['value'] is g['default'] and cs[1]['bound']['retry'] is True and cs[1]['bound']['expire'] is None
            out.append(R(base + '.step_is_one_atomic_add', ok, 'setdefault', p, 'step %r' % [(c['name'], c['bound']) for c in cs]))
        else:
            out.append(R(base + '.no_exception', False, 'setdefault', p, 'raises %r' % (p.value,)))
    return out


def constructs_with_policy_none():
    ctx = cctx()
    out = []
    from contracts.c18 import init_recorder
    init_recorder(ctx, 'diskcache.core.Cache')
    try:
        def run(st):
            it = ctx.interp(st)
            d = st.fresh_sv('dir', 'str')
            idx = ctx.new_obj('diskcache.persistent.Index', {})
            it.call(ctx.func('diskcache.persistent.Index.__init__'), [idx, d], {})
            return d
        for n, p in enumerate(explore(run)):
            inits = [e[1] for e in p.state.trace if e[0] == 'INIT']
            ok = p.kind == 'return' and len(inits) == 1 and inits[0]['raw'][1].get('eviction_policy') == 'none' and \
                inits[0]['bound'].get('directory') is p.value
            out.append(R('C12.init.policy_none#%d' % n, ok, '__init__', p, 'Cache(%r)' % ([i['raw'] for i in inits],)))
        # FanoutCache.index builds its cache in a subdirectory with policy none
        def run2(st):
            it = ctx.interp(st)
            d = st.fresh_sv('dir', 'str')
            fan = ctx.new_obj('diskcache.fanout.FanoutCache', {'_directory': d, '_indexes': {}, '_disk': ctx.cls('diskcache.core.Disk')})
            return it.call(ctx.func('diskcache.fanout.FanoutCache.index'), [fan, 'name'], {})
        for n, p in enumerate(explore(run2)):
            inits = [e[1] for e in p.state.trace if e[0] == 'INIT']
            ok = p.kind == 'return' and len(inits) == 1 and inits[0]['raw'][1].get('eviction_policy') == 'none'
            out.append(R('C12.fanout.index.policy_none#%d' % n, ok, 'FanoutCache.index', p, 'Cache(%r)' % ([i['raw'] for i in inits],)))
    finally:
        ctx.hooks.pop('diskcache.core.Cache.__init__', None)
    return out


def found_if_present():
    """A key that is continuously present is always found: Cache.__getitem__ may raise KeyError only
    when its lookup found no live row.  (Fails on the path fetch -> IOError -> default: recorded finding.)"""
    from contracts import traces
    out = []
    ctx = traces.cctx()
    from contracts import c03
    from contracts.cache_common import make_cache, sym_key

    def body(st):
        ctx.sql.busy = False
        ctx.sql.faults = False
        it = ctx.interp(st)
        cache = make_cache(ctx, st, policy='none', statistics=0, store_outcomes=('inline',))
        key = sym_key(st)
        return it.call(ctx.func('diskcache.core.Cache.__getitem__'), [cache, key], {})
    for n, p in enumerate(explore(body)):
        sel = [e[1] for e in p.state.trace if e[0] == 'SQL' and e[1]['stmt']['kind'] == 'select']
        found = bool(sel) and sel[0]['nrows'] == 1
        vanished = any(e[0] == 'FILE_READ' for e in p.state.trace)
        cls = 'file-vanished' if (found and p.kind == 'raise') else ('found' if found else 'absent')
        name = 'C12.getitem.found_if_present[%s]#%d' % (cls, n)
        if p.kind == 'raise' and p.value.cls == 'KeyError':
            ok = not found
            out.append(Result(name, 'trace', 'proved' if ok else 'refuted', ms=0, backend='engine', function='Cache.__getitem__',
                              path=p.decisions, detail=None if ok else 'KeyError although the lookup found a live row (its value file was replaced and removed by another client between the row read and the file open)'))
        else:
            out.append(Result(name, 'trace', 'proved' if p.kind == 'return' else 'refuted', ms=0, backend='engine',
                              function='Cache.__getitem__', path=p.decisions, detail=None if p.kind == 'return' else 'raises %r' % (p.value,)))
    return out


def tasks(tier):
    ts = [('contracts.c12', 'simple', (m,)) for m in SIMPLE]
    ts += [('contracts.c12', f, ()) for f in ('pop_', 'popitem', 'setdefault', 'constructs_with_policy_none', 'found_if_present')]
    ts += [('contracts.c10', 'peekitem_task', ('C12', True)), ('contracts.c10', 'peekitem_task', ('C12', False)),
           ('contracts.iteration', 'iter_task', ('C12', True)), ('contracts.iteration', 'iter_task', ('C12', False))]
    ts += [('contracts.traces', 'transact_block', ('C12',))]
    ts += [('contracts.c18', 'settings_merge', ())]        # every (re)open of the directory: counters are never written back
    from contracts import c03
    ts += c03.dependency_tasks('C12', ['get', 'set', 'add', 'pop', '__delitem__', '__contains__'], policy='none', tier=tier)   # an Index never evicts      # popitem / setdefault argue with 'one block is atomic'
    return ts


def meta(results, tier):
    return {'functions': {'verified_bodies': ['diskcache.persistent.Index.' + m for m in list(SIMPLE) + ['pop', 'popitem', 'setdefault', '__init__']] +
                          ['diskcache.fanout.FanoutCache.index', 'diskcache.core.Cache.__getitem__'],
                          'assumed_contracts': ['Cache methods through Recorder (their contracts: C03/C05/C06/C09 policy none never evicts)',
                                                'collections.abc mixins (update, keys/values/items views) per the stdlib docs']},
            'assumptions': ['A-SQL-iso for the atomic steps', 'no interleaving executed',
                            '__eq__/__ne__ and the views are covered by the bounded stand-in only'],
            'explanation': 'delegate obligations for every Index method; popitem/setdefault atomic steps; lookup of a continuously present key'}


def post_process(results, tier):
    from contracts import c03 as _c03
    out = []
    for r in _c03.dependency_rename('C12', results):
        if r['name'].startswith('C18.init.'):
            r = Result('C12.open.' + r['name'][9:], r['kind'], r['verdict'], **{k: v for k, v in r.items() if k not in ('name', 'kind', 'verdict')})
        out.append(r)
    return out

"""C17 -- check(fix=True) repairs out-of-band damage; plain check() only reports.

Under contract (Cache.check executed from /repo on the symbolic table model, with ARBITRARY damage:
any table satisfying only the index invariant, any files with any sizes, any count/size counters):
  * rows-versus-files phase: inductive invariant over the fetched rows (any number): processed rows
    whose file is missing are dropped (fix) and rows whose file has another size get the real size
    (fix); unprocessed and undamaged rows are untouched; without fix nothing changes;
  * count / size phases: after fix the counters equal the recomputed values;
  * C17.check.postcondition[fix]: every remaining file-backed row names an existing file of the
    recorded size, counters agree, undamaged rows unchanged;
  * C17.check.second_check_clean: from that post-state a further check() emits no warning in these
    phases (every path with a warning is infeasible);
  * C17.check.nofix_is_readonly: structural -- every mutating call of check() (UPDATE / DELETE /
    VACUUM statements, os.remove, os.rmdir) is dominated by `if fix:`;
  * FanoutCache.check concatenates the per-shard results (C13).
The two os.walk phases (unknown files, empty directories) are NOT under contract: they are covered by
the bounded native stand-in (damage combinations incl. nested empty directories).
"""
import ast
import z3

from pyvc.check import Result, discharge
from pyvc.engine import explore, Unsupported, EnvFunc
from pyvc.loops import LoopSpec, SymSeq
from pyvc import sqlmodel as SM
from pyvc.sqlmodel import DbVal, SUM
from pyvc.env import int_term
from contracts.cache_common import *   # noqa
from contracts import cache_common as cc
from contracts import c03

ALWAYS_STANDIN = True
_I = z3.IntSort()


def rel_name(it, cache, path):
    """full path (directory + '/' + filename) -> the relative filename term."""
    d = cache.fields['_directory'].t
    t = path.t
    ch = t.children()
    if t.decl().name() == 'str.++' and len(ch) >= 2 and ch[0].eq(d):
        rest = ch[1:]
        if len(rest) == 1 and rest[0].decl().name() == 'str.++':
            rest = rest[0].children()
        if rest and z3.is_string_value(rest[0]) and rest[0].as_string() == '/':
            tail = rest[1:]
            return tail[0] if len(tail) == 1 else z3.Concat(*tail)
    raise Unsupported('path %s is not <directory>/<filename>' % t)


def install(ctx, st_cache_holder):
    env = ctx.env

    def exists(it, a, k):
        cache = it.st.ghost['self']
        fn = rel_name(it, cache, a[0])
        w = cc.F(it.st)
        return SV('bool', z3.Select(w['F.exists'], fn))

    def getsize(it, a, k):
        cache = it.st.ghost['self']
        fn = rel_name(it, cache, a[0])
        w = cc.F(it.st)
        v = z3.Select(w['F.size'], fn)
        it.st.assume(v >= 0)
        it.st.ghost.setdefault('int64', set()).add(v.get_id())
        return SV('int', v)
    env.modules['os.path']['exists'] = EnvFunc('os.path.exists', exists)
    env.modules['os.path']['getsize'] = EnvFunc('os.path.getsize', getsize)
    env.modules['os']['walk'] = EnvFunc('os.walk', lambda it, a, k: [])   # walk phases: not under contract
    env.modules['os']['rmdir'] = EnvFunc('os.rmdir', lambda it, a, k: it.st.effect('RMDIR'))
    env.modules['os']['listdir'] = EnvFunc('os.listdir', lambda it, a, k: [])


def processed(rows, i, q):
    return z3.And(z3.Select(rows.where, q), z3.Select(rows.pos, q) < i)


def install_loop(ctx):
    def inv(it, fr, i):
        st = it.st
        w, w0 = st.world, c03.world0(st)
        rows = fr.locals['rows']
        fix = fr.locals['fix']
        fixb = fix.t if isinstance(fix, SV) else z3.BoolVal(bool(fix))
        q = z3.Int('q_chk')
        where0 = z3.And(z3.Select(w0['T.live'], q), z3.Not(z3.Select(w0['T.filename?'], q)))
        proc = z3.And(where0, z3.Select(rows.pos, q) < i, z3.Select(rows.pos, q) >= 0)
        fn = z3.Select(w0['T.filename'], q)
        ex = z3.Select(w0['F.exists'], fn)
        parts = []
        for c in SM.COLS:
            if c != 'size':
                parts.append(w['T.' + c] == w0['T.' + c])
            if SM.COLS[c][1]:
                parts.append(w['T.' + c + '?'] == w0['T.' + c + '?'])
        parts.append(z3.And(w['F.exists'] == w0['F.exists'], w['F.size'] == w0['F.size']))
        same_row = z3.And(z3.Select(w['T.live'], q) == z3.Select(w0['T.live'], q), z3.Select(w['T.size'], q) == z3.Select(w0['T.size'], q))
        parts.append(z3.ForAll([q], z3.Implies(z3.Not(proc), same_row)))
        fixed = z3.If(ex, z3.And(z3.Select(w['T.live'], q), z3.Select(w['T.size'], q) == z3.Select(w0['F.size'], fn)),
                      z3.Not(z3.Select(w['T.live'], q)))
        parts.append(z3.ForAll([q], z3.Implies(proc, z3.If(fixb, fixed, same_row))))
        # without fix nothing at all has changed
        parts.append(z3.Or(fixb, z3.And(*[w[k] == w0[k] for k in ('T.live', 'T.size', 'T.idx', 'T.card', 'S.count', 'S.size')])))
        for nm, part in SM.invariant(w, with_counters=False, named=True):
            parts.append(part)
        parts.append(z3.BoolVal(bool(st.world.get('txn.active'))))
        return z3.And(*parts)

    def on_havoc(it, fr):
        it.st.ghost['inv_arrays'] = None
    shapes = {'full_path': lambda st: None, 'real_size': lambda st: None, 'message': lambda st: None, 'args': lambda st: None,
              'rowid': lambda st: None, 'size': lambda st: None, 'filename': lambda st: None}
    ctx.loop_invariants[('diskcache.core.Cache.check', 1)] = LoopSpec(
        'C17.check.rows_vs_files', inv, havoc_world=['T.live', 'T.idx', 'T.size', 'T.card', 'S.count', 'S.size'],
        on_havoc=on_havoc, shapes=shapes)


def run_check(fix, pre=None):
    ctx = cctx()
    install(ctx, None)
    install_loop(ctx)
    old_all = ctx.sql.select_all

    def select_all(it, T, ps, params):
        page = old_all(it, T, ps, params)
        # expose membership / position arrays of the enumeration to the loop invariant
        q = z3.Int('q_w')
        page.where = z3.Lambda([q], ctx.sql.where_at(it, T, ps, params, q))
        page.pos = [e for e in [None]][0]
        return page
    # the enumeration facts are stated through a position array: recover it from the page object
    def select_all2(it, T, ps, params):
        st = it.st
        L = st.fresh('all_len', _I)
        s = st.fresh('all_rows', SM.A_II)
        pos = st.fresh('all_pos', SM.A_II)
        i, q = z3.Ints('i_all q_all')
        st.assume(L >= 0)
        st.assume(z3.ForAll([i], z3.Implies(z3.And(i >= 0, i < L), z3.And(
            ctx.sql.where_at(it, T, ps, params, z3.Select(s, i)), z3.Select(pos, z3.Select(s, i)) == i))))
        st.assume(z3.ForAll([q], z3.Implies(ctx.sql.where_at(it, T, ps, params, q), z3.And(
            z3.Select(pos, q) >= 0, z3.Select(pos, q) < L, z3.Select(s, z3.Select(pos, q)) == q))))
        cols = ps['cols']
        page = SymSeq(L, lambda idx: ctx.sql.row_tuple(it, SM.Table(st), cols, z3.Select(s, idx)), kind='list', tag='allrows')
        page.rows, page.pos, page.stmt = s, pos, ps
        page.where = z3.Lambda([q], ctx.sql.where_at(it, T, ps, params, q))
        T0 = SM.Table(st)
        w_sel = dict(st.world)

        def elem_facts(idx):
            r = z3.Select(s, idx)
            class _T:      # table view frozen at selection time
                w = w_sel
            return z3.And(ctx.sql.where_at(it, _T, ps, params, r), z3.Select(pos, r) == idx)
        page.elem_facts = elem_facts
        return page
    ctx.sql.select_all = select_all2

    def body(st):
        ctx.sql.busy = False
        ctx.sql.faults = False
        it = ctx.interp(st)
        # arbitrary damage: only the index invariant is assumed; counters and files are arbitrary
        T = SM.Table.create(st)
        cc.F(st)
        st.assume(SM.invariant(st.world, with_counters=False))
        st.ghost['inv_arrays'] = {k: st.world[k] for k in ('T.live', 'T.key', 'T.raw', 'T.idx')}
        disk = Obj('DiskC', {})
        cache = ctx.new_obj('diskcache.core.Cache', {'_disk': disk, '_txn_id': None, 'eviction_policy': 'none',
                                                      '_directory': st.fresh_sv('directory', 'str'), '_timeout': 60})
        st.world['tid'] = st.fresh('tid', _I)
        if pre is not None:
            st.assume(pre(st.world))
        st.ghost['T0'] = {k: v for k, v in st.world.items() if k.startswith(('T.', 'S.', 'F.'))}
        st.ghost['self'] = cache
        st.effect('START')
        return it.call(ctx.func('diskcache.core.Cache.check'), [cache], {'fix': fix, 'retry': True})
    try:
        return explore(body, max_paths=4000)
    finally:
        ctx.sql.select_all = old_all


def post_state(w):
    q = z3.Int('q_post17')
    fn = z3.Select(w['T.filename'], q)
    rows_ok = z3.ForAll([q], z3.Implies(z3.And(z3.Select(w['T.live'], q), z3.Not(z3.Select(w['T.filename?'], q))),
                                       z3.And(z3.Select(w['F.exists'], fn), z3.Select(w['T.size'], q) == z3.Select(w['F.size'], fn))))
    return [('rows_vs_files', rows_ok), ('count', w['S.count'] == w['T.card']),
            ('size', w['S.size'] == SUM(w['T.size'], w['T.live']))]


def check_task(fix):
    out = []
    paths = run_check(fix)
    nret = 0
    for n, p in enumerate(paths):
        st = p.state
        base = 'C17.check[fix=%s]#%d' % (fix, n)
        fn = 'Cache.check'
        for o in st.obligations:
            out.append(discharge('%s/%s' % (base, o.name), o.kind, o.pc, o.goal, function=fn, path=p.decisions))
        if p.kind == 'cut':
            continue
        if p.kind != 'return':
            r = discharge(base + '.no_exception', 'post', p.pc, z3.BoolVal(False), function=fn, path=p.decisions)
            r['detail'] = 'raises %r' % (p.value,) if r['verdict'] != 'proved' else None
            out.append(r)
            continue
        nret += 1
        w, w0 = st.world, c03.world0(st)
        q = z3.Int('q_c17')
        if fix:
            for nm, g in post_state(w):
                out.append(discharge('%s.postcondition.%s' % (base, nm), 'post', p.pc, g, function=fn, path=p.decisions))
            fn0 = z3.Select(w0['T.filename'], q)
            healthy = z3.And(z3.Select(w0['T.live'], q),
                             z3.Or(z3.Select(w0['T.filename?'], q),
                                   z3.And(z3.Select(w0['F.exists'], fn0), z3.Select(w0['T.size'], q) == z3.Select(w0['F.size'], fn0))))
            untouched = z3.ForAll([q], z3.Implies(healthy, z3.And(z3.Select(w['T.live'], q), z3.Select(w['T.size'], q) == z3.Select(w0['T.size'], q))))
            out.append(discharge(base + '.undamaged_rows_untouched', 'post', p.pc, untouched, function=fn, path=p.decisions))
            cells = z3.And(*[w['T.' + c] == w0['T.' + c] for c in SM.COLS if c != 'size'])
            out.append(discharge(base + '.cells_untouched', 'frame', p.pc, cells, function=fn, path=p.decisions))
        else:
            out.append(discharge(base + '.changes_nothing', 'frame', p.pc, c03.eq_world(w0, w), function=fn, path=p.decisions))
        out.append(Result(base + '.transaction_closed', 'trace', 'proved' if not st.world.get('txn.active') else 'refuted',
                          ms=0, backend='engine', function=fn, path=p.decisions))
    if nret == 0:
        out.append(Result('C17.check[fix=%s]' % fix, 'vacuity', 'error', detail='no returning path'))
    return out


def second_check_clean():
    """From the post-state of check(fix=True) a further check() finds nothing in the contract-covered phases."""
    out = []

    def pre(w):
        return z3.And(*[g for _, g in post_state(w)])
    paths = run_check(False, pre=pre)
    for n, p in enumerate(paths):
        warns = [e[1] for e in p.state.trace if e[0] == 'WARN']
        base = 'C17.check.second_check_clean#%d' % n
        for o in p.state.obligations:
            if o.kind == 'inv-entry':
                continue
        if warns:
            out.append(discharge(base + '.warning_path_infeasible', 'post', p.pc, z3.BoolVal(False), function='Cache.check',
                                 path=p.decisions))
        elif p.kind == 'return':
            ok = isinstance(p.value, list) and len(p.value) == 0
            out.append(Result(base + '.no_warnings', 'post', 'proved' if ok else 'refuted', ms=0, backend='engine',
                              function='Cache.check', path=p.decisions, detail=None if ok else 'returns %r' % (p.value,)))
    if not out:
        out.append(Result('C17.check.second_check_clean', 'vacuity', 'error', detail='no paths'))
    return out


MUTATING_SQL = ('UPDATE', 'DELETE', 'VACUUM', 'INSERT')


def nofix_is_readonly():
    """Structural: every mutating call inside Cache.check is dominated by `if fix:`."""
    ctx = cctx()
    fv = ctx.func('diskcache.core.Cache.check')
    bad = []

    def is_mutating(call):
        f = call.func
        if isinstance(f, ast.Attribute) and isinstance(f.value, ast.Name) and f.value.id == 'os' and f.attr in ('remove', 'rmdir', 'removedirs', 'unlink'):
            return 'os.' + f.attr
        if isinstance(f, ast.Name) and f.id in ('sql',) and call.args:
            a0 = call.args[0]
            if isinstance(a0, ast.Constant) and isinstance(a0.value, str) and a0.value.lstrip().upper().startswith(MUTATING_SQL):
                return a0.value.strip()[:40]
            if not isinstance(a0, ast.Constant):
                return None if isinstance(a0, ast.Name) and a0.id in ('select', 'select_size') else 'sql(<non-constant>)'
        if isinstance(f, ast.Attribute) and f.attr in ('remove', 'rmtree') and not isinstance(f.value, ast.Name):
            return ast.unparse(f)
        return None

    def walk(stmts, guarded):
        for s in stmts:
            if isinstance(s, ast.If):
                g = guarded or (isinstance(s.test, ast.Name) and s.test.id == 'fix')
                walk(s.body, g)
                walk(s.orelse, guarded)
                continue
            for fld in ('body', 'orelse', 'finalbody', 'handlers'):
                sub = getattr(s, fld, None)
                if sub and fld != 'handlers':
                    walk(sub, guarded)
                elif sub:
                    for h in sub:
                        walk(h.body, guarded)
            for node in ast.walk(s) if not hasattr(s, 'body') else [x for x in ast.iter_child_nodes(s) if isinstance(x, ast.expr)]:
                for c in ast.walk(node):
                    if isinstance(c, ast.Call):
                        m = is_mutating(c)
                        if m and not guarded:
                            bad.append('line %d: %s' % (c.lineno, m))
    walk(fv.node.body, False)
    return [Result('C17.check.nofix_is_readonly', 'trace', 'proved' if not bad else 'refuted', ms=0, backend='engine',
                   function='Cache.check', detail=None if not bad else 'mutating call(s) not guarded by `if fix:` %r' % bad)]


def tasks(tier):
    ts = [('contracts.c17', 'check_task', (True,)), ('contracts.c17', 'check_task', (False,)),
          ('contracts.c17', 'second_check_clean', ()), ('contracts.c17', 'nofix_is_readonly', ()),
          ('contracts.fanout_common', 'aggregate', ('check',))]
    return ts


def post_process(results, tier):
    out = []
    for r in results:
        if r['name'].startswith('C13.check'):
            r = Result('C17.fanout.' + r['name'][4:], r['kind'], r['verdict'],
                       **{k: v for k, v in r.items() if k not in ('name', 'kind', 'verdict')})
        out.append(r)
    return out


def meta(results, tier):
    return {'functions': {'verified_bodies': ['diskcache.core.Cache.check (rows-versus-files, count and size phases)', 'diskcache.fanout.FanoutCache.check'],
                          'assumed_contracts': ['Cache.reset', 'os.path.exists / getsize as the ghost file map'],
                          'not_under_contract': ['the two os.walk phases of Cache.check (unknown files, empty directories): bounded stand-in only']},
            'assumptions': ['arbitrary damage = any table with a consistent unique index, any files, any counters; a corrupted database file is outside',
                            'PRAGMA integrity_check returns ok', 'finite-sum arithmetic for SUM(size)'],
            'explanation': 'check() executed with an inductive invariant over the fetched file-backed rows; post-state feeds a second symbolic check'}

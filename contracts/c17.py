"""C17 -- check(fix=True) repairs out-of-band damage; plain check() only reports.

Under contract (Cache.check executed from /repo on the symbolic table model, with ARBITRARY damage:
any table satisfying only the index invariant, any files with any sizes, any count/size counters):
  * rows-versus-files phase: inductive invariant over the fetched rows (any number): processed rows
    whose file is missing are dropped (fix) and rows whose file has another size get the real size
    (fix); unprocessed and undamaged rows are untouched; without fix nothing changes;
  * count / size phases: after fix the counters equal the recomputed values;
  * C17.check.postcondition[fix]: every remaining file-backed row names an existing file of the
    recorded size, counters agree, undamaged rows unchanged;
  * C17.check.second_check_clean: from that post-state a further check() emits no warning in these
    phases (every path with a warning is infeasible);
  * C17.check.nofix_is_readonly: structural -- every mutating call of check() (UPDATE / DELETE /
    VACUUM statements, os.remove, os.rmdir) is dominated by `if fix:`;
  * FanoutCache.check concatenates the per-shard results (C13);
  * the two os.walk phases, against the environment contract of os.walk stated in install_walk: for an
    ARBITRARY walked directory the code compares set(join(dirpath, f) for f in files) with the set of
    paths of all file-backed rows (`filenames`: every row-loop step adds its row's path), and for an
    ARBITRARY element of the difference: only paths containing the database name are exempt, every
    other one is reported once as UnknownFileWarning naming it and, with fix, exactly it is removed;
    for an ARBITRARY directory of the second, bottom-up walk: it is listed unless it is the cache
    directory, reported as EmptyDirWarning iff empty and, with fix, exactly it is removed.
    That these per-element facts add up to "no unknown file and no empty directory is left" is an
    induction over the walk that is argued on paper only; the second symbolic check() assumes it.
    The bounded native stand-in (damage combinations at three depths) cross-checks the phases.
"""
import ast
import z3

from pyvc.check import Result, discharge
from pyvc.engine import explore, Unsupported, EnvFunc
from pyvc.loops import LoopSpec, SymSeq
from pyvc import sqlmodel as SM
from pyvc.sqlmodel import DbVal, SUM
from pyvc.env import int_term
from contracts.cache_common import *   # noqa
from contracts import cache_common as cc
from contracts import c03

ALWAYS_STANDIN = True
_I = z3.IntSort()


def rel_name(it, cache, path):
    """full path (directory + '/' + filename) -> the relative filename term."""
    d = cache.fields['_directory'].t
    t = path.t
    if t.decl().name() == 'os_path_normpath':
        t = t.arg(0)        # another spelling of the same path: it denotes the same file
    ch = t.children()
    if t.decl().name() == 'str.++' and len(ch) >= 2 and ch[0].eq(d):
        rest = ch[1:]
        if len(rest) == 1 and rest[0].decl().name() == 'str.++':
            rest = rest[0].children()
        if rest and z3.is_string_value(rest[0]) and rest[0].as_string() == '/':
            tail = rest[1:]
            return tail[0] if len(tail) == 1 else z3.Concat(*tail)
    raise Unsupported('path %s is not <directory>/<filename>' % t)


def install(ctx, st_cache_holder):
    env = ctx.env

    def exists(it, a, k):
        cache = it.st.ghost['self']
        fn = rel_name(it, cache, a[0])
        w = cc.F(it.st)
        return SV('bool', z3.Select(w['F.exists'], fn))

    def getsize(it, a, k):
        cache = it.st.ghost['self']
        fn = rel_name(it, cache, a[0])
        w = cc.F(it.st)
        v = z3.Select(w['F.size'], fn)
        it.st.assume(v >= 0)
        it.st.ghost.setdefault('int64', set()).add(v.get_id())
        return SV('int', v)
    env.modules['os.path']['exists'] = EnvFunc('os.path.exists', exists)
    env.modules['os.path']['getsize'] = EnvFunc('os.path.getsize', getsize)
    install_walk(ctx)


# ------------------------------------------------------------------ the two os.walk phases
# Environment contract of os.walk(top, topdown) (trusted, stdlib docs): a finite sequence of triples
# (dirpath, dirnames, filenames) covering every directory below `top` once -- `top` itself included --
# where filenames lists exactly the non-directory entries of dirpath; with topdown=False a directory
# comes after all of its subdirectories.  The model hands out the i-th triple of the w-th walk through
# uninterpreted functions; what the code does with an ARBITRARY triple, and with an ARBITRARY element of
# set(paths) - filenames, is what the obligations are about.
_S = z3.StringSort()
WDIR = z3.Function('walk_dirpath', _I, _I, _S)
WNF = z3.Function('walk_nfiles', _I, _I, _I)
WFILE = z3.Function('walk_file', _I, _I, _I, _S)


class SymSet(Obj):
    """A set known by its membership predicate; `base` = the MappedSeq it was built from (set(list)),
    `minus` = the set subtracted from it."""

    def __init__(self, member, base=None, minus=None, tag='set'):
        Obj.__init__(self, 'SymSet', {})
        self.member, self.base, self.minus, self.tag = member, base, minus, tag


def install_walk(ctx):
    env = ctx.env
    from contracts import fanout_common as fc
    from pyvc.loops import MappedSeq
    fc.install_seq_support(env)

    def walk(it, a, k):
        st = it.st
        w = len([e for e in st.trace if e[0] == 'WALK'])
        top = a[0]
        topdown = k.get('topdown', a[1] if len(a) > 1 else True)
        n = st.fresh('walk_len_%d' % w, _I)
        st.assume(n >= 1)                    # at least `top` itself
        st.effect('WALK', w=w, top=top, topdown=topdown, n=n)

        def elem(i):
            files = SymSeq(WNF(w, i), lambda j: SV('str', WFILE(w, i, j)), kind='list', tag='files')
            files.walk_pos = (w, i)
            return (SV('str', WDIR(w, i)), Opaque('other', st.fresh('dirnames', OTHER)), files)
        seq = SymSeq(n, elem, tag='walk')
        facts = [lambda i: WNF(w, i) >= 0]
        if getattr(ctx, 'walk_post', False) and w == 0:
            # state after the unknown-files phase of check(fix=True) (by its per-file obligations and the walk
            # contract): every file below the directory is referenced by a row or is a database file
            fs = filenames_set(it)
            j = z3.Int('j_wpost')
            path = lambda i, jj: z3.Concat(WDIR(w, i), z3.StringVal('/'), WFILE(w, i, jj))
            facts.append(lambda i: z3.ForAll([j], z3.Implies(z3.And(j >= 0, j < WNF(w, i)),
                                                             z3.Or(fs.member(path(i, j)), z3.Contains(path(i, j), z3.StringVal('cache.db'))))))
        seq.elem_facts = lambda i: z3.And(*[f(i) for f in facts])
        seq.walk_id = w
        return seq
    env.modules['os']['walk'] = EnvFunc('os.walk', walk)

    def listdir(it, a, k):
        # after the empty-directories phase of check(fix=True) no directory below the top is empty
        empty = False if getattr(ctx, 'walk_post', False) else it.st.decide(2) == 0
        it.st.effect('LISTDIR', path=a[0], empty=empty)
        return [] if empty else ['entry']
    env.modules['os']['listdir'] = EnvFunc('os.listdir', listdir)
    env.modules['os']['rmdir'] = EnvFunc('os.rmdir', lambda it, a, k: it.st.effect('RMDIR', path=a[0]))
    env.modules['os']['remove'] = EnvFunc('os.remove', lambda it, a, k: it.st.effect('OS_REMOVE', path=a[0]))
    if not getattr(env, '_c17_sets', False):
        env._c17_sets = True
        old_call_type = env.call_type

        def call_type(it, t, a, k):
            if t.name == 'set' and a and isinstance(a[0], MappedSeq):
                m = a[0]
                j = z3.Int('j_setof')
                val = term_of(m.value)
                member = lambda p: z3.Exists([j], z3.And(j >= 0, j < m.seq.n, p == z3.substitute(val, (m.index, j))))
                return SymSet(member, base=m, tag='set(paths)')
            return old_call_type(it, t, a, k)
        env.call_type = call_type
        old_binop = env.binop

        def binop(it, op, a, b, inplace=False):
            if op == 'Sub' and isinstance(a, SymSet) and isinstance(b, SymSet):
                return SymSet(lambda p: z3.And(a.member(p), z3.Not(b.member(p))), base=a.base, minus=b, tag='difference')
            return old_binop(it, op, a, b, inplace)
        env.binop = binop

        def set_add(it, o, a, k):
            # filenames.add(path): the set is known by its final membership predicate (every selected row's
            # path); what is added must satisfy it -- and every iteration adds its own row's path (below)
            it.st.effect('SET_ADD', target=o, value=a[0])
            v = a[0]
            if isinstance(v, str):
                v = SV('str', z3.StringVal(v))
            goal = o.member(v.t) if isinstance(v, SV) and v.ty == 'str' else z3.BoolVal(False)   # not even a path string
            it.st.check('C17.check.filenames.add_is_a_row_path', 'post', goal)
            return None
        env.obj_methods['SymSet'] = {'add': set_add}


class ErrorSetLoop(LoopSpec):
    """`for full_path in error` where error = set(paths) - filenames: an arbitrary element is the path at
    some position of `paths` that is not a member of `filenames`."""

    def run(self, it, s, fr, iterable):
        st = it.st
        if not (isinstance(iterable, SymSet) and iterable.base is not None):
            raise Unsupported('loop contract %s expects set(<list>) - <set>, got %r' % (self.name, iterable))
        m, minus = iterable.base, iterable.minus
        if minus is None:
            minus = SymSet(lambda p_: z3.BoolVal(False), tag='nothing subtracted')
        n = st.fresh('error_len', _I)
        sel = st.fresh('error_sel', SM.A_II)
        st.assume(n >= 0)
        val = term_of(m.value)

        def elem(jj):
            return SV('str', z3.substitute(val, (m.index, z3.Select(sel, jj))))
        seq = SymSeq(n, elem, tag='error')
        seq.elem_facts = lambda jj: z3.And(z3.Select(sel, jj) >= 0, z3.Select(sel, jj) < m.seq.n,
                                           z3.Not(minus.member(term_of(elem(jj)))))
        st.effect('ERRORSET', base=m, minus=minus, sel=sel)
        return LoopSpec.run(self, it, s, fr, seq)


def install_walk_loops(ctx):
    TRUE = lambda it, fr, i: z3.BoolVal(True)

    def mark(kind):
        def on_bind(it, fr, i):
            it.st.effect('ITER', loop=kind, i=i, full_path=fr.locals.get('full_path'), dirpath=fr.locals.get('dirpath'),
                         files=fr.locals.get('files'))
        return on_bind
    q = 'diskcache.core.Cache.check'
    ctx.loop_invariants[(q, 2)] = LoopSpec('C17.check.unknown_files.walk', TRUE, on_bind=mark('walk-files'))
    ctx.loop_invariants[(q, 3)] = ErrorSetLoop('C17.check.unknown_files.each', TRUE, on_bind=mark('error'))
    ctx.loop_invariants[(q, 4)] = LoopSpec('C17.check.empty_dirs.walk', TRUE, on_bind=mark('walk-dirs'))


def filenames_set(it):
    """The set `filenames` after (and during) the rows loop: the full paths of all selected rows."""
    st = it.st
    w0 = c03.world0(st)
    d = st.ghost['self'].fields['_directory'].t
    q = z3.Int('q_fn')

    def member(p):
        return z3.Exists([q], z3.And(z3.Select(w0['T.live'], q), z3.Not(z3.Select(w0['T.filename?'], q)),
                                     p == z3.Concat(d, z3.StringVal('/'), z3.Select(w0['T.filename'], q))))
    return SymSet(member, tag='filenames')


def processed(rows, i, q):
    return z3.And(z3.Select(rows.where, q), z3.Select(rows.pos, q) < i)


def install_loop(ctx):
    def inv(it, fr, i):
        st = it.st
        w, w0 = st.world, c03.world0(st)
        rows = fr.locals['rows']
        fix = fr.locals['fix']
        fixb = fix.t if isinstance(fix, SV) else z3.BoolVal(bool(fix))
        q = z3.Int('q_chk')
        where0 = z3.And(z3.Select(w0['T.live'], q), z3.Not(z3.Select(w0['T.filename?'], q)))
        proc = z3.And(where0, z3.Select(rows.pos, q) < i, z3.Select(rows.pos, q) >= 0)
        fn = z3.Select(w0['T.filename'], q)
        ex = z3.Select(w0['F.exists'], fn)
        parts = []
        for c in SM.COLS:
            if c != 'size':
                parts.append(w['T.' + c] == w0['T.' + c])
            if SM.COLS[c][1]:
                parts.append(w['T.' + c + '?'] == w0['T.' + c + '?'])
        parts.append(z3.And(w['F.exists'] == w0['F.exists'], w['F.size'] == w0['F.size']))
        same_row = z3.And(z3.Select(w['T.live'], q) == z3.Select(w0['T.live'], q), z3.Select(w['T.size'], q) == z3.Select(w0['T.size'], q))
        parts.append(z3.ForAll([q], z3.Implies(z3.Not(proc), same_row)))
        fixed = z3.If(ex, z3.And(z3.Select(w['T.live'], q), z3.Select(w['T.size'], q) == z3.Select(w0['F.size'], fn)),
                      z3.Not(z3.Select(w['T.live'], q)))
        parts.append(z3.ForAll([q], z3.Implies(proc, z3.If(fixb, fixed, same_row))))
        # without fix nothing at all has changed
        parts.append(z3.Or(fixb, z3.And(*[w[k] == w0[k] for k in ('T.live', 'T.size', 'T.idx', 'T.card', 'S.count', 'S.size')])))
        for nm, part in SM.invariant(w, with_counters=False, named=True):
            parts.append(part)
        parts.append(z3.BoolVal(bool(st.world.get('txn.active'))))
        return z3.And(*parts)

    def on_havoc(it, fr):
        it.st.ghost['inv_arrays'] = None
        if 'filenames' in fr.locals:
            fr.locals['filenames'] = filenames_set(it)
    shapes = {'full_path': lambda st: None, 'real_size': lambda st: None, 'message': lambda st: None, 'args': lambda st: None,
              'rowid': lambda st: None, 'size': lambda st: None, 'filename': lambda st: None}
    ctx.loop_invariants[('diskcache.core.Cache.check', 1)] = LoopSpec(
        'C17.check.rows_vs_files', inv, havoc_world=['T.live', 'T.idx', 'T.size', 'T.card', 'S.count', 'S.size'],
        on_havoc=on_havoc, shapes=shapes)


def run_check(fix, pre=None):
    ctx = cctx()
    install(ctx, None)
    install_loop(ctx)
    install_walk_loops(ctx)
    old_all = ctx.sql.select_all

    def select_all(it, T, ps, params):
        page = old_all(it, T, ps, params)
        # expose membership / position arrays of the enumeration to the loop invariant
        q = z3.Int('q_w')
        page.where = z3.Lambda([q], ctx.sql.where_at(it, T, ps, params, q))
        page.pos = [e for e in [None]][0]
        return page
    # the enumeration facts are stated through a position array: recover it from the page object
    def select_all2(it, T, ps, params):
        st = it.st
        L = st.fresh('all_len', _I)
        s = st.fresh('all_rows', SM.A_II)
        pos = st.fresh('all_pos', SM.A_II)
        i, q = z3.Ints('i_all q_all')
        st.assume(L >= 0)
        st.assume(z3.ForAll([i], z3.Implies(z3.And(i >= 0, i < L), z3.And(
            ctx.sql.where_at(it, T, ps, params, z3.Select(s, i)), z3.Select(pos, z3.Select(s, i)) == i))))
        st.assume(z3.ForAll([q], z3.Implies(ctx.sql.where_at(it, T, ps, params, q), z3.And(
            z3.Select(pos, q) >= 0, z3.Select(pos, q) < L, z3.Select(s, z3.Select(pos, q)) == q))))
        cols = ps['cols']
        page = SymSeq(L, lambda idx: ctx.sql.row_tuple(it, SM.Table(st), cols, z3.Select(s, idx)), kind='list', tag='allrows')
        page.rows, page.pos, page.stmt = s, pos, ps
        page.where = z3.Lambda([q], ctx.sql.where_at(it, T, ps, params, q))
        T0 = SM.Table(st)
        w_sel = dict(st.world)

        def elem_facts(idx):
            r = z3.Select(s, idx)
            class _T:      # table view frozen at selection time
                w = w_sel
            return z3.And(ctx.sql.where_at(it, _T, ps, params, r), z3.Select(pos, r) == idx)
        page.elem_facts = elem_facts
        return page
    ctx.sql.select_all = select_all2

    def body(st):
        ctx.sql.busy = False
        ctx.sql.faults = False
        it = ctx.interp(st)
        # arbitrary damage: only the index invariant is assumed; counters and files are arbitrary
        T = SM.Table.create(st)
        cc.F(st)
        st.assume(SM.invariant(st.world, with_counters=False))
        st.ghost['inv_arrays'] = {k: st.world[k] for k in ('T.live', 'T.key', 'T.raw', 'T.idx')}
        disk = Obj('DiskC', {})
        cache = ctx.new_obj('diskcache.core.Cache', {'_disk': disk, '_txn_id': None, 'eviction_policy': 'none',
                                                      '_directory': st.fresh_sv('directory', 'str'), '_timeout': 60})
        st.world['tid'] = st.fresh('tid', _I)
        if pre is not None:
            st.assume(pre(st.world))
        st.ghost['T0'] = {k: v for k, v in st.world.items() if k.startswith(('T.', 'S.', 'F.'))}
        st.ghost['self'] = cache
        st.effect('START')
        return it.call(ctx.func('diskcache.core.Cache.check'), [cache], {'fix': fix, 'retry': True})
    try:
        return explore(body, max_paths=4000)
    finally:
        ctx.sql.select_all = old_all


def _strterm(v):
    if isinstance(v, str):
        return z3.StringVal(v)
    return term_of(v)


def walk_obligations(base, p, fix):
    """Obligations of the unknown-files and empty-directories phases on one path (see install_walk)."""
    out = []
    st = p.state
    tr = st.trace
    fn = 'Cache.check'
    d = st.ghost['self'].fields['_directory']

    def RR(name, ok, detail=None):
        out.append(Result('%s.%s' % (base, name), 'trace', 'proved' if ok else 'refuted', ms=0, backend='engine', function=fn,
                          path=p.decisions, detail=None if ok else detail))

    def D(name, goal):
        out.append(discharge('%s.%s' % (base, name), 'post', p.pc, goal, function=fn, path=p.decisions))
    walks = [e[1] for e in tr if e[0] == 'WALK']
    for wk in walks:
        top_ok = wk['top'] is d or (isinstance(wk['top'], SV) and wk['top'].t.eq(d.t))
        if wk['w'] == 0:
            RR('unknown_files.walks_the_cache_directory', top_ok and wk['topdown'] in (True, False), 'os.walk(%r, topdown=%r)' % (wk['top'], wk['topdown']))
        elif wk['w'] == 1:
            RR('empty_dirs.walks_bottom_up', top_ok and wk['topdown'] is False,
               'os.walk(%r, topdown=%r): a directory that only held empty directories must be visited after them' % (wk['top'], wk['topdown']))
        else:
            RR('walks.exactly_two', False, 'a third os.walk')
    if not fix:
        muts = [e[0] for e in tr if e[0] in ('OS_REMOVE', 'RMDIR')]
        RR('walk_phases.nofix_removes_nothing', not muts, 'without fix: %r' % muts)
    its = [(k, e[1]) for k, e in enumerate(tr) if e[0] == 'ITER']
    if not its or p.kind != 'cut':
        return out
    k_last, last = its[-1]
    after = tr[k_last:]
    warns = [e[1] for e in after if e[0] == 'WARN']
    removes = [e[1] for e in after if e[0] == 'OS_REMOVE']
    rmdirs = [e[1] for e in after if e[0] == 'RMDIR']

    def errorset_ok(outer):
        # the inner loop of THIS triple runs over set(join(dirpath, f) for f in files) - filenames
        k_outer, o = outer
        es = [e[1] for e in tr[k_outer:] if e[0] == 'ERRORSET']
        if len(es) != 1:
            RR('unknown_files.every_directory_is_examined', False,
               'the files of a walked directory are not compared with the referenced files (%d set differences in this step)' % len(es))
            return
        m, minus = es[0]['base'], es[0]['minus']
        i = o['i']
        ok = getattr(m.seq, 'walk_pos', None) is not None and m.seq.walk_pos[0] == 0 and getattr(minus, 'tag', '') == 'filenames'
        RR('unknown_files.every_directory_is_examined', ok, 'paths built from %r, subtracting %r' % (getattr(m.seq, 'tag', m.seq), getattr(minus, 'tag', minus)))
        if ok:
            D('unknown_files.paths_are_dirpath_joined_with_each_file',
              z3.And(m.seq.walk_pos[1] == i, term_of(m.value) == z3.Concat(WDIR(0, i), z3.StringVal('/'), WFILE(0, i, m.index))))
    if last['loop'] == 'error':
        outer = [x for x in its if x[1]['loop'] == 'walk-files'][-1]
        errorset_ok(outer)
        x = term_of(last['full_path'])
        is_db = z3.Contains(x, z3.StringVal('cache.db'))
        if not warns and not removes:
            D('unknown_files.only_database_files_are_exempt', is_db)
        else:
            okw = len(warns) == 1 and getattr(warns[0]['category'], 'name', warns[0]['category']) == 'UnknownFileWarning'
            RR('unknown_files.reported_once_as_unknown', okw, 'warnings %r' % [(w_['message'], w_['category']) for w_ in warns])
            if okw:
                D('unknown_files.report_names_the_file', z3.And(z3.Not(is_db), _strterm(warns[0]['message']) == z3.Concat(z3.StringVal('unknown file: '), x)))
            if fix:
                okr = len(removes) == 1
                RR('unknown_files.fix_removes_it', okr, '%d removals' % len(removes))
                if okr:
                    D('unknown_files.fix_removes_exactly_it', term_of(removes[0]['path']) == x)
            else:
                RR('unknown_files.nofix_keeps_it', not removes, 'removed without fix')
        RR('unknown_files.no_directory_removed', not rmdirs, 'rmdir in the unknown-files phase')
    elif last['loop'] == 'walk-files':
        errorset_ok((k_last, last))
        RR('unknown_files.nothing_outside_the_inner_loop', not warns and not removes and not rmdirs, 'effects %r' % [e[0] for e in after])
    elif last['loop'] == 'walk-dirs':
        dp = term_of(last['dirpath'])
        lds = [e[1] for e in after if e[0] == 'LISTDIR']
        is_top = dp == d.t
        if not lds:
            RR('empty_dirs.unlisted_directory_untouched', not warns and not rmdirs, 'effects without listing the directory')
            D('empty_dirs.only_the_cache_directory_is_skipped', is_top)
        else:
            okl = len(lds) == 1
            RR('empty_dirs.listed_once', okl, '%d listings' % len(lds))
            if okl:
                D('empty_dirs.lists_the_walked_directory', z3.And(term_of(lds[0]['path']) == dp, z3.Not(is_top)))
                if lds[0]['empty']:
                    okw = len(warns) == 1 and getattr(warns[0]['category'], 'name', warns[0]['category']) == 'EmptyDirWarning'
                    RR('empty_dirs.empty_directory_reported', okw, 'warnings %r' % [(w_['message'], w_['category']) for w_ in warns])
                    if okw:
                        D('empty_dirs.report_names_the_directory', _strterm(warns[0]['message']) == z3.Concat(z3.StringVal('empty directory: '), dp))
                    if fix:
                        okr = len(rmdirs) == 1
                        RR('empty_dirs.fix_removes_it', okr, '%d rmdir calls' % len(rmdirs))
                        if okr:
                            D('empty_dirs.fix_removes_exactly_it', term_of(rmdirs[0]['path']) == dp)
                    else:
                        RR('empty_dirs.nofix_keeps_it', not rmdirs, 'rmdir without fix')
                else:
                    RR('empty_dirs.non_empty_directory_untouched', not warns and not rmdirs, 'effects %r on a non-empty directory' % [e[0] for e in after])
        RR('empty_dirs.no_file_removed', not removes, 'os.remove in the empty-directories phase')
    return out


def post_state(w):
    q = z3.Int('q_post17')
    fn = z3.Select(w['T.filename'], q)
    rows_ok = z3.ForAll([q], z3.Implies(z3.And(z3.Select(w['T.live'], q), z3.Not(z3.Select(w['T.filename?'], q))),
                                       z3.And(z3.Select(w['F.exists'], fn), z3.Select(w['T.size'], q) == z3.Select(w['F.size'], fn))))
    return [('rows_vs_files', rows_ok), ('count', w['S.count'] == w['T.card']),
            ('size', w['S.size'] == SUM(w['T.size'], w['T.live']))]


def check_task(fix):
    out = []
    paths = run_check(fix)
    nret = 0
    for n, p in enumerate(paths):
        st = p.state
        base = 'C17.check[fix=%s]#%d' % (fix, n)
        fn = 'Cache.check'
        for o in st.obligations:
            out.append(discharge('%s/%s' % (base, o.name), o.kind, o.pc, o.goal, function=fn, path=p.decisions))
        out += walk_obligations(base, p, fix)
        if p.kind == 'cut':
            continue
        if p.kind != 'return':
            r = discharge(base + '.no_exception', 'post', p.pc, z3.BoolVal(False), function=fn, path=p.decisions)
            r['detail'] = 'raises %r' % (p.value,) if r['verdict'] != 'proved' else None
            out.append(r)
            continue
        nret += 1
        w, w0 = st.world, c03.world0(st)
        q = z3.Int('q_c17')
        if fix:
            for nm, g in post_state(w):
                out.append(discharge('%s.postcondition.%s' % (base, nm), 'post', p.pc, g, function=fn, path=p.decisions))
            fn0 = z3.Select(w0['T.filename'], q)
            healthy = z3.And(z3.Select(w0['T.live'], q),
                             z3.Or(z3.Select(w0['T.filename?'], q),
                                   z3.And(z3.Select(w0['F.exists'], fn0), z3.Select(w0['T.size'], q) == z3.Select(w0['F.size'], fn0))))
            untouched = z3.ForAll([q], z3.Implies(healthy, z3.And(z3.Select(w['T.live'], q), z3.Select(w['T.size'], q) == z3.Select(w0['T.size'], q))))
            out.append(discharge(base + '.undamaged_rows_untouched', 'post', p.pc, untouched, function=fn, path=p.decisions))
            cells = z3.And(*[w['T.' + c] == w0['T.' + c] for c in SM.COLS if c != 'size'])
            out.append(discharge(base + '.cells_untouched', 'frame', p.pc, cells, function=fn, path=p.decisions))
        else:
            out.append(discharge(base + '.changes_nothing', 'frame', p.pc, c03.eq_world(w0, w), function=fn, path=p.decisions))
        out.append(Result(base + '.transaction_closed', 'trace', 'proved' if not st.world.get('txn.active') else 'refuted',
                          ms=0, backend='engine', function=fn, path=p.decisions))
    if nret == 0:
        out.append(Result('C17.check[fix=%s]' % fix, 'vacuity', 'error', detail='no returning path'))
    return out


def second_check_clean():
    """From the post-state of check(fix=True) a further check() finds nothing in the contract-covered phases."""
    out = []

    def pre(w):
        return z3.And(*[g for _, g in post_state(w)])
    ctx = cctx()
    ctx.walk_post = True
    try:
        paths = run_check(False, pre=pre)
    finally:
        ctx.walk_post = False
    for n, p in enumerate(paths):
        warns = [e[1] for e in p.state.trace if e[0] == 'WARN']
        base = 'C17.check.second_check_clean#%d' % n
        for o in p.state.obligations:
            if o.kind == 'inv-entry':
                continue
        if warns:
            out.append(discharge(base + '.warning_path_infeasible', 'post', p.pc, z3.BoolVal(False), function='Cache.check',
                                 path=p.decisions))
        elif p.kind == 'return':
            ok = isinstance(p.value, list) and len(p.value) == 0
            out.append(Result(base + '.no_warnings', 'post', 'proved' if ok else 'refuted', ms=0, backend='engine',
                              function='Cache.check', path=p.decisions, detail=None if ok else 'returns %r' % (p.value,)))
    if not out:
        out.append(Result('C17.check.second_check_clean', 'vacuity', 'error', detail='no paths'))
    return out


MUTATING_SQL = ('UPDATE', 'DELETE', 'VACUUM', 'INSERT')


def nofix_is_readonly():
    """Structural: every mutating call inside Cache.check is dominated by `if fix:`."""
    ctx = cctx()
    fv = ctx.func('diskcache.core.Cache.check')
    bad = []

    def is_mutating(call):
        f = call.func
        if isinstance(f, ast.Attribute) and isinstance(f.value, ast.Name) and f.value.id == 'os' and f.attr in ('remove', 'rmdir', 'removedirs', 'unlink'):
            return 'os.' + f.attr
        if isinstance(f, ast.Name) and f.id in ('sql',) and call.args:
            a0 = call.args[0]
            if isinstance(a0, ast.Constant) and isinstance(a0.value, str) and a0.value.lstrip().upper().startswith(MUTATING_SQL):
                return a0.value.strip()[:40]
            if not isinstance(a0, ast.Constant):
                return None if isinstance(a0, ast.Name) and a0.id in ('select', 'select_size') else 'sql(<non-constant>)'
        if isinstance(f, ast.Attribute) and f.attr in ('remove', 'rmtree') and not isinstance(f.value, ast.Name):
            return ast.unparse(f)
        return None

    def walk(stmts, guarded):
        for s in stmts:
            if isinstance(s, ast.If):
                g = guarded or (isinstance(s.test, ast.Name) and s.test.id == 'fix')
                walk(s.body, g)
                walk(s.orelse, guarded)
                continue
            for fld in ('body', 'orelse', 'finalbody', 'handlers'):
                sub = getattr(s, fld, None)
                if sub and fld != 'handlers':
                    walk(sub, guarded)
                elif sub:
                    for h in sub:
                        walk(h.body, guarded)
            for node in ast.walk(s) if not hasattr(s, 'body') else [x for x in ast.iter_child_nodes(s) if isinstance(x, ast.expr)]:
                for c in ast.walk(node):
                    if isinstance(c, ast.Call):
                        m = is_mutating(c)
                        if m and not guarded:
                            bad.append('line %d: %s' % (c.lineno, m))
    walk(fv.node.body, False)
    return [Result('C17.check.nofix_is_readonly', 'trace', 'proved' if not bad else 'refuted', ms=0, backend='engine',
                   function='Cache.check', detail=None if not bad else 'mutating call(s) not guarded by `if fix:` %r' % bad)]


def tasks(tier):
    ts = [('contracts.c17', 'check_task', (True,)), ('contracts.c17', 'check_task', (False,)),
          ('contracts.c17', 'second_check_clean', ()), ('contracts.c17', 'nofix_is_readonly', ()),
          ('contracts.fanout_common', 'aggregate', ('check',))]
    return ts


def post_process(results, tier):
    out = []
    for r in results:
        if r['name'].startswith('C13.check'):
            r = Result('C17.fanout.' + r['name'][4:], r['kind'], r['verdict'],
                       **{k: v for k, v in r.items() if k not in ('name', 'kind', 'verdict')})
        out.append(r)
    return out


def meta(results, tier):
    return {'functions': {'verified_bodies': ['diskcache.core.Cache.check (all five phases)', 'diskcache.fanout.FanoutCache.check'],
                          'assumed_contracts': ['Cache.reset', 'os.path.exists / getsize as the ghost file map',
                                                'os.walk / os.listdir (environment contract in contracts/c17.py install_walk)',
                                                'set(list) and set difference as membership predicates']},
            'assumptions': ['walk phases: per-directory and per-file obligations are discharged; their sum over the whole walk (nothing unknown or '
                            'empty is left) is a paper induction, assumed by second_check_clean',
                            'arbitrary damage = any table with a consistent unique index, any files, any counters; a corrupted database file is outside',
                            'PRAGMA integrity_check returns ok', 'finite-sum arithmetic for SUM(size)'],
            'explanation': 'check() executed with an inductive invariant over the fetched file-backed rows; post-state feeds a second symbolic check'}

"""Shared pieces of the Disk-level contracts (C01, C02, C13, C18 format pins).

Spec functions here are written from the property statements and from the
SQLite / sqlite3 binding contract, never by calling the code under test.
"""
import math
import z3

from pyvc.api import *          # noqa
from pyvc.env import num_eq_int_float, INT64_MIN, INT64_MAX, int_term
from pyvc import envlib as L

KEY_CLASSES = ['str', 'bytes', 'int', 'float', 'bool', 'none', 'other']
OTHERSORT = OTHER

_ctx_cache = {}


def context(*mods):
    key = tuple(mods)
    if key not in _ctx_cache:
        _ctx_cache[key] = Context().load(*mods)
    return _ctx_cache[key]


def sym_value(cls, name):
    """A symbolic Python value of class `cls` plus its domain constraints."""
    if cls == 'str':
        return SV('str', z3.String(name)), []
    if cls == 'bytes':
        return SV('bytes', z3.Const(name, BYTES)), []
    if cls == 'int':
        return SV('int', z3.Int(name)), []
    if cls == 'float':
        return SV('float', z3.FP(name, F64)), []
    if cls == 'bool':
        return SV('bool', z3.Bool(name)), []
    if cls == 'none':
        return None, []
    if cls == 'other':
        return Opaque('other', z3.Const(name, OTHER)), []
    raise KeyError(cls)


def make_disk(ctx, st, kind='Disk'):
    mfs = st.fresh_sv('min_file_size', 'int')
    pp = st.fresh_sv('pickle_protocol', 'int')
    d = st.fresh_sv('directory', 'str')
    st.assume(mfs.t >= 0)
    st.assume(z3.And(pp.t >= 0, pp.t <= 5))
    st.assume(z3.Not(z3.SuffixOf(z3.StringVal('/'), d.t)))
    fields = {'_directory': d, 'min_file_size': mfs, 'pickle_protocol': pp}
    if kind == 'JSONDisk':
        cl = st.fresh_sv('compress_level', 'int')
        st.assume(z3.And(cl.t >= 0, cl.t <= 9))
        fields['compress_level'] = cl
    return ctx.new_obj('diskcache.core.' + kind, fields)


def is_nan_key(v):
    if isinstance(v, SV) and v.ty == 'float':
        return z3.fpIsNaN(v.t)
    return z3.BoolVal(False)


# ---------------------------------------------------------------- spec: key equality (C02)
def in_int64(t):
    return z3.And(t >= INT64_MIN, t <= INT64_MAX)


def spec_key_equal(c1, k1, c2, k2):
    """Documented key equality: text, bytes and numbers held natively compare as
    in Python; every other key (bool, None, ints beyond 64 bits, containers,
    user objects) is identified by its type and structure."""
    F = z3.BoolVal(False)
    if c1 == 'none' and c2 == 'none':
        return z3.BoolVal(True)
    if c1 == 'none' or c2 == 'none':
        return F
    if c1 == c2 and c1 in ('str', 'bytes', 'bool'):
        return k1.t == k2.t
    if c1 == 'other' and c2 == 'other':
        return k1.t == k2.t
    if c1 == 'int' and c2 == 'int':
        return k1.t == k2.t
    if c1 == 'float' and c2 == 'float':
        return z3.fpEQ(k1.t, k2.t)
    if {c1, c2} == {'int', 'float'}:
        i, f = (k1, k2) if c1 == 'int' else (k2, k1)
        return z3.And(in_int64(i.t), num_eq_int_float(i.t, f.t))
    return F


# ---------------------------------------------------------------- spec: SQLite
def sqlite_bind_ok(v):
    """Whether sqlite3 accepts the Python value as a parameter (else it raises)."""
    if isinstance(v, SV) and v.ty == 'int':
        return in_int64(v.t)
    if isinstance(v, SV) and v.ty == 'str':
        return z3.Not(L.has_surrogate(v.t))
    return z3.BoolVal(True)


def sql_eq(a, b):
    """SQLite `=` between two bound key values (storage-class aware)."""
    ca, cb = _sclass(a), _sclass(b)
    if ca == 'NULL' or cb == 'NULL':
        return z3.BoolVal(False)
    if ca == cb == 'INTEGER':
        return int_term(a) == int_term(b)
    if ca == cb == 'REAL':
        return z3.fpEQ(term_of(a), term_of(b))
    if {ca, cb} == {'INTEGER', 'REAL'}:
        i, f = (a, b) if ca == 'INTEGER' else (b, a)
        return num_eq_int_float(int_term(i), term_of(f))
    if ca == cb == 'TEXT':
        return term_of(a) == term_of(b)
    if ca == cb == 'BLOB':
        return term_of(a.b) == term_of(b.b)
    return z3.BoolVal(False)


def _sclass(v):
    if v is None:
        return 'NULL'
    if isinstance(v, Bin):
        return 'BLOB'
    if isinstance(v, bool) or (isinstance(v, SV) and v.ty == 'bool'):
        return 'INTEGER'
    c = py_class(v)
    if c is T_INT:
        return 'INTEGER'
    if c is T_FLOAT:
        return 'REAL'
    if c is T_STR:
        return 'TEXT'
    if c is T_BYTES:
        return 'BLOB?'      # plain bytes bind as BLOB too
    raise Unsupported('sqlite storage class of %r' % (v,))


def sqlite_column(v):
    """What a SELECT returns for a value that was bound as `v` (NaN excluded)."""
    if isinstance(v, Bin):
        return v.b                      # BLOB columns come back as bytes
    if isinstance(v, bool):
        return int(v)
    if isinstance(v, SV) and v.ty == 'bool':
        return SV('int', z3.If(v.t, z3.IntVal(1), z3.IntVal(0)))
    return v


def same_value_and_type(a, b):
    """`a` is the same Python value as `b`, including its class (z3 Bool)."""
    pa, pb = to_pyobj(a), to_pyobj(b)
    if pa is None or pb is None:
        raise Unsupported('identity of %r vs %r' % (a, b))
    return pa == pb


# ---------------------------------------------------------------- concretisation
def py_literal(model, v):
    """Python source text of the model's value for symbolic value v."""
    if v is None:
        return 'None'
    if isinstance(v, (bool, int, str, bytes)):
        return repr(v)
    if isinstance(v, float):
        return _float_src(v)
    if isinstance(v, SV):
        t = model.eval(v.t, model_completion=True)
        if v.ty == 'int':
            return str(t.as_long())
        if v.ty == 'bool':
            return 'True' if z3.is_true(t) else 'False'
        if v.ty == 'str':
            return repr(_z3_str(t))
        if v.ty == 'bytes':
            return repr(_z3_bytes(t))
        if v.ty == 'float':
            return _fp_src(t)
        if v.ty == 'real':
            return _real_src(t)
    if isinstance(v, Opaque) and v.kind == 'other':
        t = model.eval(v.t, model_completion=True)
        return 'OTHER(%r)' % str(t)
    raise Unsupported('no literal for %r' % (v,))


def _float_src(x):
    if x != x:
        return "float('nan')"
    if x in (float('inf'), float('-inf')):
        return "float('%s')" % ('inf' if x > 0 else '-inf')
    return repr(x)


def _fp_src(t):
    if z3.is_fp_value(t) or True:
        try:
            if t.isNaN():
                return "float('nan')"
            if t.isInf():
                return "float('-inf')" if t.isNegative() else "float('inf')"
            if t.isZero():
                return '-0.0' if t.isNegative() else '0.0'
            sign = -1.0 if t.sign() else 1.0
            sig = t.significand_as_long()
            exp = t.exponent_as_long(biased=True)
            if exp == 0:
                val = math.ldexp(sig, -1074)
            else:
                val = math.ldexp((1 << 52) | sig, exp - 1075)
            return repr(sign * val)
        except Exception:
            pass
    return 'float(%r)' % str(t)


def _real_src(t):
    try:
        return repr(float(t.numerator_as_long()) / float(t.denominator_as_long()))
    except Exception:
        return repr(float(str(t).replace('?', '')))


def _z3_str(t):
    s = t.as_string()
    # z3 escapes non-printables as \u{..}
    import re
    return re.sub(r'\\u\{([0-9a-fA-F]+)\}', lambda m: chr(int(m.group(1), 16)), s)


def _z3_bytes(t):
    out = []

    def walk(x):
        if z3.is_app(x):
            n = x.decl().name()
            if n == 'seq.unit':
                out.append(x.arg(0).as_long())
                return
            if n == 'seq.empty':
                return
            for c in x.children():
                walk(c)
    walk(t)
    return bytes(out)

"""C15 -- Lock, RLock and BoundedSemaphore exclude; barrier wraps.

Rely/guarantee over atomic steps.  Each recipe method, executed from /repo
against a Recorder for the real Cache class, is a loop of steps; a step is one
atomic cache operation (Cache.add / delete: atomic by C03/C05) or one
transaction block (atomic by C06 under A-SQL-iso).  Between steps the shared
entry may change arbitrarily within the recipe's invariant:
  Lock       entry present  <=>  exactly one holder
  RLock      entry = (owner, n), n >= 0; held (by owner) iff n > 0
  Semaphore  entry = N - |holders|, 0 <= entry <= N
Obligations per path: atomic_step (reads and the write of a step lie in ONE
block and the value written is computed from the read of that same block),
transition (the step changes the entry only as specified and preserves the
invariant; acquire succeeds only from a free state or, for RLock, for the
owner), refusal (releasing what is not held raises before any write).
Liveness ("a waiting acquirer succeeds once released") is not decided.
"""
import z3

from pyvc.api import *          # noqa
from pyvc.check import Result, discharge
from pyvc.engine import explore, EnvFunc, Unsupported, StarPack, SeqV
from pyvc.loops import LoopSpec
from pyvc import mock, symargs as SA
from pyvc.mock import Recorder
from pyvc.env import int_term
from contracts.disk_common import context
from contracts.c16 import FuncRecorder, install_func_recorder
from contracts.c20 import in_block

_c = {}
TRUE_INV = lambda it, fr, i: z3.BoolVal(True)


def cctx():
    if 'c' not in _c:
        c = context('core', 'recipes')
        mock.install(c.env)
        SA.install(c.env)
        install_func_recorder(c.env)
        for q in ('Lock.acquire', 'RLock.acquire', 'BoundedSemaphore.acquire'):
            c.loop_invariants[('diskcache.recipes.' + q, 0)] = LoopSpec('C15.%s.loop' % q, TRUE_INV)
        _c['c'] = c
    return _c['c']


def mentions(term_value, sym):
    """Does the (python-level) value mention z3 constant `sym`?"""
    ts = []

    def collect(v):
        if isinstance(v, (SV, Dyn, Opaque)) and isinstance(v.t, z3.ExprRef):
            ts.append(v.t)
        elif isinstance(v, (tuple, list)):
            for x in v:
                collect(x)
    collect(term_value)
    target = sym.get_id()

    def has(t, seen):
        if t.get_id() in seen:
            return False
        seen.add(t.get_id())
        if t.get_id() == target:
            return True
        return any(has(c, seen) for c in t.children())
    return any(has(t, set()) for t in ts)


def R(name, ok, fn, p, detail=None, kind='trace'):
    return Result(name, kind, 'proved' if ok else 'refuted', ms=0, backend='engine', function=fn,
                  path=p.decisions, detail=None if ok else detail)


def mk(ctx, st, cls, outcomes, extra=None):
    """The recipe object as its real __init__ builds it (so that attributes a refactoring adds there exist),
    in SOME process and thread: afterwards the object may be used after a fork or after unpickling, so
    the process and thread identities are new unknowns when the method under contract runs."""
    cache = Recorder('cache', ctx.cls('diskcache.core.Cache'), outcomes=outcomes)
    it = ctx.interp(st)
    key = Opaque('other', st.fresh('key', OTHER))
    tag = Opaque('other', st.fresh('tag', OTHER))
    kw = {'expire': None, 'tag': tag}        # requires: no expiry (with an expiry the lock is a lease by design)
    if extra and '_value' in extra:
        kw['value'] = extra['_value']
    obj = it.instantiate(ctx.cls('diskcache.recipes.' + cls), [cache, key], kw)
    for k_ in ('pid', 'tid'):
        st.world.pop(k_, None)               # a later os.getpid() / get_ident() reads the identity of the caller
    st.trace[:] = [e for e in st.trace if e[0] != 'CALL']
    return obj, cache


def cache_calls(tr):
    return [(i, e[1]) for i, e in enumerate(tr) if e[0] == 'CALL']


# ------------------------------------------------------------------ Lock
def lock():
    ctx = cctx()
    out = []
    for meth in ('acquire', 'release', 'locked'):
        def run(st, meth=meth):
            it = ctx.interp(st)

            def outcomes(nm, b):
                if nm == 'add':
                    return [('return', lambda it2, b2, n: True), ('return', lambda it2, b2, n: False)]
                return ['return']
            obj, cache = mk(ctx, st, 'Lock', outcomes)
            st.ghost['obj'] = obj
            return it.call(it.getattr(obj, meth), [], {})
        for n, p in enumerate(explore(run)):
            tr = p.state.trace
            obj = p.state.ghost['obj']
            cs = cache_calls(tr)
            base = 'C15.Lock.%s#%d' % (meth, n)
            fn = 'recipes.Lock.' + meth
            if meth == 'acquire':
                adds = [c for _, c in cs if c['name'] == 'add']
                okargs = all(c['bound']['key'] is obj.fields['_key'] and c['bound']['value'] is None
                             and c['bound']['retry'] is True and c['bound']['expire'] is None for c in adds)
                only_adds = len(adds) == len(cs)
                if p.kind == 'return':
                    ok = okargs and only_adds and adds and adds[-1]['ret'] is True and all(a['ret'] is False for a in adds[:-1])
                    out.append(R(base + '.transition', ok, fn, p,
                                 'acquire returned without a successful atomic add: %r' % [(c['name'], c['ret']) for _, c in cs]))
                elif p.kind == 'cut':
                    ok = okargs and only_adds and adds and adds[-1]['ret'] is False
                    out.append(R(base + '.waits_only_while_taken', ok, fn, p, 'spins after %r' % [(c['name'], c['ret']) for _, c in cs]))
                else:
                    out.append(R(base + '.no_exception', False, fn, p, 'raises %r' % (p.value,)))
            elif meth == 'release':
                ok = p.kind == 'return' and len(cs) == 1 and cs[0][1]['name'] == 'delete' and \
                    cs[0][1]['bound']['key'] is obj.fields['_key'] and cs[0][1]['bound']['retry'] is True
                out.append(R(base + '.transition', ok, fn, p, 'release does %r' % [c['name'] for _, c in cs]))
            else:
                ok = p.kind == 'return' and len(cs) == 1 and cs[0][1]['name'] == '__contains__'
                out.append(R(base + '.reads_presence', ok, fn, p, 'locked does %r' % [c['name'] for _, c in cs]))
    return out


# ------------------------------------------------------------------ RLock
def rlock():
    ctx = cctx()
    out = []
    for meth in ('acquire', 'release'):
        def run(st, meth=meth):
            it = ctx.interp(st)
            owner = st.fresh_sv('owner', 'str')
            count = st.fresh_sv('count', 'int')
            st.assume(count.t >= 0)                  # invariant of the stored entry

            def outcomes(nm, b):
                if nm == 'get':
                    return [('return', lambda it2, b2, n: b2['default']),
                            ('return', lambda it2, b2, n: (owner, count))]
                return ['return']
            obj, cache = mk(ctx, st, 'RLock', outcomes)
            st.ghost.update(obj=obj, owner=owner, count=count)
            return it.call(it.getattr(obj, meth), [], {})
        for n, p in enumerate(explore(run)):
            st = p.state
            tr = st.trace
            obj, owner, count = st.ghost['obj'], st.ghost['owner'], st.ghost['count']
            cs = cache_calls(tr)
            base = 'C15.RLock.%s#%d' % (meth, n)
            fn = 'recipes.RLock.' + meth
            gets = [(i, c) for i, c in cs if c['name'] == 'get']
            sets = [(i, c) for i, c in cs if c['name'] == 'set']
            atomic = all(in_block(tr, i) for i, _ in gets + sets) and len(sets) <= 1 and \
                (not sets or any(gi < sets[0][0] and same_block(tr, gi, sets[0][0]) for gi, _ in gets))
            out.append(R(base + '.atomic_step', atomic, fn, p, 'read or write outside one transaction block'))
            if not gets:
                out.append(R(base + '.reads_state', False, fn, p, 'no read of the lock entry'))
                continue
            g = gets[-1][1]
            free_default = g['ret'] is g['bound']['default']
            dflt_ok = isinstance(g['bound']['default'], tuple) and g['bound']['default'][0] is None and g['bound']['default'][1] == 0
            me = me_term(st)
            if me is None:
                out.append(R(base + '.identity', False, fn, p, 'owner identity is not "<pid>-<tid>"'))
                continue
            cur_owner = None if free_default else owner.t
            cur_count = z3.IntVal(0) if free_default else count.t
            mine = z3.BoolVal(False) if free_default else (owner.t == me)
            if meth == 'acquire':
                if p.kind == 'return':
                    if len(sets) != 1:
                        out.append(R(base + '.transition', False, fn, p, 'acquire returned without writing'))
                        continue
                    v = sets[0][1]['bound']['value']
                    okshape = isinstance(v, tuple) and len(v) == 2 and sets[0][1]['bound']['key'] is obj.fields['_key'] and dflt_ok
                    if not okshape:
                        out.append(R(base + '.transition', False, fn, p, 'stores %r' % (v,)))
                        continue
                    goal = z3.And(z3.Or(mine, cur_count == 0), term_of(v[0]) == me, int_term(v[1]) == cur_count + 1)
                    out.append(discharge(base + '.transition', 'post', p.pc, goal, function=fn, path=p.decisions))
                elif p.kind == 'cut':
                    goal = z3.And(z3.Not(mine), cur_count > 0)
                    ok = not sets
                    out.append(R(base + '.no_write_while_waiting', ok, fn, p, 'writes while waiting'))
                    out.append(discharge(base + '.waits_only_while_held_by_other', 'post', p.pc, goal, function=fn, path=p.decisions))
                else:
                    out.append(R(base + '.no_exception', False, fn, p, 'raises %r' % (p.value,)))
            else:
                if p.kind == 'raise':
                    ok = p.value.cls == 'AssertionError' and not sets
                    out.append(R(base + '.refusal_before_write', ok, fn, p, 'raises %r after %d writes' % (p.value, len(sets))))
                    out.append(discharge(base + '.refused_only_if_not_held', 'post', p.pc,
                                         z3.Not(z3.And(mine, cur_count > 0)), function=fn, path=p.decisions))
                elif p.kind == 'return':
                    if len(sets) != 1:
                        out.append(R(base + '.transition', False, fn, p, 'release returned without writing'))
                        continue
                    v = sets[0][1]['bound']['value']
                    if not (isinstance(v, tuple) and len(v) == 2):
                        out.append(R(base + '.transition', False, fn, p, 'stores %r' % (v,)))
                        continue
                    goal = z3.And(mine, cur_count > 0, term_of(v[0]) == owner.t, int_term(v[1]) == cur_count - 1)
                    out.append(discharge(base + '.transition', 'post', p.pc, goal, function=fn, path=p.decisions))
    return out


def same_block(tr, i, j):
    """No transaction-block boundary between trace positions i < j."""
    return not any(e[0] in ('CM_ENTER', 'CM_EXIT') and e[1]['name'] == 'transact' for e in tr[i:j])


def me_term(st):
    w = st.world
    if 'pid' not in w or 'tid' not in w:
        return None
    return z3.Concat(z3.IntToStr(w['pid']), z3.StringVal('-'), z3.IntToStr(w['tid']))


# ------------------------------------------------------------------ BoundedSemaphore
def semaphore():
    ctx = cctx()
    out = []
    for meth in ('acquire', 'release'):
        def run(st, meth=meth):
            it = ctx.interp(st)
            N = st.fresh_sv('N', 'int')
            value = st.fresh_sv('value', 'int')
            st.assume(N.t >= 1)
            st.assume(z3.And(value.t >= 0, value.t <= N.t))      # invariant of the stored entry

            def outcomes(nm, b):
                if nm == 'get':
                    return [('return', lambda it2, b2, n: b2['default']),
                            ('return', lambda it2, b2, n: it2.st.ghost['fresh_read'](it2))]
                return ['return']

            def fresh_read(it2):
                # every read of the entry yields some value within the invariant (other clients may act
                # between steps); reads inside one block are serialised by the block
                v = it2.st.fresh_sv('value', 'int')
                it2.st.assume(z3.And(v.t >= 0, v.t <= N.t))
                return v
            st.ghost['fresh_read'] = fresh_read
            obj, cache = mk(ctx, st, 'BoundedSemaphore', outcomes, {'_value': N})
            st.ghost.update(obj=obj, N=N)
            return it.call(it.getattr(obj, meth), [], {})
        for n, p in enumerate(explore(run)):
            st = p.state
            tr = st.trace
            obj, N = st.ghost['obj'], st.ghost['N']
            cs = cache_calls(tr)
            base = 'C15.BoundedSemaphore.%s#%d' % (meth, n)
            fn = 'recipes.BoundedSemaphore.' + meth
            gets = [(i, c) for i, c in cs if c['name'] == 'get']
            sets = [(i, c) for i, c in cs if c['name'] == 'set']
            if sets:
                si = sets[0][0]
                in_same = [(gi, g) for gi, g in gets if gi < si and same_block(tr, gi, si) and in_block(tr, gi)]
                atomic = in_block(tr, si) and len(sets) == 1 and bool(in_same)
                # the value written is computed from the read made inside the same block
                v = sets[0][1]['bound']['value']
                src = in_same[-1][1]['ret'] if in_same else None
                dep = src is not None and (src is N or (isinstance(src, SV) and mentions(v, src.t)) or
                                           (src is in_same[-1][1]['bound']['default']))
                out.append(R(base + '.atomic_step', atomic and dep, fn, p,
                             'the write is not computed from a read inside the same transaction block'))
                cur = src.t if isinstance(src, SV) else N.t
                if meth == 'acquire' and p.kind == 'return':
                    goal = z3.And(cur > 0, int_term(v) == cur - 1)
                    out.append(discharge(base + '.transition', 'post', p.pc, goal, function=fn, path=p.decisions))
                elif meth == 'release' and p.kind == 'return':
                    goal = z3.And(cur < N.t, int_term(v) == cur + 1)
                    out.append(discharge(base + '.transition', 'post', p.pc, goal, function=fn, path=p.decisions))
                else:
                    out.append(R(base + '.transition', False, fn, p, 'writes on a %s path' % p.kind))
            else:
                if meth == 'acquire' and p.kind == 'cut':
                    last = gets[-1][1]['ret'] if gets else None
                    cur = last.t if isinstance(last, SV) else N.t
                    out.append(discharge(base + '.waits_only_when_exhausted', 'post', p.pc, cur <= 0, function=fn, path=p.decisions))
                elif meth == 'release' and p.kind == 'raise':
                    last = gets[-1][1]['ret'] if gets else None
                    cur = last.t if isinstance(last, SV) else N.t
                    ok = p.value.cls == 'AssertionError'
                    out.append(R(base + '.refusal_before_write', ok, fn, p, 'raises %r' % (p.value,)))
                    out.append(discharge(base + '.refused_only_if_nothing_held', 'post', p.pc, cur >= N.t, function=fn, path=p.decisions))
                else:
                    out.append(R(base + '.transition', False, fn, p, '%s path without a write' % p.kind))
    return out


# ------------------------------------------------------------------ barrier
def barrier():
    ctx = cctx()
    out = []

    def run(st):
        it = ctx.interp(st)

        def outcomes(nm, b):
            if nm == 'add':
                # the wait can also be aborted (interrupt, signal) before the lock was obtained
                return [('return', lambda it2, b2, n: True), 'KeyboardInterrupt']
            return ['return']
        cache = Recorder('cache', ctx.cls('diskcache.core.Cache'), outcomes=outcomes)
        func = FuncRecorder('func')
        func.raises = st.decide(2) == 1
        name = st.fresh_sv('name', 'str')
        dec = it.call(ctx.func('diskcache.recipes.barrier'), [cache, ctx.cls('diskcache.recipes.Lock'), name], {})
        wrapper = it.call(dec, [func], {})
        A = SeqV(st.fresh('A', SA.SEQ))
        KW = SA.KwPack(st.fresh('KW', SA.KVSEQ))
        st.ghost.update(A=A, KW=KW, raises=func.raises)
        st.effect('WRAPPED')
        return it.call(wrapper, [StarPack(A)], {'**': StarPack(KW)})
    for n, p in enumerate(explore(run)):
        tr = p.state.trace
        w = max(i for i, e in enumerate(tr) if e[0] == 'WRAPPED')
        post = tr[w:]
        seq = [(e[0], e[1].get('name')) for e in post if e[0] in ('CALL', 'FUNC')]
        names = [('add' if k == 'CALL' and nm == 'add' else 'delete' if k == 'CALL' and nm == 'delete' else 'func' if k == 'FUNC' else nm)
                 for k, nm in seq]
        aborted = any(e[0] == 'CALL' and e[1].get('name') == 'add' and e[1].get('outcome') == 'raise' for e in post)
        if aborted:
            # only a holder releases: an acquire that did not succeed is followed by nothing at all
            ok = names == ['add'] and p.kind == 'raise' and p.value.cls == 'KeyboardInterrupt'
            out.append(R('C15.barrier.aborted_acquire_releases_nothing#%d' % n, ok, 'recipes.barrier.wrapper', p,
                         'after an aborted acquire the wrapper does %r and ends with %s %r' % (names[1:], p.kind, p.value)))
            continue
        ok = names == ['add', 'func', 'delete']
        f = [e[1] for e in post if e[0] == 'FUNC']
        okargs = len(f) == 1 and len(f[0]['args']) == 1 and f[0]['args'][0].v is p.state.ghost['A'] and \
            f[0]['kwargs'].get('**') is not None and f[0]['kwargs']['**'].v is p.state.ghost['KW']
        if p.state.ghost['raises']:
            okres = p.kind == 'raise'
        else:
            okres = p.kind == 'return' and f and p.value is f[0]['ret']
        out.append(R('C15.barrier.wraps#%d' % n, ok and okargs and okres, 'recipes.barrier.wrapper', p,
                     'sequence %r, result %s %r' % (names, p.kind, p.value)))
    return out


def tasks(tier):
    return [('contracts.c15', 'lock', ()), ('contracts.c15', 'rlock', ()), ('contracts.c15', 'semaphore', ()),
            ('contracts.c15', 'barrier', ()),
            ('contracts.traces', 'transact_block', ('C15',)),
            ('contracts.fanout_common', 'fanout_transact', ())] + \
        __import__('contracts.c03', fromlist=['x']).dependency_tasks('C15', ['add', 'delete', 'get', 'set', '__contains__'], tier=tier)    # RLock / BoundedSemaphore steps are one block each


def meta(results, tier):
    return {'functions': {'verified_bodies': ['diskcache.recipes.Lock.acquire/release/locked', 'diskcache.recipes.RLock.acquire/release',
                                              'diskcache.recipes.BoundedSemaphore.acquire/release', 'diskcache.recipes.barrier (decorator, wrapper)'],
                          'assumed_contracts': ['Cache.add / delete / get / set / transact through Recorder: add is atomic and succeeds for exactly '
                                                'one of several concurrent callers (C03 + C05), a transact block is atomic (C06, A-SQL-iso)']},
            'assumptions': ['requires expire is None (with an expiry the recipes are leases by design)',
                            'protocol assumption: only holders release; Lock.release of an un-held lock is silently accepted by the code '
                            '(the statement\'s "refused" is read as applying to RLock and BoundedSemaphore)',
                            'no interleaving is executed: mutual exclusion follows from invariant-preserving atomic steps (paper argument)',
                            'liveness (a waiting acquirer eventually succeeds) is not decided'],
            'explanation': 'every recipe method executed against a recorder cache; each loop iteration is an arbitrary step from any state within the invariant'}


def post_process(results, tier):
    from contracts import c03 as _c03
    out = []
    for r in _c03.dependency_rename('C15', results):
        if r['name'].startswith('C06.fanout.'):
            r = Result('C15.' + r['name'][4:], r['kind'], r['verdict'], **{k: v for k, v in r.items() if k not in ('name', 'kind', 'verdict')})
        out.append(r)
    return out

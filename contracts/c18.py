"""C18 -- data and settings persist and are shared by every handle on the directory.

What contracts can say here:
  * pickling: __getstate__ of Cache / FanoutCache / Deque / Index returns exactly the constructor
    arguments that identify the directory (and timeout / disk type / shard count / maxlen), and
    __setstate__ re-runs __init__ on them (bodies executed from /repo);
  * FanoutCache.__init__ opens shard i in '<dir>/%03d' with the caller's timeout / disk / settings and
    must not override stored settings the caller did not give  (fails: recorded finding, size_limit);
  * Cache._con re-creates the connection exactly when none is cached for this thread or the pid
    changed (fork), and re-applies the per-connection pragmas; Cache.close is idempotent;
  * released on-disk format pins: database name, MODE_* constants, table / index / trigger texts,
    shard directory pattern, value-file layout of Disk.filename, queue key format, and (shared with
    C02 / C13) the key encoding and shard routing functions.
Actual cross-process / fork visibility is SQLite + OS behaviour (A-SQL-iso), not decided here.
"""
import ast
import hashlib
import z3

from pyvc.api import *          # noqa
from pyvc.check import Result, discharge
from pyvc.engine import explore, EnvFunc, Unsupported, ExcVal, PyRaise, raise_py
from pyvc import mock
from pyvc.mock import Recorder, calls
from pyvc.loops import SymSeq
from contracts.disk_common import context, make_disk
from contracts import fanout_common as fc

_c = {}

ALWAYS_STANDIN = True      # cross-process / contended-open scenarios run natively on every change


def cctx():
    if 'c' not in _c:
        c = context('core', 'persistent', 'fanout')
        mock.install(c.env)
        fc.install_seq_support(c.env)
        _c['c'] = c
    return _c['c']


def R(name, ok, fn, detail=None, kind='post', path=None):
    return Result(name, kind, 'proved' if ok else 'refuted', ms=0, backend='engine', function=fn, path=path,
                  detail=None if ok else detail)


def init_recorder(ctx, qual):
    """Record calls of <qual>.__init__ instead of executing it."""
    def hook(it, f, a, k):
        b = it.bind_args(f, a, k)
        selfname = f.node.args.args[0].arg
        it.st.effect('INIT', cls=qual, bound={x: y for x, y in b.items() if x != selfname}, raw=(a[1:], k))
        return None
    ctx.hooks[qual + '.__init__'] = hook


def getstate_setstate():
    ctx = cctx()
    out = []
    specs = {
        'diskcache.core.Cache': (['directory', 'timeout', 'disk'],
                                 lambda st: {'_directory': st.fresh_sv('dir', 'str'), '_timeout': st.fresh_sv('timeout', 'real'),
                                             '_disk': make_disk(ctx, st, 'Disk')}),
        'diskcache.persistent.Deque': (['directory', 'maxlen'],
                                       lambda st: {'_cache': Recorder('cache', ctx.cls('diskcache.core.Cache')),
                                                   '_maxlen': st.fresh_sv('maxlen', 'int')}),
        'diskcache.persistent.Index': (['directory'],
                                       lambda st: {'_cache': Recorder('cache', ctx.cls('diskcache.core.Cache'))}),
        'diskcache.fanout.FanoutCache': (['directory', 'shards', 'timeout', 'disk'],
                                         lambda st: {'_directory': st.fresh_sv('dir', 'str'), '_count': st.fresh_sv('count', 'int'),
                                                     '_shards': SymSeq(z3.Int('nshards'), lambda i: Recorder('shard', ctx.cls('diskcache.core.Cache'), index=i), tag='shards')}),
    }
    for qual, (params, mkfields) in specs.items():
        short = qual.split('.')[-1]
        init_recorder(ctx, qual)
        try:
            def run(st):
                it = ctx.interp(st)
                st.assume(z3.Int('nshards') >= 1)
                obj = ctx.new_obj(qual, mkfields(st))
                state = it.call(it.getattr(obj, '__getstate__'), [], {})
                st.effect('STATE', state=state)
                obj2 = ctx.new_obj(qual, {})
                it.call(it.getattr(obj2, '__setstate__'), [state], {})
                return obj
            for n, p in enumerate(explore(run)):
                name = 'C18.%s.getstate_setstate#%d' % (short, n)
                if p.kind != 'return':
                    out.append(R(name, False, short, 'raises %r' % (p.value,), path=p.decisions))
                    continue
                inits = [e[1] for e in p.state.trace if e[0] == 'INIT']
                state = [e[1]['state'] for e in p.state.trace if e[0] == 'STATE'][0]
                st_t = state if isinstance(state, tuple) else (state,)
                ok = len(inits) == 1 and len(st_t) == len(params)
                detail = 'state %r, __init__ calls %r' % (state, [i['bound'] for i in inits])
                if ok:
                    b = inits[0]['bound']
                    if short == 'Index':
                        b = {'directory': b.get('args', (None,))[0] if len(b.get('args', ())) == 1 and not b.get('kwargs') else None}
                    for pn, sv in zip(params, st_t):
                        if b.get(pn) is not sv:
                            ok = False
                            detail = 'state component for %s reaches __init__ as %r' % (pn, b.get(pn))
                    # the state is what identifies the store
                    obj = p.value
                    f = obj.fields
                    if short == 'Cache':
                        ok = ok and st_t[0] is f['_directory'] and st_t[1] is f['_timeout'] and st_t[2] is f['_disk'].cls
                    if short == 'FanoutCache':
                        ok = ok and st_t[0] is f['_directory'] and st_t[1] is f['_count']
                    if short == 'Deque':
                        ok = ok and st_t[1] is f['_maxlen']
                out.append(R(name, ok, short, detail, path=p.decisions))
        finally:
            ctx.hooks.pop(qual + '.__init__', None)
    return out


def fanout_init():
    """FanoutCache.__init__: shard directories, forwarded arguments, and no override of stored settings."""
    ctx = cctx()
    out = []
    init_recorder(ctx, 'diskcache.core.Cache')
    old_range = ctx.env.builtins['range'].impl

    def sym_range(it, a, k):
        if len(a) == 1 and isinstance(a[0], SV):
            n = a[0].t
            return SymSeq(n, lambda i: SV('int', i), tag='range')
        return old_range(it, a, k)
    ctx.env.builtins['range'] = EnvFunc('range', sym_range)
    old_call_type = ctx.env.call_type

    def call_type(it, t, a, k):
        from pyvc.loops import MappedSeq
        if t.name == 'tuple' and a and isinstance(a[0], MappedSeq):
            return a[0]
        return old_call_type(it, t, a, k)
    ctx.env.call_type = call_type
    try:
        for given in (False, True):
            def run(st, given=given):
                it = ctx.interp(st)
                shards = st.fresh_sv('shards', 'int')
                st.assume(shards.t >= 1)
                d = st.fresh_sv('dir', 'str')
                timeout = st.fresh_sv('timeout', 'real')
                disk = ctx.cls('diskcache.core.Disk')
                settings = {'cull_limit': st.fresh_sv('cull_limit', 'int')}
                if given:
                    settings['size_limit'] = st.fresh_sv('size_limit', 'int')
                obj = ctx.new_obj('diskcache.fanout.FanoutCache', {})
                st.ghost['info'] = dict(shards=shards, d=d, timeout=timeout, disk=disk, settings=dict(settings))
                try:
                    it.call(ctx.func('diskcache.fanout.FanoutCache.__init__'), [obj, d, shards, timeout, disk], dict(settings))
                except Unsupported as e:
                    # after the shards are built the constructor reads self._shards[0].disk.hash: not needed here
                    if 'MappedSeq' not in str(e) and 'subscript' not in str(e):
                        raise
                return obj
            for n, p in enumerate(explore(run)):
                info = p.state.ghost['info']
                maps = [e[1]['mapped'] for e in p.state.trace if e[0] == 'MAP']
                base = 'C18.FanoutCache.__init__[size_limit %s]#%d' % ('given' if given else 'not given', n)
                inits = [e[1] for e in p.state.trace if e[0] == 'INIT']
                if len(inits) != 1:
                    out.append(R(base, False, 'FanoutCache.__init__', 'expected one generic shard construction, got %d' % len(inits), path=p.decisions))
                    continue
                b = inits[0]['bound']
                rawkw = inits[0]['raw'][1]
                # directory of shard i is '<dir>/%03d' % i  (format pin)
                i = maps[0].index if maps else None
                from pyvc.env import fmt_zero_pad
                want_dir = z3.Concat(info['d'].t, z3.StringVal('/'), fmt_zero_pad(3, i)) if i is not None else None
                okdir = i is not None and isinstance(b.get('directory'), SV) and \
                    z3.simplify(b['directory'].t).eq(z3.simplify(want_dir))
                out.append(R(base + '.shard_directory', okdir, 'FanoutCache.__init__',
                             'shard directory is %r' % (b.get('directory'),), kind='format-pin', path=p.decisions))
                okfw = b.get('timeout') is info['timeout'] and b.get('disk') is info['disk'] and \
                    rawkw.get('cull_limit') is info['settings']['cull_limit']
                out.append(R(base + '.forwards_arguments', okfw, 'FanoutCache.__init__', 'shard gets %r' % (rawkw,), path=p.decisions))
                if given:
                    sl = rawkw.get('size_limit')
                    from pyvc.env import real_term
                    try:
                        goal = real_term(sl) == z3.ToReal(info['settings']['size_limit'].t) / z3.ToReal(info['shards'].t)
                        out.append(discharge(base + '.size_limit_divided', 'post', p.pc, goal,
                                             function='FanoutCache.__init__', path=p.decisions))
                    except Exception:
                        out.append(R(base + '.size_limit_divided', False, 'FanoutCache.__init__', 'size_limit passed as %r' % (sl,), path=p.decisions))
                else:
                    # a setting the caller did not give must not be passed: the stored value has to survive reopen
                    ok = 'size_limit' not in rawkw
                    out.append(R(base + '.stored_settings_survive', ok, 'FanoutCache.__init__',
                                 'size_limit is passed explicitly (%r) although the caller gave none: reopening or unpickling resets the stored per-shard limit' % (rawkw.get('size_limit'),),
                                 path=p.decisions))
    finally:
        ctx.hooks.pop('diskcache.core.Cache.__init__', None)
        ctx.env.builtins['range'] = EnvFunc('range', old_range)
        ctx.env.call_type = old_call_type
    return out


def con_reconnects():
    """Cache._con: thread-local connection, re-created when missing or when the pid changed."""
    ctx = cctx()
    out = []
    for case in ('no-connection', 'same-pid', 'pid-changed'):
        def run(st, case=case):
            it = ctx.interp(st)
            connects = []

            def connect(it2, a, k):
                con = Recorder('con', None)
                con.is_con = True
                it2.st.effect('CONNECT', args=a, kwargs=k)
                rows = [('sqlite_cache_size', it2.st.fresh_sv('v1', 'int')), ('statistics', it2.st.fresh_sv('v2', 'int'))]
                con.fields['execute'] = EnvFunc('con.execute', lambda it3, a3, k3: Obj('Cursor', {'rows': rows}))
                con.fields['close'] = EnvFunc('con.close', lambda it3, a3, k3: it3.st.effect('CON_CLOSE'))
                return con
            ctx.env.modules['sqlite3']['connect'] = EnvFunc('sqlite3.connect', connect)
            ctx.env.obj_methods['Cursor'] = {'fetchall': lambda it2, o, a, k: o.fields['rows']}
            pid = it.call(ctx.env.modules['os']['getpid'], [], {})
            local = Obj('threadlocal', {})
            old = None
            if case != 'no-connection':
                old = Recorder('oldcon', None)
                old.fields['close'] = EnvFunc('con.close', lambda it3, a3, k3: it3.st.effect('CON_CLOSE'))
                local.fields['con'] = old
                local.fields['pid'] = pid if case == 'same-pid' else SV('int', pid.t + 1)
            cache = ctx.new_obj('diskcache.core.Cache', {'_local': local, '_directory': st.fresh_sv('dir', 'str'),
                                                         '_timeout': st.fresh_sv('timeout', 'real')})
            resets = []
            ctx.hooks['diskcache.core.Cache.reset'] = lambda it2, f, a, k: it2.st.effect('RESET', args=a[1:], kwargs=k)
            st.ghost.update(old=old, local=local)
            try:
                return it.getattr(cache, '_con')
            finally:
                ctx.hooks.pop('diskcache.core.Cache.reset', None)
        for n, p in enumerate(explore(run)):
            tr = p.state.trace
            connects = [e for e in tr if e[0] == 'CONNECT']
            closes = [e for e in tr if e[0] == 'CON_CLOSE']
            resets = [e[1] for e in tr if e[0] == 'RESET']
            base = 'C18._con[%s]#%d' % (case, n)
            if p.kind != 'return':
                out.append(R(base, False, 'Cache._con', 'raises %r' % (p.value,), path=p.decisions))
                continue
            if case == 'same-pid':
                ok = not connects and not closes and p.value is p.state.ghost['old']
                out.append(R(base + '.reuses_connection', ok, 'Cache._con', 'connects %d closes %d' % (len(connects), len(closes)), path=p.decisions))
            else:
                ok = len(connects) == 1 and (case == 'no-connection' or len(closes) == 1) and p.value is not p.state.ghost['old']
                out.append(R(base + '.reconnects', ok, 'Cache._con', 'connects %d closes %d' % (len(connects), len(closes)), path=p.decisions))
                okp = len(resets) == 1 and resets[0]['args'][0] == 'sqlite_cache_size' and resets[0]['kwargs'].get('update') is False
                out.append(R(base + '.reapplies_pragmas', okp, 'Cache._con', 'reset calls %r' % (resets,), path=p.decisions))
                if connects:
                    k = connects[0][1]['kwargs']
                    okiso = k.get('isolation_level', 0) is None
                    out.append(R(base + '.autocommit_connection', okiso, 'Cache._con', 'isolation_level %r' % (k.get('isolation_level', 'absent'),), path=p.decisions))
    return out


def close_idempotent():
    ctx = cctx()
    out = []

    def run(st):
        it = ctx.interp(st)
        con = Recorder('con', None)
        con.fields['close'] = EnvFunc('con.close', lambda it3, a3, k3: it3.st.effect('CON_CLOSE'))
        local = Obj('threadlocal', {'con': con})
        cache = ctx.new_obj('diskcache.core.Cache', {'_local': local})
        it.call(it.getattr(cache, 'close'), [], {})
        it.call(it.getattr(cache, 'close'), [], {})
        return local
    for n, p in enumerate(explore(run)):
        closes = [e for e in p.state.trace if e[0] == 'CON_CLOSE']
        ok = p.kind == 'return' and len(closes) == 1 and 'con' not in p.value.fields
        out.append(R('C18.close.idempotent#%d' % n, ok, 'Cache.close', 'closes %d, result %s' % (len(closes), p.kind), path=p.decisions))
    return out


# ------------------------------------------------------------------ released format
RELEASED = {
    'DBNAME': 'cache.db',
    'MODES': {'MODE_NONE': 0, 'MODE_RAW': 1, 'MODE_BINARY': 2, 'MODE_TEXT': 3, 'MODE_PICKLE': 4},
    'schema_sha256': None,       # filled from the recorded file below
}
SCHEMA_PIN = 'contracts/released_schema.txt'


def schema_texts(ctx):
    mod = ctx.program.modules['diskcache.core']
    texts = []
    for node in ast.walk(mod.tree):
        if isinstance(node, ast.Constant) and isinstance(node.value, str):
            s = ' '.join(node.value.split())
            if s.upper().startswith(('CREATE TABLE', 'CREATE UNIQUE INDEX', 'CREATE INDEX', 'CREATE TRIGGER')):
                texts.append(s)
    return sorted(set(texts))


def format_pins():
    import os
    ctx = cctx()
    out = []
    g = ctx.program.modules['diskcache.core'].globals
    out.append(R('C18.format.dbname', g['DBNAME'] == RELEASED['DBNAME'], 'core', 'DBNAME %r' % (g['DBNAME'],), kind='format-pin'))
    modes = {k: g[k] for k in RELEASED['MODES']}
    out.append(R('C18.format.modes', modes == RELEASED['MODES'], 'core', repr(modes), kind='format-pin'))
    here = os.path.dirname(os.path.dirname(os.path.abspath(__file__)))
    want = open(os.path.join(here, SCHEMA_PIN)).read().strip().split('\n')
    got = schema_texts(ctx)
    missing = [t for t in want if t not in got]
    extra = [t for t in got if t not in want]
    out.append(R('C18.format.schema_and_triggers', not missing and not extra, 'Cache.__init__',
                 'schema drift: missing %r extra %r' % (missing[:2], extra[:2]), kind='format-pin'))
    # Disk.filename layout: xx/yy/<28 hex>.val under the directory
    from pyvc import libfns as L

    def run(st):
        it = ctx.interp(st)
        disk = make_disk(ctx, st, 'Disk')
        st.ghost['disk'] = disk
        return it.call(it.getattr(disk, 'filename'), [], {})
    for n, p in enumerate(explore(run)):
        if p.kind != 'return':
            out.append(R('C18.format.filename_layout#%d' % n, False, 'Disk.filename', 'raises %r' % (p.value,), kind='format-pin'))
            continue
        fn, full = p.value
        h = None
        for c in p.pc:
            pass
        # find the 32-hex-digit string term
        hexes = [t for t in _subterms(fn.t) if t.decl().name() == 'utf8_decode']
        ok = bool(hexes)
        if ok:
            hx = hexes[0]
            want_fn = z3.Concat(z3.SubSeq(hx, 0, 2), z3.StringVal('/'), z3.SubSeq(hx, 2, 2), z3.StringVal('/'),
                                z3.SubSeq(hx, 4, 28), z3.StringVal('.val'))
            want_full = z3.Concat(p.state.ghost['disk'].fields['_directory'].t, z3.StringVal('/'), want_fn)
            out.append(discharge('C18.format.filename_layout#%d' % n, 'format-pin', p.pc,
                                 z3.And(fn.t == want_fn, full.t == want_full, z3.Length(hx) == 32),
                                 function='Disk.filename', path=p.decisions))
        else:
            out.append(R('C18.format.filename_layout#%d' % n, False, 'Disk.filename', 'no hex name in %r' % (fn,), kind='format-pin'))
    # queue key format (push): 500000000000000 start, 15 digits, '-' separator
    src = ctx.program.modules['diskcache.core'].source
    okq = "'{0}-{1:015d}'.format(prefix, num)" in src and 'num = 500000000000000' in src and \
        "prefix + '-000000000000000'" in src and "prefix + '-999999999999999'" in src
    out.append(R('C18.format.queue_keys', okq, 'Cache.push', 'queue key format changed', kind='format-pin'))
    return out


def _subterms(t, seen=None):
    seen = seen if seen is not None else set()
    if t.get_id() in seen:
        return
    seen.add(t.get_id())
    yield t
    for c in t.children():
        for x in _subterms(c, seen):
            yield x


def sql_retry():
    """Cache._sql_retry -- the statement runner used while a handle opens (reading and writing Settings):
    a 'database is locked' failure is retried, and given up only after the fixed budget of 60 seconds
    measured on time.time() (pinned: source comment, Issue #85) -- in particular independently of the
    connection timeout, which is 0 while __init__ runs; any other error propagates at once.  Giving up
    early would make __init__ mistake a briefly locked database for a new one and overwrite its settings."""
    from pyvc.loops import LoopSpec
    from contracts import c03
    ctx = cctx()
    out = []
    q = 'diskcache.core.Cache._sql_retry.<locals>._execute_with_retry'
    ctx.loop_invariants[(q, 0)] = LoopSpec('C18.sql_retry.loop', lambda it, fr, i: z3.BoolVal(True))

    def run(st):
        it = ctx.interp(st)

        def sql(it2, a, k):
            d = it2.st.decide(3)
            it2.st.effect('TRY', outcome=d)
            if d == 1:
                raise_py('sqlite3.OperationalError', 'database is locked')
            if d == 2:
                raise_py('sqlite3.OperationalError', 'no such table: Settings')
            return Opaque('other', it2.st.fresh('cursor', OTHER))
        ctx.hooks['diskcache.core.Cache._sql'] = lambda it2, f, a, k: EnvFunc('sql', sql)
        try:
            cache = ctx.new_obj('diskcache.core.Cache', {'_timeout': st.fresh_sv('timeout', 'real')})
            runner = it.getattr(cache, '_sql_retry')
            return it.call(runner, ['SELECT key, value FROM Settings'], {})
        finally:
            ctx.hooks.pop('diskcache.core.Cache._sql', None)
    n_paths = 0
    for n, p in enumerate(explore(run)):
        st = p.state
        base = 'C18.sql_retry#%d' % n
        for o in st.obligations:
            out.append(discharge('%s/%s' % (base, o.name), o.kind, o.pc, o.goal, function='Cache._sql_retry', path=p.decisions))
        tries = [e[1]['outcome'] for e in st.trace if e[0] == 'TRY']
        ts = c03.clock_readings(st)
        sleeps = [e for e in st.trace if e[0] in ('SLEEP',)]
        n_paths += 1
        if p.kind == 'raise':
            last = tries[-1] if tries else None
            if last == 2:
                out.append(R(base + '.other_errors_propagate', p.value.cls == 'sqlite3.OperationalError', 'Cache._sql_retry',
                             'raises %r' % (p.value,), path=p.decisions))
            elif last == 1 and len(ts) >= 2:
                # gave up on a locked database: more than 60 s between the first and the latest clock reading
                out.append(discharge(base + '.gives_up_only_after_60s', 'post', p.pc, z3.Or(*[t - ts[0] > 60 for t in ts[1:]]),
                                     function='Cache._sql_retry', path=p.decisions))
            else:
                out.append(R(base + '.gives_up_only_after_60s', False, 'Cache._sql_retry',
                             'raises %r after attempts %r with %d clock readings' % (p.value, tries, len(ts)), path=p.decisions))
        elif p.kind == 'return':
            out.append(R(base + '.returns_the_cursor', tries and tries[-1] == 0 and isinstance(p.value, Opaque), 'Cache._sql_retry',
                         'returns %r after %r' % (p.value, tries), path=p.decisions))
        else:   # cut: another round
            out.append(R(base + '.retries_only_locked', tries and tries[-1] == 1, 'Cache._sql_retry', 'retries after %r' % tries, path=p.decisions))
    if n_paths == 0:
        out.append(Result('C18.sql_retry', 'vacuity', 'error', detail='no paths'))
    return out


def reset_contract():
    """Cache.reset for ordinary (non-pragma) settings: with a value and update=True the Settings row is
    ALWAYS written -- whatever this handle believes the current value to be (its attribute is only a
    snapshot; another handle may have changed the row) -- then the attribute (and for disk_* the Disk
    attribute) is set; without a value the row is read and the attribute set from it; update=False writes
    nothing.  (The pragma branch, sqlite_*, stays an assumed contract.)"""
    ctx = cctx()
    out = []
    core = ctx.program.modules['diskcache.core'].globals
    ENOVAL = core['ENOVAL']
    for key in ('cull_limit', 'disk_pickle_protocol'):
        for mode in ('value', 'value-noupdate', 'reload'):
            def run(st, key=key, mode=mode):
                it = ctx.interp(st)

                def sql(it2, a, k):
                    it2.st.effect('SQLTEXT', stmt=' '.join(a[0].split()), params=a[1] if len(a) > 1 else ())
                    return Obj('Cursor', {'rows': [(Opaque('other', it2.st.fresh('stored', OTHER)),)]})
                ctx.env.obj_methods['Cursor'] = {'fetchall': lambda it2, o, a, k: o.fields['rows']}
                fn = EnvFunc('sql', sql)
                ctx.hooks['diskcache.core.Cache._sql'] = lambda it2, f, a, k: fn
                ctx.hooks['diskcache.core.Cache._sql_retry'] = lambda it2, f, a, k: fn
                try:
                    value = Opaque('other', st.fresh('value', OTHER))
                    # the handle's snapshot may or may not equal the new value
                    snap = value if st.decide(2) == 1 else Opaque('other', st.fresh('snapshot', OTHER))
                    disk = ctx.new_obj('diskcache.core.Disk', {'pickle_protocol': snap})
                    cache = ctx.new_obj('diskcache.core.Cache', {key: snap, '_disk': disk})
                    st.ghost.update(value=value, cache=cache, disk=disk)
                    if mode == 'reload':
                        return it.call(it.getattr(cache, 'reset'), [key], {})
                    return it.call(it.getattr(cache, 'reset'), [key, value], {'update': mode == 'value'})
                finally:
                    ctx.hooks.pop('diskcache.core.Cache._sql', None)
                    ctx.hooks.pop('diskcache.core.Cache._sql_retry', None)
            for n, p in enumerate(explore(run)):
                st = p.state
                base = 'C18.reset[%s,%s]#%d' % (key, mode, n)
                stmts = [e[1] for e in st.trace if e[0] == 'SQLTEXT']
                ups = [x for x in stmts if x['stmt'].upper().startswith('UPDATE SETTINGS')]
                cache, value = st.ghost['cache'], st.ghost['value']
                if p.kind != 'return':
                    out.append(R(base + '.no_exception', False, 'Cache.reset', 'raises %r' % (p.value,), path=p.decisions))
                    continue
                if mode == 'value':
                    ok = len(ups) == 1 and len(ups[0]['params']) == 2 and ups[0]['params'][0] is value and ups[0]['params'][1] == key
                    out.append(R(base + '.always_writes_the_row', ok, 'Cache.reset',
                                 'statements %r: the stored setting is not updated although a value was given (the handle\'s own '
                                 'attribute is only a snapshot of it)' % [(x['stmt'], x['params']) for x in stmts], path=p.decisions))
                elif mode == 'value-noupdate':
                    out.append(R(base + '.update_false_writes_nothing', not ups, 'Cache.reset', 'statements %r' % [x['stmt'] for x in stmts], path=p.decisions))
                if mode != 'reload':
                    ok = cache.fields.get(key) is value and p.value is value and \
                        (not key.startswith('disk_') or st.ghost['disk'].fields.get(key[5:]) is value)
                    out.append(R(base + '.applies_the_value', ok, 'Cache.reset', 'attribute %r, Disk attribute %r, returns %r' % (
                        cache.fields.get(key), st.ghost['disk'].fields.get(key[5:]), p.value), path=p.decisions))
                else:
                    sel = [x for x in stmts if x['stmt'].upper().startswith('SELECT VALUE FROM SETTINGS')]
                    ok = len(sel) == 1 and not ups and cache.fields.get(key) is p.value and isinstance(p.value, Opaque)
                    out.append(R(base + '.reload_reads_the_row', ok, 'Cache.reset', 'statements %r, attribute %r' % (
                        [x['stmt'] for x in stmts], cache.fields.get(key)), path=p.decisions))
    return out


def tasks(tier):
    ts = [('contracts.c18', 'getstate_setstate', ()), ('contracts.c18', 'reset_contract', ()), ('contracts.c18', 'fanout_init', ()), ('contracts.c18', 'sql_retry', ()),
          ('contracts.c18', 'con_reconnects', ()), ('contracts.c18', 'close_idempotent', ()),
          ('contracts.c18', 'format_pins', ()), ('contracts.c18', 'settings_merge', ())]
    from contracts.disk_common import KEY_CLASSES
    ts += [('contracts.c13', 'hash_spec', (c,)) for c in KEY_CLASSES]
    return ts


def post_process(results, tier):
    out = []
    for r in results:
        if r['name'].startswith('C13.hash.spec'):
            r = Result('C18.format.routing.' + r['name'][4:], r['kind'], r['verdict'],
                       **{k: v for k, v in r.items() if k not in ('name', 'kind', 'verdict')})
        elif r['name'].startswith('C13.'):
            continue
        out.append(r)
    return out


def meta(results, tier):
    return {'functions': {'verified_bodies': ['Cache/FanoutCache/Deque/Index.__getstate__/__setstate__', 'FanoutCache.__init__ (shard construction)',
                                              'Cache._con', 'Cache.close', 'Disk.filename', 'Disk.hash'],
                          'assumed_contracts': ['Cache.__init__ settings merge (covered by the bounded stand-in only)', 'sqlite3.connect / os.getpid']},
            'assumptions': ['cross-process, fork and new-process visibility is SQLite/OS behaviour (A-SQL-iso)',
                            'the recorded schema (contracts/released_schema.txt) is the released on-disk format',
                            '_con pragma re-application checked on a representative two-row Settings result'],
            'explanation': 'state tuples, shard construction, reconnect logic and released-format pins'}


# ------------------------------------------------------------------ Cache.__init__: settings merge
def settings_merge():
    """Stored settings override defaults, constructor arguments override stored settings, metadata
    counters are never overwritten, every setting is written back and applied (reset), the disk_*
    settings reach the Disk constructor.  Cache.__init__ is executed from /repo; its SQL goes to a
    recording Settings store, Cache.reset is recorded (its contract is assumed elsewhere too)."""
    ctx = cctx()
    core = ctx.program.modules['diskcache.core'].globals
    DEFAULTS = dict(core['DEFAULT_SETTINGS'])
    META = dict(core['METADATA'])
    out = []
    arg_sets = [()] + [(k,) for k in sorted(DEFAULTS)] + [('size_limit', 'cull_limit', 'disk_min_file_size')]
    # `extra`: a Disk subclass with a constructor argument of its own (JSONDisk's compress_level); its
    # disk_* setting is not one of DEFAULT_SETTINGS but is stored, restored and applied like the others
    cells = [(sp, g, False) for sp in (False, True) for g in arg_sets] + \
            [(sp, g, True) for sp in (False, True) for g in ((), ('disk_compress_level',), ('size_limit',))]
    for stored_present, given, extra in cells:
        if True:
            def run(st, stored_present=stored_present, given=given, extra=extra):
                it = ctx.interp(st)
                stored = {k: Opaque('other', st.fresh('stored_' + k, OTHER)) for k in DEFAULTS} if stored_present else None
                if stored is not None and extra:
                    stored['disk_compress_level'] = Opaque('other', st.fresh('stored_disk_compress_level', OTHER))
                if stored is not None:
                    stored['eviction_policy'] = 'least-recently-used'
                    stored['tag_index'] = 1
                    stored.update({k: Opaque('other', st.fresh('meta_' + k, OTHER)) for k in META})
                args = {k: Opaque('other', st.fresh('arg_' + k, OTHER)) for k in given}
                if 'eviction_policy' in args:
                    args['eviction_policy'] = 'least-frequently-used'
                if 'tag_index' in args:
                    args['tag_index'] = 0

                def sql(it2, a, k):
                    stmt = ' '.join(a[0].split())
                    params = a[1] if len(a) > 1 else ()
                    it2.st.effect('SQLTEXT', stmt=stmt, params=params)
                    if stmt.startswith('SELECT key, value FROM Settings'):
                        if stored is None:
                            raise_py('sqlite3.OperationalError', 'no such table: Settings')
                        return Obj('Cursor', {'rows': list(stored.items())})
                    if stmt.startswith('PRAGMA page_size'):
                        return Obj('Cursor', {'rows': [(4096,)]})
                    return Obj('Cursor', {'rows': []})
                sqlfn = EnvFunc('sql', sql)
                ctx.env.obj_methods['Cursor'] = {'fetchall': lambda it2, o, a, k: o.fields['rows']}
                ctx.hooks['diskcache.core.Cache._sql'] = lambda it2, f, a, k: sqlfn
                ctx.hooks['diskcache.core.Cache._sql_retry'] = lambda it2, f, a, k: sqlfn

                def reset(it2, f, a, k):
                    b = it2.bind_args(f, a, k)
                    it2.st.effect('RESET', key=b['key'], value=b['value'], update=b['update'])
                    if b['value'] is not core['ENOVAL']:
                        b['self'].fields[b['key']] = b['value']
                    else:
                        b['self'].fields[b['key']] = Opaque('other', it2.st.fresh('reloaded_' + str(b['key']), OTHER))
                    return b['value']
                ctx.hooks['diskcache.core.Cache.reset'] = reset
                ctx.hooks['diskcache.core.Cache.close'] = lambda it2, f, a, k: it2.st.effect('CLOSE')
                ctx.env.modules['os.path']['isdir'] = EnvFunc('os.path.isdir', lambda it2, a, k: True)
                obj = ctx.new_obj('diskcache.core.Cache', {})
                st.ghost.update(stored=stored, args=args)
                try:
                    it.call(ctx.func('diskcache.core.Cache.__init__'),
                            [obj, st.fresh_sv('dir', 'str'), st.fresh_sv('timeout', 'real'),
                             ctx.cls('diskcache.core.JSONDisk' if extra else 'diskcache.core.Disk')], dict(args))
                finally:
                    for h in ('_sql', '_sql_retry', 'reset', 'close'):
                        ctx.hooks.pop('diskcache.core.Cache.' + h, None)
                return obj
            for n, p in enumerate(explore(run)):
                base = 'C18.init.settings_merge[%sstored=%s,args=%s]#%d' % ('JSONDisk,' if extra else '', stored_present,
                                                                             ','.join(given) or '-', n)
                if p.kind != 'return':
                    out.append(R(base, False, 'Cache.__init__', 'raises %r' % (p.value,), path=p.decisions))
                    continue
                st = p.state
                stored, args = st.ghost['stored'], st.ghost['args']
                tr = st.trace
                writes = [e[1] for e in tr if e[0] == 'SQLTEXT' and e[1]['stmt'].startswith('INSERT OR REPLACE INTO Settings')]
                ignores = [e[1] for e in tr if e[0] == 'SQLTEXT' and e[1]['stmt'].startswith('INSERT OR IGNORE INTO Settings')]
                resets = [e[1] for e in tr if e[0] == 'RESET' and e[1]['update'] is True and e[1]['value'] is not core['ENOVAL']]
                prob = None
                written = {}
                for w_ in writes:
                    k_, v_ = w_['params']
                    written[k_] = v_
                names = list(DEFAULTS)
                if extra and ('disk_compress_level' in args or stored is not None):
                    names.append('disk_compress_level')
                applied = {r['key']: r['value'] for r in resets if r['key'] in names}
                for k in names:
                    want = args[k] if k in args else (stored[k] if stored is not None else DEFAULTS[k])
                    for nm, got in (('written back', written.get(k, 'ABSENT')), ('applied', applied.get(k, 'ABSENT'))):
                        same = got is want or (not isinstance(want, Opaque) and not isinstance(got, Opaque) and got == want and type(got) is type(want))
                        if not same:
                            prob = prob or 'setting %s %s as %r, expected %r' % (k, nm, got, want)
                for k in META:
                    if k in written:
                        prob = prob or 'metadata key %s is overwritten' % k
                    if not any(i['params'][0] == k and i['params'][1] == META[k] for i in ignores):
                        prob = prob or 'metadata key %s is not initialised with INSERT OR IGNORE' % k
                disk = p.value.fields.get('_disk')
                if not (isinstance(disk, Obj) and disk.cls is ctx.cls('diskcache.core.JSONDisk' if extra else 'diskcache.core.Disk')):
                    prob = prob or 'no Disk instance'
                else:
                    attrs = [('disk_min_file_size', 'min_file_size'), ('disk_pickle_protocol', 'pickle_protocol')]
                    if extra:
                        attrs.append(('disk_compress_level', 'compress_level'))
                    for k, attr in attrs:
                        if k == 'disk_compress_level' and k not in args and stored is None:
                            want = 1            # JSONDisk's own default
                        else:
                            want = args[k] if k in args else (stored[k] if stored is not None else DEFAULTS[k])
                        got = disk.fields.get(attr)
                        if not (got is want or (not isinstance(want, Opaque) and got == want)):
                            prob = prob or 'Disk.%s is %r, expected %r' % (attr, got, want)
                out.append(R(base, prob is None, 'Cache.__init__', prob, path=p.decisions))
    return out

"""Iteration in insertion order: Cache._iter (behind __iter__ / __reversed__), C03 / C12 / C13.

The generator body is executed from /repo in record mode (each `yield` is an effect).  A strictly
monotone sequence that contains exactly the elements of a set IS its sorted enumeration, so the
obligations are:
  order         every yield's rowid is beyond the previous one (ascending: greater; descending: smaller)
  decodes_row   the yielded key is Disk.get(key, raw) of a live row
  complete      when the generator finishes, the set of yielded rowids equals the set of rows that were
                live (bounded by the MAX(rowid) read before the first page, i.e. all of them) -- for ANY
                number of rows and pages (loop invariants over the paging loop and over each page)
under the stated assumption that the consumer does not mutate the cache between `next` calls.
"""
import z3

from pyvc.check import Result, discharge
from pyvc.engine import explore, Unsupported
from pyvc.loops import LoopSpec, SymSeq
from pyvc import sqlmodel as SM
from pyvc.env import int_term
from contracts.cache_common import *   # noqa
from contracts import cache_common as cc
from contracts import c03

_I = z3.IntSort()
A_IB = SM.A_IB


def setup(ctx, ascending):
    def beyond(a, b):          # a lies beyond b in iteration direction
        return a > b if ascending else a < b

    def covered(st, q, cursor):
        w0 = c03.world0(st)
        bound = st.ghost['bound']
        if ascending:
            return z3.And(z3.Select(w0['T.live'], q), q > 0, q <= cursor, q < bound)
        return z3.And(z3.Select(w0['T.live'], q), q >= cursor, q > 0, q < bound)

    def unchanged(st):
        w, w0 = st.world, c03.world0(st)
        return z3.And(*[w[k] == w0[k] for k in w0 if k.startswith(('T.', 'S.'))])

    def outer_inv(it, fr, _):
        st = it.st
        q = z3.Int('q_it')
        cursor = int_term(fr.locals['rowid'])
        bound = int_term(fr.locals['bound'])
        st.ghost['bound'] = bound
        Y = st.world['Y.member']
        parts = [unchanged(st), z3.ForAll([q], z3.Select(Y, q) == covered(st, q, cursor)),
                 st.world['Y.last'] == cursor, cursor >= 0, cursor <= bound,
                 bound == st.ghost['max_rowid'] + 1, bound <= 2 ** 62]
        return z3.And(*parts)

    def inner_inv(it, fr, j):
        st = it.st
        q = z3.Int('q_it2')
        rows = fr.locals['rows']
        Y = st.world['Y.member']
        c0 = st.ghost['cursor0']
        bound = st.ghost['bound']
        inpage_before = z3.And(z3.Select(rows.member, q), z3.Select(rows.pos, q) < j)
        last = z3.If(j == 0, c0, z3.Select(rows.rows, j - 1))
        cursor = int_term(fr.locals['rowid'])
        return z3.And(unchanged(st),
                      z3.ForAll([q], z3.Select(Y, q) == z3.Or(covered(st, q, c0), inpage_before)),
                      st.world['Y.last'] == last, cursor == last)

    def on_havoc_outer(it, fr):
        it.st.ghost['inv_arrays'] = None

    def on_bind_outer(it, fr):
        pass
    q = 'diskcache.core.Cache._iter'
    ctx.loop_invariants[(q, 0)] = LoopSpec('iter.pages', outer_inv, havoc_world=('Y.member', 'Y.last'),
                                          shapes={'rows': lambda st: None, 'args': lambda st: None, 'key': lambda st: None,
                                                  'raw': lambda st: None})
    ctx.loop_invariants[(q, 1)] = LoopSpec('iter.page', inner_inv, havoc_world=('Y.member', 'Y.last'),
                                          shapes={'key': lambda st: None, 'raw': lambda st: None})
    return beyond


def iter_task(pid, ascending):
    ctx = cctx()
    beyond = setup(ctx, ascending)
    sql = ctx.sql
    old_page = sql.select_page

    def select_page(it, T, ps, params):
        page = old_page(it, T, ps, params)
        # expose the position array and remember the cursor the page was selected with
        for e in reversed(it.st.trace):
            break
        page.pos = [c for c in it.st.pc if False] or None
        return page
    out = []

    def body(st):
        sql.busy = False
        sql.faults = False
        it = ctx.interp(st)
        cache = make_cache(ctx, st, policy='none')
        st.world['Y.member'] = z3.K(_I, z3.BoolVal(False))
        st.world['Y.last'] = z3.IntVal(0)
        st.ghost['T0']['Y.member'] = st.world['Y.member']

        def on_yield(it2, fr, v):
            if v is None:
                # `yield  # Signal ready.`: MAX(rowid) has been read
                mx = fr.locals['max_rowid']
                st.ghost['max_rowid'] = int_term(mx) if mx is not None else z3.IntVal(0)
                # requires: rowids stay far below INT64_MAX (SQLite allocates max+1; 2**62 rows are out of reach)
                st.assume(st.ghost['max_rowid'] < 2 ** 62)
                if not ascending:
                    st.world['Y.last'] = st.ghost['max_rowid'] + 1      # nothing yielded yet: the cursor starts at the bound
                return
            rid = int_term(fr.locals['rowid'])
            w0 = c03.world0(st)
            last = st.world['Y.last']
            first = z3.BoolVal(False)
            ok_order = z3.Or(beyond(rid, last), z3.And(z3.BoolVal(not ascending), last == st.ghost.get('bound', last)))
            st.check('%s.order' % name_base[0], 'post', beyond(rid, last))
            st.check('%s.decodes_row' % name_base[0], 'post',
                     z3.And(z3.Select(w0['T.live'], rid),
                            to_pyobj(v) == cc.KGET(z3.Select(w0['T.key'], rid), z3.Select(w0['T.raw'], rid))))
            st.world['Y.member'] = z3.Store(st.world['Y.member'], rid, z3.BoolVal(True))
            st.world['Y.last'] = rid
            st.effect('YIELD', rowid=rid)
        it.on_yield = on_yield
        ys = []
        # remember the cursor at each page selection for the inner invariant
        orig_exec = sql.select_page

        def sp(it2, T, ps, params):
            page = orig_exec(it2, T, ps, params)
            cur = params[0] if ascending else params[1]
            st.ghost['cursor0'] = int_term(cur)
            return page
        sql.select_page = sp
        try:
            it.call_function(ctx.func('diskcache.core.Cache._iter'), [cache, ascending], {}, gen_record=ys)
        finally:
            sql.select_page = orig_exec
        return ys
    name_base = ['%s.iter[%s]' % (pid, 'ascending' if ascending else 'descending')]
    # the page object needs its position array: patch SymSeq creation through the Sql hook
    orig = sql.select_page

    def select_page2(it, T, ps, params):
        st = it.st
        n_before = len(st.pc)
        page = orig(it, T, ps, params)
        # recover the position array from the page facts (third fresh array created by select_page)
        return page
    nret = 0
    paths = explore(body, max_paths=2000)
    for n, p in enumerate(paths):
        st = p.state
        base = '%s#%d' % (name_base[0], n)
        for o in st.obligations:
            out.append(discharge('%s/%s' % (base, o.name), o.kind, o.pc, o.goal, function='Cache._iter', path=p.decisions))
        out.append(no_cursor_across_yield(base, p, 'Cache._iter'))
        if p.kind == 'cut':
            continue
        if p.kind != 'return':
            r = discharge(base + '.no_exception', 'post', p.pc, z3.BoolVal(False), function='Cache._iter', path=p.decisions)
            r['detail'] = 'raises %r' % (p.value,) if r['verdict'] != 'proved' else None
            out.append(r)
            continue
        nret += 1
        w0 = c03.world0(st)
        q = z3.Int('q_done')
        goal = z3.ForAll([q], z3.Select(st.world['Y.member'], q) == z3.Select(w0['T.live'], q))
        out.append(discharge(base + '.complete', 'post', p.pc, goal, function='Cache._iter', path=p.decisions))
        out.append(discharge(base + '.reads_only', 'frame', p.pc, c03.eq_world(w0, st.world), function='Cache._iter', path=p.decisions))
    if nret == 0:
        out.append(Result(name_base[0], 'vacuity', 'error', detail='no finishing path'))
    return out


def no_cursor_across_yield(base, p, fn):
    """A generator must not hand out items while a SELECT of its own is still being stepped: the paused
    connection would keep its read snapshot, so later lookups of the same thread would not see writes that
    other clients have completed (and its own writes would fail to get the lock)."""
    bad = [e for e in p.state.trace if e[0] == 'GEN_YIELD' and e[1].get('open_cursors', 0) > 0]
    return Result(base + '.rows_fetched_before_yield', 'trace', 'proved' if not bad else 'refuted', ms=0, backend='engine',
                  function=fn, path=p.decisions,
                  detail=None if not bad else 'yields while a cursor of this function is still open (%d times on this path)' % len(bad))


# ------------------------------------------------------------------ sorted-order iteration: Cache.iterkeys
def order_axioms():
    """Bytewise TEXT / BLOB comparison is a strict total order (trusted mathematics about memcmp)."""
    a, b, c = z3.Strings('ax_a ax_b ax_c')
    x, y, z = z3.Consts('ax_x ax_y ax_z', BYTES)
    tl, bl = SM.text_lt, SM.blob_lt
    return [z3.ForAll([a, b], z3.Not(z3.And(tl(a, b), tl(b, a)))),
            z3.ForAll([a, b], z3.Or(a == b, tl(a, b), tl(b, a))),
            z3.ForAll([a, b, c], z3.Implies(z3.And(tl(a, b), tl(b, c)), tl(a, c))),
            z3.ForAll([x, y], z3.Not(z3.And(bl(x, y), bl(y, x)))),
            z3.ForAll([x, y], z3.Or(x == y, bl(x, y), bl(y, x))),
            z3.ForAll([x, y, z], z3.Implies(z3.And(bl(x, y), bl(y, z)), bl(x, z)))]


def trichotomy(a, b):
    nn = lambda x: z3.Not(SM.DbVal.is_Null(x))
    return z3.Implies(z3.And(nn(a), nn(b)), z3.Or(SM.sql_lt(a, b), SM.sql_lt(b, a), SM.sql_eq(a, b)))


def dbval_order_lemma(pid='C03'):
    """SQLite's comparison is total on non-NULL values: proved once here (z3, using the TEXT/BLOB order
    axioms) and then used as a quantified fact in the iterkeys obligations."""
    a, b = z3.Consts('lem_a lem_b', SM.DbVal)
    # only the two totality axioms are needed, at the text / blob payloads of a and b: the instances are
    # handed over explicitly so that the proof is quantifier-free (it used to time out on a loaded machine)
    ta, tb, ba, bb = SM.DbVal.tv(a), SM.DbVal.tv(b), SM.DbVal.bv(a), SM.DbVal.bv(b)
    tl, bl = SM.text_lt, SM.blob_lt
    insts = [z3.Or(ta == tb, tl(ta, tb), tl(tb, ta)), z3.Or(ba == bb, bl(ba, bb), bl(bb, ba))]
    # split by the classes of a and b (16 small cases): the unsplit goal was occasionally left undecided,
    # depending on what the worker process had solved before
    out = []
    D = SM.DbVal
    # arithmetic fact to_int(to_real(i)) = i, stated at the payloads (z3's handling of is_int / to_int in
    # the mixed int/real cases depends on its random seed: 7 of 24 seeds proved the unaided goal)
    for x_, i_ in ((D.rv(a), D.iv(b)), (D.rv(b), D.iv(a))):
        insts.append(z3.Implies(x_ == z3.ToReal(i_), z3.And(z3.IsInt(x_), z3.ToInt(x_) == i_)))
    classes = [('int', D.is_IntV), ('real', D.is_RealV), ('text', D.is_TextV), ('blob', D.is_BlobV)]
    for na, ca in classes:
        for nb, cb in classes:
            out.append(discharge('%s.lemma.dbval_trichotomy[%s,%s]' % (pid, na, nb), 'lemma', insts + [ca(a), cb(b)], trichotomy(a, b),
                                 function='SQLite comparison (model)'))
    return out


def iterkeys_task(pid, reverse):
    ctx = cctx()
    sql = ctx.sql
    ORDER = [('key', 'DESC' if reverse else 'ASC'), ('raw', 'DESC' if reverse else 'ASC')]

    class _T0:
        w = None

    def le(st, a, b):
        T0 = type('T', (), {'w': c03.world0(st)})
        return sql.ord_le(T0, ORDER, a, b)

    def covered(st, q, c):
        w0 = c03.world0(st)
        return z3.And(z3.Select(w0['T.live'], q), le(st, q, c))

    def unchanged(st):
        w, w0 = st.world, c03.world0(st)
        return z3.And(*[w[k] == w0[k] for k in w0 if k.startswith(('T.', 'S.'))])

    def cursor_cells(st, fr, c):
        w0 = c03.world0(st)
        k, r = fr.locals['key'], fr.locals['raw']
        return z3.And(k.t == z3.Select(w0['T.key'], c), int_term(r) == z3.If(z3.Select(w0['T.raw'], c), 1, 0),
                      z3.Select(w0['T.live'], c))

    def outer_inv(it, fr, _):
        st = it.st
        q = z3.Int('q_ik')
        c = st.world['Y.last']
        Y = st.world['Y.member']
        return z3.And(unchanged(st), z3.ForAll([q], z3.Select(Y, q) == covered(st, q, c)), cursor_cells(st, fr, c))

    def inner_inv(it, fr, j):
        st = it.st
        q = z3.Int('q_ik2')
        rows = fr.locals['rows']
        Y = st.world['Y.member']
        c0 = st.ghost['cursor0']
        before = z3.And(z3.Select(rows.member, q), z3.Select(rows.pos, q) < j)
        last = z3.If(j == 0, c0, z3.Select(rows.rows, j - 1))
        return z3.And(unchanged(st), z3.ForAll([q], z3.Select(Y, q) == z3.Or(covered(st, q, c0), before)),
                      st.world['Y.last'] == last, cursor_cells(st, fr, last))

    def shape_cell(st):
        return cc.DbCell(st.fresh('key_cell', SM.DbVal))
    qn = 'diskcache.core.Cache.iterkeys'
    shapes = {'rows': lambda st: None, 'key': shape_cell, 'raw': lambda st: st.fresh_sv('raw', 'int')}

    def on_havoc(it, fr):
        it.st.ghost['inv_arrays'] = None
    ctx.loop_invariants[(qn, 0)] = LoopSpec('iterkeys.pages', outer_inv, havoc_world=('Y.member', 'Y.last'), shapes=shapes, on_havoc=on_havoc)

    def on_bind(it, fr, i):
        it.st.ghost['cur_row'] = z3.Select(fr.locals['rows'].rows, i)
    ctx.loop_invariants[(qn, 1)] = LoopSpec('iterkeys.page', inner_inv, havoc_world=('Y.member', 'Y.last'),
                                           shapes={'key': shape_cell, 'raw': lambda st: st.fresh_sv('raw', 'int')}, on_bind=on_bind)
    name_base = '%s.iterkeys[%s]' % (pid, 'reverse' if reverse else 'forward')
    axioms = order_axioms()

    def body(st):
        sql.busy = False
        sql.faults = False
        it = ctx.interp(st)
        cache = make_cache(ctx, st, policy='none')
        for ax in axioms:
            st.assume(ax)
        la, lb = z3.Consts('tri_a tri_b', SM.DbVal)
        st.assume(z3.ForAll([la, lb], trichotomy(la, lb)))       # proved as C03.lemma.dbval_trichotomy
        st.world['Y.member'] = z3.K(_I, z3.BoolVal(False))
        st.world['Y.last'] = z3.IntVal(0)

        def on_yield(it2, fr, v):
            w0 = c03.world0(st)
            rid = st.ghost.get('cur_row')
            if rid is None:
                sel = [e[1] for e in st.trace if e[0] == 'SELECT_FIRST']
                rid = sel[-1]['rowid']
            first = not any(e[0] == 'YIELD' for e in st.trace)
            if not first:
                last = st.world['Y.last']
                st.check('%s.order' % name_base, 'post', z3.And(le(st, last, rid), z3.Not(le(st, rid, last))))
            st.check('%s.decodes_row' % name_base, 'post',
                     z3.And(z3.Select(w0['T.live'], rid),
                            to_pyobj(v) == cc.KGET(z3.Select(w0['T.key'], rid), z3.Select(w0['T.raw'], rid))))
            st.world['Y.member'] = z3.Store(st.world['Y.member'], rid, z3.BoolVal(True))
            st.world['Y.last'] = rid
            st.ghost['cur_row'] = None
            st.effect('YIELD', rowid=rid)
        it.on_yield = on_yield
        orig = sql.select_page

        def sp(it2, T, ps, params):
            page = orig(it2, T, ps, params)
            st.ghost['cursor0'] = st.world['Y.last']
            return page
        sql.select_page = sp
        ys = []
        try:
            it.call_function(ctx.func('diskcache.core.Cache.iterkeys'), [cache, reverse], {}, gen_record=ys)
        finally:
            sql.select_page = orig
        return ys
    out = []
    nret = 0
    for n, p in enumerate(explore(body, max_paths=2000)):
        st = p.state
        base = '%s#%d' % (name_base, n)
        out.append(no_cursor_across_yield(base, p, 'Cache.iterkeys'))
        for o in st.obligations:
            out.append(discharge('%s/%s' % (base, o.name), o.kind, o.pc, o.goal, function='Cache.iterkeys', path=p.decisions))
        if p.kind == 'cut':
            continue
        if p.kind != 'return':
            r = discharge(base + '.no_exception', 'post', p.pc, z3.BoolVal(False), function='Cache.iterkeys', path=p.decisions)
            r['detail'] = 'raises %r' % (p.value,) if r['verdict'] != 'proved' else None
            out.append(r)
            continue
        nret += 1
        w0 = c03.world0(st)
        q = z3.Int('q_done2')
        out.append(discharge(base + '.complete', 'post', p.pc,
                             z3.ForAll([q], z3.Select(st.world['Y.member'], q) == z3.Select(w0['T.live'], q)),
                             function='Cache.iterkeys', path=p.decisions))
    if nret == 0:
        out.append(Result(name_base, 'vacuity', 'error', detail='no finishing path'))
    return out

"""C01 -- stored values come back identical.

Functions under contract (bodies executed from /repo): Disk.store, Disk._write,
Disk.filename, Disk.fetch, JSONDisk.store, JSONDisk.fetch.
Obligations:
  C01.store_fetch.roundtrip[disk][class]#path   fetch(column(store(v))) is v with its type,
        for symbolic min_file_size >= 0 (both sides of the threshold are paths), symbolic
        pickle protocol / compress level; a store may raise, it may not return normally with a
        representation that fetches to something else
  C01.store.mode_total[...]                      every mode store emits has a fetch branch
  C01.store.size[...]                            recorded size = bytes in the value file (feeds C08)
  C01._write.content (loop invariant)            file content = concatenation of the chunks consumed
  C01.stream.roundtrip                           read=True: stored bytes = stream content; lookup with
        read=True yields a handle on exactly those bytes
Carrier obligations (Cache.set/get/... pass value/read/columns unchanged) are in the Cache-level checks.
"""
import z3

from pyvc.check import Result, discharge
from pyvc.engine import explore, Unsupported
from pyvc.loops import StreamLoopSpec
from pyvc.envfs import fs, text_size
from contracts.disk_common import *   # noqa

VALUE_CLASSES = ['str', 'bytes', 'int', 'float', 'bool', 'none', 'other']
FUNCS = ['diskcache.core.Disk.store', 'diskcache.core.Disk._write', 'diskcache.core.Disk.filename',
         'diskcache.core.Disk.fetch', 'diskcache.core.JSONDisk.store', 'diskcache.core.JSONDisk.fetch']

_c = {}


def cctx():
    if 'c' not in _c:
        c = context('core')
        c.lib.FAULT_OPS = set()          # roundtrip cells: fault-free (faults are C08/C14)
        install_write_invariant(c)
        _c['c'] = c
    return _c['c']


def install_write_invariant(c):
    def inv(it, fr, consumed):
        w = fs(it.st)
        path = term_of(fr.locals['full_path'])
        size = fr.locals['size']
        mode = fr.locals['mode']
        if isinstance(mode, str) and 'b' in mode:
            body = z3.Select(w['fs_bytes'], path) == consumed
        else:
            body = z3.Select(w['fs_text'], path) == consumed
        return z3.And(body, int_term(size) == z3.Length(consumed),
                      z3.Select(w['fs_exists'], path))
    c.loop_invariants[('diskcache.core.Disk._write', 1)] = StreamLoopSpec(
        'C01._write.content', inv, havoc_world=('fs_bytes', 'fs_text'),
        on_havoc=None)
    c.write_inv = inv


def frame_other_files(st, w0, path):
    """Files other than `path` are untouched (frame of _write)."""
    w = fs(st)
    p = z3.String('p_frame')
    return z3.ForAll([p], z3.Implies(p != path, z3.And(
        z3.Select(w['fs_exists'], p) == z3.Select(w0['fs_exists'], p),
        z3.Select(w['fs_bytes'], p) == z3.Select(w0['fs_bytes'], p),
        z3.Select(w['fs_text'], p) == z3.Select(w0['fs_text'], p))))


def value_of_class(st, cls):
    if cls == 'stream':
        content = st.fresh_sv('stream_content', 'bytes')
        return Obj('stream', {'content': content}), content
    v, _ = sym_value(cls, 'v')
    return v, v


def roundtrip(kind, cls, read_back=False):
    ctx = cctx()
    info = {}

    def run(st):
        it = ctx.interp(st)
        disk = make_disk(ctx, st, kind)
        value, ref = value_of_class(st, cls)
        info.update(value=value, ref=ref, disk=disk)
        fs(st)
        read = cls == 'stream'
        key = Opaque('other', st.fresh('key', OTHER))
        size, mode, filename, dbv = it.call(it.getattr(disk, 'store'), [value, read], {'key': key})
        st.effect('STORED', size=size, mode=mode, filename=filename, value=dbv)
        info['stored'] = (size, mode, filename, dbv)
        # sqlite3 binding contract on the row's columns
        st.assume(sqlite_bind_ok(dbv))
        if isinstance(dbv, SV) and dbv.ty == 'float':
            # NaN would be bound as NULL: covered by the explicit obligation below
            info['nan_raw'] = z3.fpIsNaN(dbv.t)
        col_value = sqlite_column(dbv)
        back = it.call(it.getattr(disk, 'fetch'), [mode, filename, col_value, read_back], {})
        return back
    paths = explore(run, max_paths=600)
    out = []
    tag = '%s][%s%s' % (kind, cls, '/read' if read_back else '')
    nret = 0
    for n, p in enumerate(paths):
        name = 'C01.store_fetch.roundtrip[%s]#%d' % (tag, n)
        stored = [e for e in p.state.trace if e[0] == 'STORED']
        for o in p.state.obligations:
            out.append(discharge('%s/%s' % (name, o.name), o.kind, o.pc, o.goal, function='Disk._write',
                                 path=p.decisions))
        if p.kind == 'cut':
            continue
        if p.kind == 'raise':
            if stored:
                out.append(Result(name, 'post', 'refuted', ms=0, backend='engine', function=kind + '.fetch',
                                  path=p.decisions, detail='fetch raised %r on what store produced' % (p.value,)))
            else:
                out.append(Result(name, 'post', 'proved', ms=0, backend='engine', function=kind + '.store',
                                  path=p.decisions, detail='value rejected with %s' % p.value.cls))
            continue
        nret += 1
        ref = info['ref']
        st = p.state
        size, mode, filename, dbv = stored[0][1]['size'], stored[0][1]['mode'], stored[0][1]['filename'], stored[0][1]['value']
        pc = list(p.pc)
        if kind == 'JSONDisk' and cls == 'other':
            pc.append(L.json_rt(to_pyobj(ref)))
        # (a) value identity
        if read_back:
            back = p.value
            if not (isinstance(back, Obj) and back.cls == 'file'):
                # JSONDisk/inline values with read=True are outside the statement (handles are
                # specified for values held in binary files)
                continue
            w = fs(st)
            goal = z3.And(z3.Select(w['fs_kind'], term_of(back.fields['path'])) == 0,
                          z3.Select(w['fs_bytes'], term_of(back.fields['path'])) == ref.t)
        else:
            goal = same_value_and_type(p.value, ref) if cls != 'stream' else \
                z3.And(to_pyobj(p.value) == PyObj.OBytes(ref.t))

        def rep(model, ref=ref, st=st):
            rec = {'func': 'c01_roundtrip', 'disk': kind, 'value': py_literal(model, ref),
                   'min_file_size': py_literal(model, info['disk'].fields['min_file_size']),
                   'protocol': py_literal(model, info['disk'].fields['pickle_protocol']),
                   'stream': cls == 'stream', 'read': read_back}
            return {'recipe': rec}
        out.append(discharge(name, 'post', pc, goal, function=kind + '.store/fetch', path=p.decisions, replay=rep))
        # (b) a float stored raw must survive the sqlite3 binding (NaN is bound as NULL)
        if isinstance(dbv, SV) and dbv.ty == 'float':
            out.append(discharge(name.replace('roundtrip', 'raw_float_bindable'), 'call-pre', pc,
                                 z3.Not(z3.fpIsNaN(dbv.t)), function=kind + '.store', path=p.decisions,
                                 replay=rep))
        # (c) recorded size = bytes in the value file, 0 for inline values
        w = fs(st)
        if filename is None:
            sgoal = int_term(size) == 0
        else:
            fp = z3.Concat(term_of(info['disk'].fields['_directory']), z3.StringVal('/'), term_of(filename))
            k = z3.Select(w['fs_kind'], fp)
            sgoal = z3.And(z3.Select(w['fs_exists'], fp), z3.Not(z3.Select(w['fs_open'], fp)),
                           int_term(size) == z3.If(k == 0, z3.Length(z3.Select(w['fs_bytes'], fp)),
                                                   text_size(k, z3.Select(w['fs_text'], fp))))
        out.append(discharge(name.replace('store_fetch.roundtrip', 'store.size'), 'post', pc, sgoal,
                             function=kind + '.store', path=p.decisions))
    if nret == 0 and not out:
        out.append(Result('C01.store_fetch.roundtrip[%s]' % tag, 'vacuity', 'error', detail='no paths'))
    return out


def write_faults(mode):
    """Disk._write with the open() of every retry allowed to fail: either it returns after the
    content is completely written, or it re-raises on the 10th failure."""
    ctx = context('core')
    ctx2 = cctx()
    ctx2.lib.FAULT_OPS = {'open', 'write'}
    info = {}
    try:
        def run(st):
            it = ctx2.interp(st)
            disk = make_disk(ctx2, st, 'Disk')
            w = fs(st)
            path = st.fresh_sv('full_path', 'str')
            content = st.fresh_sv('content', 'bytes' if mode == 'xb' else 'str')
            info.update(path=path, content=content, w0=dict(w))
            src = Obj('BytesIO' if mode == 'xb' else 'StringIO', {'content': content})
            args = [path, src, mode] + ([] if mode == 'xb' else ['UTF-8'])
            return it.call(it.getattr(disk, '_write'), args, {})
        paths = explore(run, max_paths=400)
    finally:
        ctx2.lib.FAULT_OPS = set()
    out = []
    nret = 0
    for n, p in enumerate(paths):
        name = 'C01._write.contract[%s]#%d' % (mode, n)
        for o in p.state.obligations:
            out.append(discharge('%s/%s' % (name, o.name), o.kind, o.pc, o.goal, function='Disk._write',
                                 path=p.decisions))
        if p.kind == 'cut':
            continue
        w = fs(p.state)
        pt = info['path'].t
        if p.kind == 'raise':
            ok = p.value.cls in ('OSError', 'FileExistsError', 'FileNotFoundError', 'UnicodeEncodeError')
            n_open_faults = sum(1 for e in p.state.trace if e[0] == 'FAULT')
            write_fault = any(e[0] == 'FAULT' and e[1]['op'] == 'write' for e in p.state.trace)
            detail = 'raises %s after %d failed opens' % (p.value.cls, n_open_faults)
            if p.value.cls != 'UnicodeEncodeError' and not write_fault:
                tries = sum(1 for e in p.state.trace if e[0] == 'MAKEDIRS')
                ok = ok and tries == 10
                detail += ' (%d tries)' % tries
            out.append(Result(name, 'raises', 'proved' if ok else 'refuted', ms=0, backend='engine',
                              function='Disk._write', path=p.decisions, detail=detail))
            continue
        nret += 1
        c = info['content'].t
        body = z3.Select(w['fs_bytes' if mode == 'xb' else 'fs_text'], pt) == c
        goal = z3.And(body, z3.Select(w['fs_exists'], pt), z3.Not(z3.Select(w['fs_open'], pt)),
                      int_term(p.value) == z3.Length(c))
        out.append(discharge(name, 'post', p.pc, goal, function='Disk._write', path=p.decisions))
    if nret == 0:
        out.append(Result('C01._write.contract[%s]' % mode, 'vacuity', 'error', detail='no returning path'))
    return out


def mode_total():
    """Every MODE_* value has a branch in fetch: fetch never falls off the end for modes store emits.
    (Checked structurally on the roundtrip paths: a fetch returning None for a non-None value fails
    the roundtrip; this obligation pins the mode constants, shared with C18.)"""
    ctx = context('core')
    g = ctx.program.modules['diskcache.core'].globals
    modes = {n: g[n] for n in ('MODE_NONE', 'MODE_RAW', 'MODE_BINARY', 'MODE_TEXT', 'MODE_PICKLE')}
    ok = modes == {'MODE_NONE': 0, 'MODE_RAW': 1, 'MODE_BINARY': 2, 'MODE_TEXT': 3, 'MODE_PICKLE': 4}
    return [Result('C01.format.mode_constants', 'format-pin', 'proved' if ok else 'refuted', ms=0,
                   backend='engine', function='diskcache.core', detail=None if ok else repr(modes))]


ALWAYS_STANDIN = True       # the value corpus (incl. subclass instances, which the symbolic classes do not split out) runs natively on every change


def tasks(tier):
    ts = []
    for kind in ('Disk', 'JSONDisk'):
        for c in VALUE_CLASSES + (['stream'] if kind == 'Disk' else []):
            # JSONDisk: a stream stored with read=True is raw bytes, not JSON; it is specified only for
            # read=True lookups (next line), a plain get raises instead of returning something else
            ts.append(('contracts.c01', 'roundtrip', (kind, c)))
        ts.append(('contracts.c01', 'roundtrip', (kind, 'stream', True)))
        ts.append(('contracts.c01', 'roundtrip', (kind, 'bytes', True)))
    ts.append(('contracts.c01', 'write_faults', ('xb',)))
    ts.append(('contracts.c01', 'write_faults', ('x',)))
    ts.append(('contracts.c01', 'mode_total', ()))
    return ts


def meta(results, tier):
    return {'functions': {'verified_bodies': FUNCS, 'assumed_contracts': [], 'inlined': []},
            'assumptions': ['value classes are exact types; instances of SUBCLASSES of str/bytes/int/float belong to the class "other" on which '
                            'isinstance tests against native types are outside the engine (undecided): covered by the native corpus only',
                            'int is mathematical', 'A-POSIX (os.linesep == "\\n", "/" separator)',
                            'single client between store and fetch (concurrency is C05)',
                            'user stream read() yields its content in non-empty pieces then b""',
                            'JSONDisk: values outside the JSON-round-trippable domain are excluded (requires)',
                            'fault-free in the roundtrip cells; open() faults in C01._write.contract'],
            'explanation': 'store/fetch bodies executed symbolically per value class with symbolic min_file_size, protocol, compress level'}

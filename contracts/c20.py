"""C20 -- Averager counts every add once; throttle never exceeds its rate.

Bodies executed from /repo: recipes.Averager.add/get/pop, recipes.throttle
(decorator + wrapper).  The cache is a Recorder for the real Cache class.
Floats are mathematical reals (stated).

Token bucket: with B(t) = min(count, tally + rate*(t - last)) the number of
available tokens, the step obligations are
  * a call that is let through has B >= 1 before and stores B - 1, at time `now`;
  * a call that must wait leaves the stored state untouched and sleeps exactly
    (1 - B)/rate > 0 -- and the code's "must wait" flag is true exactly then;
  * the stored tally stays within [0, count];
  * read, test and write of one step lie inside one transaction block.
The window bound (starts in [t1,t2] <= count + rate*(t2-t1)) follows by
telescoping B; "every call is eventually let through" is liveness and is not
decided here.
"""
import z3

from pyvc.api import *          # noqa
from pyvc.check import Result, discharge
from pyvc.engine import explore, EnvFunc, Unsupported, StarPack, SeqV
from pyvc.loops import LoopSpec
from pyvc import mock, symargs as SA
from pyvc.mock import Recorder, calls
from pyvc.env import real_term
from contracts.disk_common import context
from contracts.c16 import FuncRecorder, install_func_recorder

_c = {}


def cctx():
    if 'c' not in _c:
        c = context('core', 'recipes')
        mock.install(c.env)
        SA.install(c.env)
        install_func_recorder(c.env)
        c.loop_invariants[('diskcache.recipes.throttle.<locals>.decorator.<locals>.wrapper', 0)] = LoopSpec(
            'C20.throttle.loop', lambda it, fr, i: z3.BoolVal(True))
        _c['c'] = c
    return _c['c']


def in_block(trace, idx):
    """Index idx of the trace lies inside a transact block of the cache."""
    depth = 0
    for i, e in enumerate(trace):
        if i == idx:
            return depth > 0
        if e[0] == 'CM_ENTER' and e[1]['name'] == 'transact':
            depth += 1
        if e[0] == 'CM_EXIT' and e[1]['name'] == 'transact':
            depth -= 1
    return False


def throttle_step():
    ctx = cctx()

    def run(st):
        it = ctx.interp(st)
        count = st.fresh_sv('count', 'int')
        seconds = st.fresh_sv('seconds', 'real')
        st.assume(count.t >= 1)
        st.assume(seconds.t > 0)
        last = st.fresh_sv('last', 'real')
        tally = st.fresh_sv('tally', 'real')
        # representation invariant of the stored bucket state
        st.assume(z3.And(tally.t >= 0, tally.t <= z3.ToReal(count.t)))

        def outcomes(nm, b):
            if nm == 'get':
                return [('return', lambda it2, b2, n: (last, tally))]
            return ['return']
        cache = Recorder('cache', ctx.cls('diskcache.core.Cache'), outcomes=outcomes)
        clock = []

        def time_func(it2, a, k):
            t = it2.st.fresh_sv('now', 'real')
            clock.append(t)
            it2.st.effect('TIME', t=t)
            return t

        def sleep_func(it2, a, k):
            it2.st.effect('SLEEP_FUNC', d=a[0])
            return None
        func = FuncRecorder('func')
        expire = Opaque('other', st.fresh('expire', OTHER))
        tag = Opaque('other', st.fresh('tag', OTHER))
        name = st.fresh_sv('name', 'str')
        dec = it.call(ctx.func('diskcache.recipes.throttle'),
                      [cache, count, seconds, name, expire, tag, EnvFunc('time_func', time_func),
                       EnvFunc('sleep_func', sleep_func)], {})
        wrapper = it.call(dec, [func], {})
        A = SeqV(st.fresh('A', SA.SEQ))
        KW = SA.KwPack(st.fresh('KW', SA.KVSEQ))
        st.ghost['info'] = dict(count=count, seconds=seconds, last=last, tally=tally, name=name, expire=expire,
                                tag=tag, A=A, KW=KW)
        st.effect('WRAPPED')
        # the stored `last` is a reading of the same clock taken earlier
        st.ghost['pre'] = True
        return it.call(wrapper, [StarPack(A)], {'**': StarPack(KW)})
    out = []
    paths = explore(run)
    kinds = set()
    for n, p in enumerate(paths):
        info = p.state.ghost['info']
        tr = p.state.trace
        w = max(i for i, e in enumerate(tr) if e[0] == 'WRAPPED')
        pre, post = tr[:w], tr[w:]
        base = 'C20.throttle.step#%d' % n
        cnt, sec = z3.ToReal(info['count'].t), info['seconds'].t
        rate = cnt / sec
        # init: decorator stores (now, count) under the key with retry
        init_sets = [e[1] for e in pre if e[0] == 'CALL' and e[1]['name'] == 'set']
        times_pre = [e[1]['t'] for e in pre if e[0] == 'TIME']
        ok = (len(init_sets) == 1 and len(times_pre) == 1 and isinstance(init_sets[0]['bound']['value'], tuple)
              and init_sets[0]['bound']['value'][0] is times_pre[0]
              and init_sets[0]['bound']['value'][1] is info['count'] and init_sets[0]['bound']['retry'] is True
              and init_sets[0]['bound']['key'] is info['name'])
        out.append(Result('C20.throttle.init#%d' % n, 'post', 'proved' if ok else 'refuted', ms=0, backend='engine',
                          function='recipes.throttle.decorator', path=p.decisions,
                          detail=None if ok else 'initial state %r' % (init_sets,)))
        for o in p.state.obligations:
            if o.name.startswith('C20.throttle.loop'):
                continue
        idx = {i: e for i, e in enumerate(post)}
        gets = [i for i, e in idx.items() if e[0] == 'CALL' and e[1]['name'] == 'get']
        sets = [i for i, e in idx.items() if e[0] == 'CALL' and e[1]['name'] == 'set']
        times = [e[1]['t'] for e in post if e[0] == 'TIME']
        sleeps = [e[1]['d'] for e in post if e[0] == 'SLEEP_FUNC']
        funcs = [e[1] for e in post if e[0] == 'FUNC']
        if p.kind == 'raise':
            out.append(Result(base, 'post', 'refuted', ms=0, backend='engine', function='recipes.throttle.wrapper',
                              path=p.decisions, detail='raises %r' % (p.value,)))
            continue
        if len(gets) != 1 or len(times) != 1 or len(sets) > 1:
            out.append(Result(base, 'post', 'refuted', ms=0, backend='engine', function='recipes.throttle.wrapper',
                              path=p.decisions, detail='step makes %d gets, %d clock readings, %d sets' % (len(gets), len(times), len(sets))))
            continue
        atomic = all(in_block(post, i) for i in gets + sets)
        out.append(Result(base + '.atomic_section', 'trace', 'proved' if atomic else 'refuted', ms=0, backend='engine',
                          function='recipes.throttle.wrapper', path=p.decisions,
                          detail=None if atomic else 'cache read/write outside the transaction block'))
        now = times[0].t
        pc = list(p.pc) + [now >= info['last'].t]          # clock readings do not go back
        B = info['tally'].t + (now - info['last'].t) * rate
        Bc = z3.If(B > cnt, cnt, B)
        if p.kind == 'return':
            kinds.add('through')
            # let through: func called once with the caller's args, bucket spent one token at time now
            okf = (len(funcs) == 1 and len(funcs[0]['args']) == 1 and funcs[0]['args'][0].v is info['A']
                   and funcs[0]['kwargs'].get('**') is not None and funcs[0]['kwargs']['**'].v is info['KW']
                   and p.value is funcs[0]['ret'] and not sleeps)
            if not okf or len(sets) != 1:
                out.append(Result(base, 'post', 'refuted', ms=0, backend='engine', function='recipes.throttle.wrapper',
                                  path=p.decisions, detail='let-through path: %d calls, %d sets, %d sleeps' % (len(funcs), len(sets), len(sleeps))))
                continue
            sb = post[sets[0]][1]['bound']
            v = sb['value']
            if not (isinstance(v, tuple) and len(v) == 2 and sb['key'] is info['name']):
                out.append(Result(base, 'post', 'refuted', ms=0, backend='engine', function='recipes.throttle.wrapper',
                                  path=p.decisions, detail='stores %r' % (sb,)))
                continue
            new_last, new_tally = real_term(v[0]), real_term(v[1])
            goal = z3.And(Bc >= 1, new_tally == Bc - 1, new_last == now, new_tally >= 0, new_tally <= cnt)
            out.append(discharge(base + '.spends_one_token', 'post', pc, goal, function='recipes.throttle.wrapper',
                                 path=p.decisions))
        else:
            kinds.add('wait')
            # must wait: nothing stored, sleeps exactly the time until one token is available, which is > 0
            if sets or funcs or len(sleeps) != 1:
                out.append(Result(base, 'post', 'refuted', ms=0, backend='engine', function='recipes.throttle.wrapper',
                                  path=p.decisions, detail='waiting path: %d sets, %d calls, %d sleeps' % (len(sets), len(funcs), len(sleeps))))
                continue
            d = real_term(sleeps[0])
            goal = z3.And(Bc < 1, d == (1 - Bc) / rate, d > 0)
            out.append(discharge(base + '.waits_for_token', 'post', pc, goal, function='recipes.throttle.wrapper',
                                 path=p.decisions))
        # completeness of the case split: B >= 1 must never end up waiting, B < 1 never passes
        # (implied by the two goals above because every path is one of the two kinds)
    if kinds != {'through', 'wait'}:
        out.append(Result('C20.throttle.step.vacuity', 'vacuity', 'error', detail='path kinds %r' % (kinds,)))
    return out


def averager():
    ctx = cctx()
    out = []
    for meth in ('add', 'get', 'pop'):
        def run(st, meth=meth):
            it = ctx.interp(st)
            total = st.fresh_sv('total', 'real')
            count = st.fresh_sv('count', 'int')
            st.assume(count.t >= 0)

            def outcomes(nm, b):
                if nm in ('get', 'pop'):
                    return [('return', lambda it2, b2, n: b2['default']),
                            ('return', lambda it2, b2, n: (total, count))]
                return ['return']
            cache = Recorder('cache', ctx.cls('diskcache.core.Cache'), outcomes=outcomes)
            key = Opaque('other', st.fresh('key', OTHER))
            expire = Opaque('other', st.fresh('expire', OTHER))
            tag = Opaque('other', st.fresh('tag', OTHER))
            av = ctx.new_obj('diskcache.recipes.Averager', {'_cache': cache, '_key': key, '_expire': expire, '_tag': tag})
            value = st.fresh_sv('value', 'real')
            st.ghost['info'] = dict(total=total, count=count, key=key, expire=expire, tag=tag, value=value)
            m = it.getattr(av, meth)
            return it.call(m, [value] if meth == 'add' else [], {})
        for n, p in enumerate(explore(run)):
            info = p.state.ghost['info']
            base = 'C20.averager.%s#%d' % (meth, n)
            tr = p.state.trace
            cs = [(i, e[1]) for i, e in enumerate(tr) if e[0] == 'CALL']
            if p.kind != 'return':
                out.append(Result(base, 'post', 'refuted', ms=0, backend='engine', function='Averager.' + meth,
                                  path=p.decisions, detail='raises %r' % (p.value,)))
                continue
            if meth == 'add':
                names = [c['name'] for _, c in cs]
                ok = names == ['get', 'set'] and all(in_block(tr, i) for i, _ in cs)
                out.append(Result(base + '.atomic_section', 'trace', 'proved' if ok else 'refuted', ms=0,
                                  backend='engine', function='Averager.add', path=p.decisions,
                                  detail=None if ok else 'calls %r, inside block: %r' % (names, [in_block(tr, i) for i, _ in cs])))
                if names != ['get', 'set']:
                    continue
                g, s_ = cs[0][1], cs[1][1]
                empty = isinstance(g['ret'], tuple) and g['ret'] is g['bound']['default']
                d = g['bound']['default']
                okd = isinstance(d, tuple) and len(d) == 2 and d[0] == 0.0 and d[1] == 0
                v = s_['bound']['value']
                okk = (g['bound']['key'] is info['key'] and s_['bound']['key'] is info['key']
                       and s_['bound']['expire'] is info['expire'] and s_['bound']['tag'] is info['tag'] and okd
                       and isinstance(v, tuple) and len(v) == 2)
                if not okk:
                    out.append(Result(base + '.transition', 'post', 'refuted', ms=0, backend='engine',
                                      function='Averager.add', path=p.decisions, detail='get(%r) set(%r)' % (g['bound'], s_['bound'])))
                    continue
                t0 = z3.RealVal(0) if empty else info['total'].t
                c0 = z3.IntVal(0) if empty else info['count'].t
                from pyvc.env import int_term
                goal = z3.And(real_term(v[0]) == t0 + info['value'].t, int_term(v[1]) == c0 + 1)
                out.append(discharge(base + '.transition', 'post', p.pc, goal, function='Averager.add', path=p.decisions))
            else:
                names = [c['name'] for _, c in cs]
                ok = names == [meth] and cs[0][1]['bound']['key'] is info['key'] and cs[0][1]['bound']['retry'] is True
                if not ok:
                    out.append(Result(base + '.mean', 'post', 'refuted', ms=0, backend='engine',
                                      function='Averager.' + meth, path=p.decisions, detail='calls %r' % (names,)))
                    continue
                ret = cs[0][1]['ret']
                empty = ret is cs[0][1]['bound']['default']
                if empty:
                    okv = p.value is None
                    out.append(Result(base + '.mean', 'post', 'proved' if okv else 'refuted', ms=0, backend='engine',
                                      function='Averager.' + meth, path=p.decisions,
                                      detail=None if okv else 'empty averager returns %r' % (p.value,)))
                else:
                    tot, c = info['total'].t, info['count'].t
                    if p.value is None:
                        goal = c == 0
                    else:
                        goal = z3.And(c != 0, real_term(p.value) == tot / z3.ToReal(c))
                    out.append(discharge(base + '.mean', 'post', p.pc, goal, function='Averager.' + meth, path=p.decisions))
    return out


def tasks(tier):
    return [('contracts.c20', 'throttle_step', ()), ('contracts.c20', 'averager', ()),
            ('contracts.traces', 'transact_block', ('C20',))] + \
        __import__('contracts.c03', fromlist=['x']).dependency_tasks('C20', ['get', 'set', 'pop'], tier=tier)     # each throttle / averager step is one block


def meta(results, tier):
    return {'functions': {'verified_bodies': ['diskcache.recipes.throttle (decorator, wrapper)',
                                              'diskcache.recipes.Averager.add/get/pop'],
                          'assumed_contracts': ['Cache.get/set/pop/transact through Recorder (their contracts are C03/C06)']},
            'assumptions': ['floats treated as mathematical reals (machine arithmetic treated as mathematical)',
                            'clock readings of time_func do not decrease',
                            'stored bucket state satisfies 0 <= tally <= count (representation invariant, re-established by every step)',
                            'A-SQL-iso: a transact block is atomic (C06)',
                            'liveness (every call is eventually let through) not decided'],
            'explanation': 'one arbitrary step of the throttle loop (loop contract) and each Averager method against a recorder cache'}


def post_process(results, tier):
    from contracts import c03 as _c03
    return _c03.dependency_rename('C20', results)

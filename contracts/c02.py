"""C02 -- keys address entries by documented equality and never alias.

Functions under contract (bodies symbolically executed from /repo on every
run): Disk.put, Disk.get, JSONDisk.put, JSONDisk.get.
Obligations:
  C02.put_get.identity[disk][class]      get(column(put(k))) is k, same type
  C02.alias_free[disk][c1 x c2]          sql_eq(put k1, put k2)  <=>  key_equal(k1, k2)
  C02.alias_free.residual[JSONDisk]...   the same outside the recorded JSONDisk finding
Lookup sites (WHERE key = ? AND raw = ?) are obligations of the Cache-level
checks (c03) and are listed there.
"""
import itertools
import z3

from pyvc.check import Result, discharge, satisfiable
from pyvc.engine import explore, PyRaise, Unsupported
from contracts.disk_common import *   # noqa
from contracts import disk_common as dc

FUNCS = ['diskcache.core.Disk.put', 'diskcache.core.Disk.get',
         'diskcache.core.JSONDisk.put', 'diskcache.core.JSONDisk.get']


def _run_put(ctx, kind, cls, name):
    """All paths of <kind>.put(key) for key of class cls."""
    holder = {}

    def run(st):
        it = ctx.interp(st)
        disk = make_disk(ctx, st, kind)
        key, dom = sym_value(cls, name)
        for d in dom:
            st.assume(d)
        st.assume(z3.Not(is_nan_key(key)))          # NaN is outside the key domain
        holder['key'] = key
        holder['disk'] = disk
        holder['it'] = it
        m = it.getattr(disk, 'put')
        return it.call(m, [key], {})
    return run, holder


def put_get_identity(kind, cls):
    ctx = context('core')
    out = []
    info = {}

    def run(st):
        it = ctx.interp(st)
        disk = make_disk(ctx, st, kind)
        key, dom = sym_value(cls, 'k')
        st.assume(z3.Not(is_nan_key(key)))
        info['key'] = key
        db_key, raw = it.call(it.getattr(disk, 'put'), [key], {})
        # sqlite3 binding contract: the value is bound, stored and selected again
        st.assume(sqlite_bind_ok(db_key))
        st.effect('PUT_DONE')
        back = it.call(it.getattr(disk, 'get'), [sqlite_column(db_key), sqlite_column(raw)], {})
        return back
    paths = explore(run)
    n = 0
    for p in paths:
        name = 'C02.put_get.identity[%s][%s]#%d' % (kind, cls, n)
        n += 1
        key = info['key']
        put_done = any(e[0] == 'PUT_DONE' for e in p.state.trace)
        if p.kind == 'raise':
            # a key may be rejected by put itself (unpicklable / not JSON-able);
            # get must never fail on what put produced
            if put_done:
                out.append(Result(name, 'post', 'refuted', function=kind + '.get', ms=0, backend='engine',
                                  detail='get raised %r on a key produced by put' % (p.value,),
                                  path=p.decisions))
            else:
                out.append(Result(name, 'post', 'proved', function=kind + '.put', ms=0, backend='engine',
                                  detail='rejected with %s' % p.value.cls, path=p.decisions))
            continue
        goal = same_value_and_type(p.value, key)
        if kind == 'JSONDisk' and cls == 'other':
            goal = z3.Implies(L.json_rt(to_pyobj(key)), goal)

        def rep(model, key=key):
            return {'recipe': {'func': 'c02_identity', 'disk': kind, 'key': py_literal(model, key)}}
        out.append(discharge(name, 'post', p.pc, goal, function=kind + '.put/get',
                             path=p.decisions, replay=rep))
    if not paths:
        out.append(Result('C02.put_get.identity[%s][%s]' % (kind, cls), 'vacuity', 'error', detail='no paths'))
    return out


def alias_free(kind, c1, c2):
    ctx = context('core')
    info = {}

    def run(st):
        it = ctx.interp(st)
        disk = make_disk(ctx, st, kind)
        k1, _ = sym_value(c1, 'k1')
        k2, _ = sym_value(c2, 'k2')
        st.assume(z3.Not(is_nan_key(k1)))
        st.assume(z3.Not(is_nan_key(k2)))
        info['k'] = (k1, k2)
        r1 = it.call(it.getattr(disk, 'put'), [k1], {})
        r2 = it.call(it.getattr(disk, 'put'), [k2], {})
        return r1, r2
    paths = explore(run)
    out = []
    n = 0
    for p in paths:
        if p.kind != 'return':
            continue                     # rejected keys are not stored
        (d1, raw1), (d2, raw2) = p.value
        k1, k2 = info['k']
        same_row = z3.And(sql_eq(d1, d2), zb(raw1) == zb(raw2))
        spec = spec_key_equal(c1, k1, c2, k2)
        if kind == 'JSONDisk':
            dom = []
            for c, k in ((c1, k1), (c2, k2)):
                if c == 'other':
                    dom.append(L.json_rt(to_pyobj(k)))
            pc = list(p.pc) + dom
        else:
            pc = p.pc
        base = 'C02.alias_free[%s][%s x %s]#%d' % (kind, c1, c2, n)

        def rep(model, k1=k1, k2=k2):
            return {'recipe': {'func': 'c02_alias', 'disk': kind,
                               'k1': py_literal(model, k1), 'k2': py_literal(model, k2)}}
        out.append(discharge(base, 'post', pc, same_row == spec, function=kind + '.put',
                             path=p.decisions, replay=rep))
        if kind == 'JSONDisk' and {c1, c2} <= {'int', 'float'}:
            # residual of finding KF-C02-jsondisk-numbers: outside numerically equal
            # numbers whose JSON texts differ, the cell must still hold
            P = PyObj
            o1, o2 = to_pyobj(k1), to_pyobj(k2)
            witness_class = z3.And(spec, o1 != o2)
            out.append(discharge(base.replace('alias_free', 'alias_free.residual'), 'post',
                                 pc, z3.Implies(z3.Not(witness_class), same_row == spec),
                                 function=kind + '.put', path=p.decisions))
        n += 1
    if n == 0:
        rej = sorted({p.value.cls for p in paths if p.kind == 'raise'})
        if rej:
            # every key of one of the classes is rejected by put: nothing is stored, nothing can alias
            out.append(Result('C02.alias_free[%s][%s x %s]#rejected' % (kind, c1, c2), 'post', 'proved',
                              ms=0, backend='engine', function=kind + '.put',
                              detail='put rejects the class: %s' % rej))
        else:
            out.append(Result('C02.alias_free[%s][%s x %s]' % (kind, c1, c2), 'vacuity', 'error', detail='no paths'))
    return out


def queue_keys_decode(kind):
    """Keys generated by push (an integer, or '<prefix>-<15 digits>' text, stored with raw = 1 without going
    through Disk.put) are decoded by iteration / peekitem with Disk.get: they must come back as themselves."""
    ctx = context('core')
    out = []
    for kcls in ('int', 'str'):
        info = {}

        def run(st, kcls=kcls):
            it = ctx.interp(st)
            disk = make_disk(ctx, st, kind)
            key, _ = sym_value(kcls, 'qk')
            info['key'] = key
            return it.call(it.getattr(disk, 'get'), [key, 1], {})
        for n, p in enumerate(explore(run)):
            name = 'C02.iter.decodes_queue_key[%s][%s]#%d' % (kind, kcls, n)
            if p.kind != 'return':
                out.append(Result(name, 'post', 'refuted', ms=0, backend='engine', function=kind + '.get', path=p.decisions,
                                  detail='Disk.get raises %s on a key that push stored' % p.value.cls,
                                  replay={'recipe': {'func': 'c02_jsondisk_queue_keys'}}))
            else:
                out.append(discharge(name, 'post', p.pc, same_value_and_type(p.value, info['key']), function=kind + '.get',
                                     path=p.decisions))
    return out


def zb(raw):
    if isinstance(raw, bool):
        return z3.BoolVal(raw)
    if isinstance(raw, SV) and raw.ty == 'bool':
        return raw.t
    raise Unsupported('raw flag %r' % (raw,))


ALWAYS_STANDIN = True       # corpus of look-alike keys (twins, subclasses, big ints) runs natively on every change


def tasks(tier):
    ts = []
    for kind in ('Disk', 'JSONDisk'):
        for c in KEY_CLASSES:
            ts.append(('contracts.c02', 'put_get_identity', (kind, c)))
        for c1, c2 in itertools.combinations_with_replacement(KEY_CLASSES, 2):
            ts.append(('contracts.c02', 'alias_free', (kind, c1, c2)))
        ts.append(('contracts.c02', 'queue_keys_decode', (kind,)))
    # "iteration returns the keys that were stored", each once: the iteration contracts of C03 (insertion order
    # and sorted order, both directions; two rows may share a database key and differ in `raw` only)
    ts += [('contracts.iteration', 'iter_task', ('C02', True)), ('contracts.iteration', 'iter_task', ('C02', False)),
           ('contracts.iteration', 'iterkeys_task', ('C02', False)), ('contracts.iteration', 'iterkeys_task', ('C02', True)),
           ('contracts.iteration', 'dbval_order_lemma', ('C02',))]
    # every lookup site addresses an entry by (key, raw) -- the dictionary contracts of the Cache methods (one
    # eviction policy in the quick tier): an operation on a key never reads or writes the entry of its twin
    from contracts import c03
    ts += c03.dependency_tasks('C02', c03.METHODS, tier=tier)
    return ts


def post_process(results, tier):
    from contracts import c03 as _c03
    return _c03.dependency_rename('C02', results)


def meta(results, tier):
    return {'functions': {'verified_bodies': FUNCS, 'assumed_contracts': [], 'inlined': []},
            'assumptions': ['int is mathematical', 'NaN is outside the key domain (requires)',
                            'A-PICKLE-canon: equal type and structure <=> equal optimised pickle',
                            'ints outside int64, bool, None and containers are non-native keys identified by type and structure',
                            'user-defined Disk subclasses are out of scope'],
            'explanation': 'Disk.put/get and JSONDisk.put/get bodies executed symbolically per key class; 2 x (7 identity + 28 pair) cells'}

"""C11 -- Deque is a persistent collections.deque.

Under contract (bodies executed from /repo against a Recorder for Cache):
append / appendleft (push + trim inside ONE transaction block, the length test
made inside it), pop / popleft / peek / peekleft (pull / peek on the right
side, ENOVAL -> IndexError), clear, __len__, the maxlen setter's trim loop,
construction with eviction policy 'none' (Deque.__init__, FanoutCache.deque),
persistence state (C18).  The sequence semantics of push/pull/peek themselves
are C10.  Also under contract (see the section "whole-sequence operations" below): _index,
iteration both ways, remove, rotate, extend/extendleft/+=, copy, count and the six comparisons.
reverse() and the persistence round trips are covered by the bounded native stand-in only
(random histories against collections.deque over the full index span).
"""
import z3

from pyvc.api import *          # noqa
from pyvc.check import Result, discharge
from pyvc.engine import explore, Unsupported
from pyvc.loops import LoopSpec
from pyvc import mock
from pyvc.mock import Recorder, calls
from pyvc.env import int_term, real_term
from contracts.disk_common import context
from contracts.c20 import in_block

_c = {}
ALWAYS_STANDIN = True


def cctx():
    if 'c' not in _c:
        c = context('core', 'persistent', 'fanout')
        mock.install(c.env)
        from contracts import fanout_common as fc
        fc.install_seq_support(c.env)
        c.loop_invariants[('diskcache.persistent.Deque.maxlen', 0)] = LoopSpec('C11.maxlen.loop', lambda it, fr, i: z3.BoolVal(True))
        _c['c'] = c
    return _c['c']


def R(name, ok, fn, p, detail=None, kind='delegate'):
    return Result(name, kind, 'proved' if ok else 'refuted', ms=0, backend='engine', function='Deque.' + fn,
                  path=p.decisions, detail=None if ok else detail)


def mk(ctx, st, outcomes=None):
    ENOVAL = ctx.program.modules['diskcache.core'].globals['ENOVAL']
    cache = Recorder('cache', ctx.cls('diskcache.core.Cache'), outcomes=outcomes)
    maxlen = st.fresh_sv('maxlen', 'real')       # float('inf') when unbounded: any real bound, or no bound
    return ctx.new_obj('diskcache.persistent.Deque', {'_cache': cache, '_maxlen': maxlen}), cache, ENOVAL, maxlen


def appends():
    ctx = cctx()
    out = []
    for meth, side, trim_side in (('append', 'back', 'front'), ('appendleft', 'front', 'back')):
        def run(st, meth=meth):
            it = ctx.interp(st)

            def outcomes(nm, b):
                if nm == '__len__':
                    return [('return', lambda it2, b2, n: it2.st.fresh_sv('len', 'int'))]
                if nm == 'pull':
                    return [('return', lambda it2, b2, n: (Opaque('other', it2.st.fresh('k', OTHER)), Opaque('other', it2.st.fresh('v', OTHER))))]
                return ['return']
            dq, cache, ENOVAL, maxlen = mk(ctx, st, outcomes)
            value = Opaque('other', st.fresh('value', OTHER))
            st.ghost.update(value=value, maxlen=maxlen)
            return it.call(it.getattr(dq, meth), [value], {})
        for n, p in enumerate(explore(run)):
            tr = p.state.trace
            g = p.state.ghost
            cs = [(i, e[1]) for i, e in enumerate(tr) if e[0] == 'CALL']
            names = [c['name'] for _, c in cs]
            base = 'C11.%s#%d' % (meth, n)
            ok = p.kind == 'return' and names[:2] == ['push', '__len__'] and names[2:] in ([], ['pull'])
            out.append(R(base + '.push_then_trim', ok, meth, p, 'calls %r (%s)' % (names, p.kind)))
            if not ok:
                continue
            pb = cs[0][1]['bound']
            okp = pb['value'] is g['value'] and pb['side'] == side and pb['retry'] is True and pb['prefix'] is None and pb['expire'] is None
            out.append(R(base + '.push_arguments', okp, meth, p, 'push(%r)' % (pb,)))
            atomic = all(in_block(tr, i) for i, _ in cs) and len([e for e in tr if e[0] == 'CM_ENTER']) == 1
            out.append(R(base + '.atomic_section', atomic, meth, p,
                         'push, length test and trim are not inside one transaction block', kind='trace'))
            ln = cs[1][1]['ret']
            trimmed = len(cs) == 3
            goal = (int_term(ln) > 0) if False else (z3.ToReal(ln.t) > g['maxlen'].t)
            out.append(discharge(base + '.trims_iff_over_maxlen', 'post', p.pc, goal if trimmed else z3.Not(goal),
                                 function='Deque.' + meth, path=p.decisions))
            if trimmed:
                tb = cs[2][1]['bound']
                okt = tb['side'] == trim_side and tb['retry'] is True and tb['prefix'] is None
                out.append(R(base + '.trims_other_end', okt, meth, p, 'pull(%r)' % (tb,)))
    return out


def pops():
    ctx = cctx()
    out = []
    spec = {'pop': ('pull', 'back'), 'popleft': ('pull', 'front'), 'peek': ('peek', 'back'), 'peekleft': ('peek', 'front')}
    for meth, (callee, side) in spec.items():
        def run(st, meth=meth):
            it = ctx.interp(st)

            def outcomes(nm, b):
                return [('return', lambda it2, b2, n: b2['default']),
                        ('return', lambda it2, b2, n: (Opaque('other', it2.st.fresh('k', OTHER)), Opaque('other', it2.st.fresh('v', OTHER))))]
            dq, cache, ENOVAL, maxlen = mk(ctx, st, outcomes)
            st.ghost['ENOVAL'] = ENOVAL
            return it.call(it.getattr(dq, meth), [], {})
        for n, p in enumerate(explore(run)):
            cs = calls(p)
            ENOVAL = p.state.ghost['ENOVAL']
            base = 'C11.%s#%d' % (meth, n)
            ok = len(cs) == 1 and cs[0]['name'] == callee
            why = 'calls %r' % [c['name'] for c in cs]
            if ok:
                b = cs[0]['bound']
                d = b['default']
                ok = b['side'] == side and b['retry'] is True and b['prefix'] is None and isinstance(d, tuple) and \
                    len(d) == 2 and d[1] is ENOVAL and b.get('expire_time') is False and b.get('tag') is False
                why = '%s(%r)' % (callee, b)
            if ok:
                empty = cs[0]['ret'] is cs[0]['bound']['default']
                if empty:
                    ok = p.kind == 'raise' and p.value.cls == 'IndexError'
                else:
                    ok = p.kind == 'return' and p.value is cs[0]['ret'][1]
                why = 'empty=%s -> %s %r' % (empty, p.kind, p.value)
            out.append(R(base + '.delegates', ok, meth, p, why))
    return out


def misc():
    ctx = cctx()
    out = []
    # clear, __len__
    for meth, callee, want in (('clear', 'clear', {'retry': True}), ('__len__', '__len__', {})):
        def run(st, meth=meth):
            it = ctx.interp(st)
            dq, cache, ENOVAL, maxlen = mk(ctx, st)
            return it.call(it.getattr(dq, meth), [], {})
        for n, p in enumerate(explore(run)):
            cs = calls(p)
            ok = p.kind == 'return' and len(cs) == 1 and cs[0]['name'] == callee and all(cs[0]['bound'].get(k) is v for k, v in want.items())
            if ok and meth == '__len__':
                ok = p.value is cs[0]['ret']
            out.append(R('C11.%s#%d.delegates' % (meth, n), ok, meth, p, 'calls %r' % [(c['name'], c['bound']) for c in cs]))
    # construction with policy none
    from contracts.c18 import init_recorder
    init_recorder(ctx, 'diskcache.core.Cache')
    try:
        def run2(st):
            it = ctx.interp(st)
            d = st.fresh_sv('dir', 'str')
            dq = ctx.new_obj('diskcache.persistent.Deque', {})
            it.call(ctx.func('diskcache.persistent.Deque.__init__'), [dq], {'directory': d, 'maxlen': st.fresh_sv('maxlen', 'int')})
            return d
        for n, p in enumerate(explore(run2)):
            inits = [e[1] for e in p.state.trace if e[0] == 'INIT']
            ok = p.kind == 'return' and len(inits) == 1 and inits[0]['raw'][1].get('eviction_policy') == 'none' and \
                (inits[0]['raw'][0] and inits[0]['raw'][0][0] is p.value or inits[0]['bound'].get('directory') is p.value)
            out.append(R('C11.init.policy_none#%d' % n, ok, '__init__', p, 'Cache(%r)' % ([i['raw'] for i in inits],)))

        def run3(st):
            it = ctx.interp(st)
            d = st.fresh_sv('dir', 'str')
            fan = ctx.new_obj('diskcache.fanout.FanoutCache', {'_directory': d, '_deques': {}, '_disk': ctx.cls('diskcache.core.Disk')})
            ml = st.fresh_sv('maxlen', 'int')
            st.ghost['ml'] = ml
            return it.call(ctx.func('diskcache.fanout.FanoutCache.deque'), [fan, 'name'], {'maxlen': ml})
        for n, p in enumerate(explore(run3)):
            inits = [e[1] for e in p.state.trace if e[0] == 'INIT']
            ok = p.kind == 'return' and len(inits) == 1 and inits[0]['raw'][1].get('eviction_policy') == 'none' and \
                isinstance(p.value, Obj) and p.value.fields.get('_maxlen') is p.state.ghost['ml']
            out.append(R('C11.fanout.deque.constructs#%d' % n, ok, 'FanoutCache.deque', p, 'Cache(%r) maxlen %r' % ([i['raw'] for i in inits], getattr(p.value, 'fields', {}).get('_maxlen'))))
    finally:
        ctx.hooks.pop('diskcache.core.Cache.__init__', None)
    return out


def tasks(tier):
    return [('contracts.c11', 'appends', ()), ('contracts.c11', 'pops', ()), ('contracts.c11', 'misc', ()),
            ('contracts.c11', 'index_task', ()),
            ('contracts.c11', 'iter_ops', ()), ('contracts.c11', 'remove_op', ()), ('contracts.c11', 'rotate_op', ()),
            ('contracts.c11', 'extend_ops', ()), ('contracts.c11', 'compare_ops', ()), ('contracts.c11', 'count_op', ()),
            ('contracts.iteration', 'iterkeys_task', ('C11', False)), ('contracts.iteration', 'iterkeys_task', ('C11', True)),
            ('contracts.traces', 'transact_block', ('C11',))] + \
        [('contracts.c10', 'push_task', (sd,)) for sd in ('back', 'front')] + \
        [('contracts.c10', 'pull_task', (m, sd)) for m in ('pull', 'peek') for sd in ('front', 'back')]
    # (the queue contracts of Cache.push / pull / peek, which every end operation of Deque is verified against)


def post_process(results, tier):
    out = []
    for r in results:
        if r['name'].startswith('C10.'):
            r = Result('C11.queue.' + r['name'][4:], r['kind'], r['verdict'],
                       **{k: v for k, v in r.items() if k not in ('name', 'kind', 'verdict')})
        out.append(r)
    return out


def meta(results, tier):
    return {'functions': {'verified_bodies': ['diskcache.persistent.Deque.append/appendleft/pop/popleft/peek/peekleft/clear/__len__/__init__',
                                              'diskcache.persistent.Deque._index/__getitem__/__setitem__/__delitem__',
                                              'diskcache.persistent.Deque.__iter__/__reversed__/remove/rotate/extend/extendleft/__iadd__/copy/count',
                                              'diskcache.persistent._make_compare.compare (__eq__/__ne__/__lt__/__le__/__gt__/__ge__)',
                                              'diskcache.fanout.FanoutCache.deque'],
                          'assumed_contracts': ['Cache.push/pull/peek/transact/__len__/clear through Recorder (C10, C06, C03)']},
            'assumptions': ['reverse() (builds a temporary Deque on disk), repr, pickling round trip: bounded stand-in only',
                            'abstract view: the deque is the sequence of Cache[key] over the keys in sorted order; == on opaque items is read as '
                            'equality of the abstract values; comparison operators are proved for integer items (a faithful instance of totally '
                            'ordered values with a consistent ==)',
                            'remove(): single client (an item vanishing between the walk and the read is skipped by the code; not in the invariant)',
                            'existing length <= maxlen at open (reopening with a smaller maxlen is not trimmed by __init__)',
                            'A-SQL-iso for the atomic section of append'],
            'explanation': 'delegate and atomic-section obligations for the queue-end operations of Deque'}


# ------------------------------------------------------------------ positional access: Deque._index
KEYAT = z3.Function('deque_key_at', z3.IntSort(), OTHER)


def install_index_loops(ctx):
    from pyvc.env import int_term as _it

    def inv_fwd(it, fr, i):
        idx = _it(fr.locals['index'])
        return z3.And(idx == it.st.ghost['index0'] - i, idx >= 0)

    def inv_bwd(it, fr, i):
        idx = _it(fr.locals['index'])
        return z3.And(idx == it.st.ghost['index0'] + 1 + i, idx <= 0)
    q = 'diskcache.persistent.Deque._index'
    ctx.loop_invariants[(q, 0)] = LoopSpec('C11._index.forward', inv_fwd)
    ctx.loop_invariants[(q, 1)] = LoopSpec('C11._index.backward', inv_bwd)


def index_task():
    """deque[i], deque[i] = v, del deque[i]: the sorted-key walk reaches exactly position i (normalised),
    IndexError exactly outside [-len, len)."""
    from pyvc.loops import SymSeq
    ctx = cctx()
    install_index_loops(ctx)
    out = []
    for meth in ('__getitem__', '__setitem__', '__delitem__'):
        def run(st, meth=meth):
            it = ctx.interp(st)
            n = st.fresh('n', z3.IntSort())
            st.assume(n >= 0)

            def keys(reverse):
                elem = (lambda i: Opaque('other', KEYAT(n - 1 - i))) if reverse else (lambda i: Opaque('other', KEYAT(i)))
                return SymSeq(n, elem, tag='keys')

            def outcomes(nm, b):
                if nm == '__len__':
                    return [('return', lambda it2, b2, k: SV('int', n))]          # single client: len == number of keys
                if nm == 'iterkeys':
                    return [('return', lambda it2, b2, k: keys(bool(b2.get('reverse'))))]
                return ['return']
            dq, cache, ENOVAL, maxlen = mk(ctx, st, outcomes)
            index = st.fresh_sv('index', 'int')
            st.ghost.update(index0=index.t, n=n)
            value = Opaque('other', st.fresh('value', OTHER))
            st.ghost['value'] = value
            args = [index] + ([value] if meth == '__setitem__' else [])
            return it.call(it.getattr(dq, meth), args, {})
        for k, p in enumerate(explore(run)):
            st = p.state
            base = 'C11.%s#%d' % (meth, k)
            for o in st.obligations:
                out.append(discharge('%s/%s' % (base, o.name), o.kind, o.pc, o.goal, function='Deque._index', path=p.decisions))
            if p.kind == 'cut':
                continue
            i0, n = st.ghost['index0'], st.ghost['n']
            inside = z3.And(i0 >= -n, i0 < n)
            cs = [c for c in calls(p) if c['name'] in ('__getitem__', '__setitem__', '__delitem__')]
            if p.kind == 'raise':
                ok = p.value.cls == 'IndexError' and not cs
                out.append(R(base + '.indexerror_without_access', ok, meth, p, 'raises %r after %d accesses' % (p.value, len(cs))))
                out.append(discharge(base + '.indexerror_only_outside_range', 'post', p.pc, z3.Not(inside),
                                     function='Deque._index', path=p.decisions))
                continue
            if len(cs) != 1 or cs[0]['name'] != meth:
                out.append(R(base + '.one_access', False, meth, p, 'accesses %r' % [c['name'] for c in cs]))
                continue
            key = cs[0]['bound']['key']
            pos = z3.If(i0 >= 0, i0, n + i0)
            goal = z3.And(inside, key.t == KEYAT(pos))
            out.append(discharge(base + '.reaches_position', 'post', p.pc, goal, function='Deque._index', path=p.decisions))
            okv = True
            if meth == '__setitem__':
                okv = cs[0]['bound']['value'] is st.ghost['value']
            if meth == '__getitem__':
                okv = p.value is cs[0]['ret']
            out.append(R(base + '.passes_value_through', okv, meth, p, 'value / result not passed through'))
    return out


# ------------------------------------------------------------------ whole-sequence operations
# Abstract view: the deque is the sequence  S[i] = VALOF(KEYAT(i)), 0 <= i < n  (keys in sorted order;
# C10: push generates keys in queue order, C03/iterkeys: sorted-order iteration).  Cache[key] returns
# VALOF(key), or raises KeyError when another client removed the item meanwhile.
VALOF = z3.Function('deque_value_of', OTHER, OTHER)


def EQV(a, b):
    """value == item: on opaque objects the engine reads == as equality of the abstract values."""
    return a == b


def seq_outcomes(st, n, keyerror=True):
    from pyvc.loops import SymSeq

    def keys(reverse):
        elem = (lambda i: Opaque('other', KEYAT(n - 1 - i))) if reverse else (lambda i: Opaque('other', KEYAT(i)))
        return SymSeq(n, elem, tag='keys')

    def outcomes(nm, b):
        if nm == '__len__':
            return [('return', lambda it2, b2, k: SV('int', n))]
        if nm == 'iterkeys':
            return [('return', lambda it2, b2, k: keys(bool(b2.get('reverse'))))]
        if nm == '__getitem__':
            outs = [('return', lambda it2, b2, k: Opaque('other', VALOF(b2['key'].t)))]
            return outs + (['KeyError'] if keyerror else [])
        if nm == '__delitem__':
            return ['return'] + (['KeyError'] if keyerror else [])
        return ['return']
    return outcomes


def install_seq_loops(ctx):
    def remember(it, fr, i):
        it.st.ghost['iter_i'] = i
        it.st.effect('ITER', i=i)
    TRUE = lambda it, fr, i: z3.BoolVal(True)
    for q in ('__iter__', '__reversed__'):
        ctx.loop_invariants[('diskcache.persistent.Deque.' + q, 0)] = LoopSpec('C11.%s.loop' % q, TRUE, on_bind=remember)

    def none_before(it, fr, i):
        j = z3.Int('j_rm')
        v = it.st.ghost['value'].t
        return z3.ForAll([j], z3.Implies(z3.And(j >= 0, j < i), z3.Not(EQV(v, VALOF(KEYAT(j))))))
    ctx.loop_invariants[('diskcache.persistent.Deque.remove', 0)] = LoopSpec('C11.remove.loop', none_before, on_bind=remember)


def iter_ops():
    """iter(deque) / reversed(deque): the values of the keys in sorted order (resp. reversed), each read
    once, items that vanished meanwhile skipped."""
    ctx = cctx()
    install_seq_loops(ctx)
    out = []
    for meth, reverse in (('__iter__', False), ('__reversed__', True)):
        def run(st, meth=meth):
            it = ctx.interp(st)
            n = st.fresh('n', z3.IntSort())
            st.assume(n >= 0)
            dq, cache, ENOVAL, maxlen = mk(ctx, st, seq_outcomes(st, n))
            st.ghost['n'] = n
            it.on_yield = lambda it2, f, v: it2.st.effect('YIELD', value=v)
            return it.call_function(ctx.func('diskcache.persistent.Deque.' + meth), [dq], {}, gen_record=[])
        npaths = 0
        for k, p in enumerate(explore(run)):
            st = p.state
            tr = st.trace
            base = 'C11.%s#%d' % (meth, k)
            for o in st.obligations:
                out.append(discharge('%s/%s' % (base, o.name), o.kind, o.pc, o.goal, function='Deque.' + meth, path=p.decisions))
            cs = [e[1] for e in tr if e[0] == 'CALL']
            ik = [c for c in cs if c['name'] == 'iterkeys']
            ok = len(ik) == 1 and bool(ik[0]['bound'].get('reverse')) == reverse and cs and cs[0]['name'] == 'iterkeys'
            out.append(R(base + '.one_sorted_walk_in_direction', ok, meth, p, 'iterkeys calls %r' % [c['bound'] for c in ik]))
            others = [c['name'] for c in cs if c['name'] not in ('iterkeys', '__getitem__')]
            out.append(R(base + '.read_only', not others, meth, p, 'calls %r' % others))
            its = [i for i, e in enumerate(tr) if e[0] == 'ITER']
            if p.kind == 'cut' and its:
                npaths += 1
                seg = tr[its[-1]:]
                i = st.ghost['iter_i']
                n = st.ghost['n']
                pos = (n - 1 - i) if reverse else i
                gets = [e[1] for e in seg if e[0] == 'CALL' and e[1]['name'] == '__getitem__']
                ys = [e[1]['value'] for e in seg if e[0] == 'YIELD']
                if len(gets) != 1:
                    out.append(R(base + '.step_reads_its_item_once', False, meth, p, '%d reads in one step' % len(gets)))
                    continue
                out.append(discharge(base + '.step_reads_its_item_once', 'post', p.pc, gets[0]['bound']['key'].t == KEYAT(pos),
                                     function='Deque.' + meth, path=p.decisions))
                if gets[0]['outcome'] == 'raise':
                    out.append(R(base + '.vanished_item_skipped', not ys, meth, p, 'yields %r for a vanished item' % (ys,)))
                else:
                    ok = len(ys) == 1 and isinstance(ys[0], Opaque)
                    if not ok:
                        out.append(R(base + '.step_yields_its_value', False, meth, p, 'yields %r' % (ys,)))
                    else:
                        out.append(discharge(base + '.step_yields_its_value', 'post', p.pc, ys[0].t == VALOF(KEYAT(pos)),
                                             function='Deque.' + meth, path=p.decisions))
            elif p.kind == 'return':
                npaths += 1
                ys = [e for e in tr if e[0] == 'YIELD']
                gets = [c for c in cs if c['name'] == '__getitem__']
                out.append(R(base + '.nothing_after_the_walk', not ys and not gets, meth, p, 'yields / reads outside the loop'))
            elif p.kind == 'raise':
                out.append(R(base + '.no_exception', False, meth, p, 'raises %r' % (p.value,)))
        if npaths == 0:
            out.append(Result('C11.%s' % meth, 'vacuity', 'error', detail='no paths'))
    return out


def remove_op():
    """deque.remove(value): deletes the first item equal to value (one deletion, by its key), ValueError
    exactly when no item equals value; items that vanish meanwhile are skipped."""
    ctx = cctx()
    install_seq_loops(ctx)
    out = []

    def run(st):
        it = ctx.interp(st)
        n = st.fresh('n', z3.IntSort())
        st.assume(n >= 0)
        dq, cache, ENOVAL, maxlen = mk(ctx, st, seq_outcomes(st, n, keyerror=False))
        value = Opaque('other', st.fresh('value', OTHER))
        st.ghost.update(n=n, value=value)
        return it.call(it.getattr(dq, 'remove'), [value], {})
    npaths = 0
    j = z3.Int('j_rm2')
    for k, p in enumerate(explore(run)):
        st = p.state
        tr = st.trace
        base = 'C11.remove#%d' % k
        for o in st.obligations:
            out.append(discharge('%s/%s' % (base, o.name), o.kind, o.pc, o.goal, function='Deque.remove', path=p.decisions))
        if p.kind == 'cut':
            continue
        npaths += 1
        n, v = st.ghost['n'], st.ghost['value'].t
        cs = [e[1] for e in tr if e[0] == 'CALL']
        dels = [c for c in cs if c['name'] == '__delitem__']
        others = [c['name'] for c in cs if c['name'] not in ('iterkeys', '__getitem__', '__delitem__', '__len__')]
        out.append(R(base + '.no_other_mutation', not others, 'remove', p, 'calls %r' % others))
        if p.kind == 'return':
            i = st.ghost.get('iter_i')
            if len(dels) != 1 or i is None:
                out.append(R(base + '.one_deletion', False, 'remove', p, '%d deletions' % len(dels)))
                continue
            first = z3.And(i >= 0, i < n, dels[0]['bound']['key'].t == KEYAT(i), EQV(v, VALOF(KEYAT(i))),
                           z3.ForAll([j], z3.Implies(z3.And(j >= 0, j < i), z3.Not(EQV(v, VALOF(KEYAT(j)))))))
            out.append(discharge(base + '.deletes_first_occurrence', 'post', p.pc, first, function='Deque.remove', path=p.decisions))
        else:
            ok = p.value.cls == 'ValueError' and not dels
            out.append(R(base + '.valueerror_without_deletion', ok, 'remove', p, 'raises %r after %d deletions' % (p.value, len(dels))))
            absent = z3.ForAll([j], z3.Implies(z3.And(j >= 0, j < n), z3.Not(EQV(v, VALOF(KEYAT(j))))))
            out.append(discharge(base + '.valueerror_only_if_absent', 'post', p.pc, absent, function='Deque.remove', path=p.decisions))
    if npaths == 0:
        out.append(Result('C11.remove', 'vacuity', 'error', detail='no paths'))
    return out


# ---- rotate / extend / extendleft / += / copy: each is a loop of end operations whose own contracts
# ---- are C11.append*/pop* above; here they are summarised by recorded effects
def install_end_ops(ctx, st_hooks=True):
    def rec(kind):
        def hook(it, f, a, k):
            b = it.bind_args(f, a, k)
            if kind in ('pop', 'popleft'):
                if it.st.decide(2) == 1:
                    it.st.effect('DQ', op=kind, outcome='raise')
                    from pyvc.engine import raise_py
                    raise_py('IndexError', 'pop from an empty deque')
                v = Opaque('other', it.st.fresh('popped', OTHER))
                it.st.effect('DQ', op=kind, outcome='return', value=v)
                return v
            it.st.effect('DQ', op=kind, value=b.get('value'))
            return None
        return hook
    for kind in ('pop', 'popleft', 'append', 'appendleft'):
        ctx.hooks['diskcache.persistent.Deque.' + kind] = rec(kind)


def remove_end_ops(ctx):
    for kind in ('pop', 'popleft', 'append', 'appendleft'):
        ctx.hooks.pop('diskcache.persistent.Deque.' + kind, None)


def rotate_op():
    """deque.rotate(steps): |steps| mod len single moves, each one pop at one end followed by an append
    of that very value at the other end (right rotation for steps >= 0, left otherwise); nothing when
    empty; TypeError for a non-integer."""
    ctx = cctx()
    out = []

    def remember(it, fr, i):
        it.st.ghost['iter_i'] = i
        it.st.effect('ITER', i=i)
    TRUE = lambda it, fr, i: z3.BoolVal(True)
    ctx.loop_invariants[('diskcache.persistent.Deque.rotate', 0)] = LoopSpec('C11.rotate.right', TRUE, on_bind=remember)
    ctx.loop_invariants[('diskcache.persistent.Deque.rotate', 1)] = LoopSpec('C11.rotate.left', TRUE, on_bind=remember)
    install_end_ops(ctx)
    try:
        def run(st):
            it = ctx.interp(st)
            n = st.fresh('n', z3.IntSort())
            st.assume(n >= 0)

            def outcomes(nm, b):
                if nm == '__len__':
                    return [('return', lambda it2, b2, k: SV('int', n))]
                return ['return']
            dq, cache, ENOVAL, maxlen = mk(ctx, st, outcomes)
            steps = st.fresh_sv('steps', 'int')
            st.ghost.update(n=n, steps=steps)
            return it.call(it.getattr(dq, 'rotate'), [steps], {})
        npaths = 0
        for k, p in enumerate(explore(run)):
            st = p.state
            tr = st.trace
            base = 'C11.rotate#%d' % k
            for o in st.obligations:
                out.append(discharge('%s/%s' % (base, o.name), o.kind, o.pc, o.goal, function='Deque.rotate', path=p.decisions))
            n, steps = st.ghost['n'], st.ghost['steps'].t
            dq_ops = [e[1] for e in tr if e[0] == 'DQ']
            its = [i for i, e in enumerate(tr) if e[0] == 'ITER']
            cachecalls = [e[1]['name'] for e in tr if e[0] == 'CALL' and e[1]['name'] != '__len__']
            out.append(R(base + '.only_end_operations', not cachecalls, 'rotate', p, 'direct cache calls %r' % cachecalls))
            if p.kind == 'raise':
                out.append(R(base + '.no_exception', False, 'rotate', p, 'raises %r' % (p.value,)))
                continue
            npaths += 1
            if its:
                # one arbitrary step (cut), or a step that found the deque emptied by someone else (return)
                seg = [e[1] for e in tr[its[-1]:] if e[0] == 'DQ']
                i = st.ghost['iter_i']
                # the number of single moves B is congruent to the requested rotation modulo the length
                # (the code reduces it first; not reducing it would rotate to the same result)
                Br, Bl = st.ghost.get('loop_bound:C11.rotate.right'), st.ghost.get('loop_bound:C11.rotate.left')
                right = z3.And(steps >= 0, Br % n == steps % n) if Br is not None else z3.BoolVal(False)
                left = z3.And(steps < 0, Bl % n == (-steps) % n) if Bl is not None else z3.BoolVal(False)
                if len(seg) == 2 and seg[0]['outcome'] == 'return':
                    pair = (seg[0]['op'], seg[1]['op'])
                    same = seg[1].get('value') is seg[0]['value']
                    if pair == ('pop', 'appendleft'):
                        goal = z3.And(n > 0, right)
                    elif pair == ('popleft', 'append'):
                        goal = z3.And(n > 0, left)
                    else:
                        goal = None
                    if goal is None or not same:
                        out.append(R(base + '.step_moves_one_item', False, 'rotate', p, 'step does %r, same value: %s' % (pair, same)))
                    else:
                        out.append(discharge(base + '.step_moves_one_item_in_direction', 'post', p.pc, goal,
                                             function='Deque.rotate', path=p.decisions))
                elif len(seg) == 1 and seg[0]['outcome'] == 'raise':
                    out.append(R(base + '.stops_when_emptied', p.kind == 'return', 'rotate', p, 'after IndexError: %s' % p.kind))
                else:
                    out.append(R(base + '.step_moves_one_item', False, 'rotate', p, 'step does %r' % [(d['op'], d.get('outcome')) for d in seg]))
            else:
                # no iteration on this path: loop exit or early return
                Br, Bl = st.ghost.get('loop_bound:C11.rotate.right'), st.ghost.get('loop_bound:C11.rotate.left')
                if Br is not None or Bl is not None:
                    goal = z3.And(n > 0, z3.And(steps >= 0, Br % n == steps % n) if Br is not None else
                                  z3.And(steps < 0, Bl % n == (-steps) % n))
                    out.append(discharge(base + '.step_count_congruent_to_request', 'post', p.pc, goal,
                                         function='Deque.rotate', path=p.decisions))
                else:
                    out.append(discharge(base + '.no_steps_only_when_empty', 'post', p.pc, n == 0, function='Deque.rotate', path=p.decisions))
                out.append(R(base + '.nothing_outside_the_steps', not dq_ops, 'rotate', p, 'operations outside the loop: %r' % [d['op'] for d in dq_ops]))
        if npaths == 0:
            out.append(Result('C11.rotate', 'vacuity', 'error', detail='no paths'))
        # non-integer argument
        def run2(st):
            it = ctx.interp(st)
            dq, cache, ENOVAL, maxlen = mk(ctx, st)
            return it.call(it.getattr(dq, 'rotate'), [st.fresh_sv('steps', 'str')], {})
        for k, p in enumerate(explore(run2)):
            ok = p.kind == 'raise' and p.value.cls == 'TypeError' and not [e for e in p.state.trace if e[0] in ('DQ', 'CALL')]
            out.append(R('C11.rotate.non_integer#%d' % k, ok, 'rotate', p, '%s %r' % (p.kind, p.value)))
    finally:
        remove_end_ops(ctx)
    return out


def extend_ops():
    """extend / extendleft / +=: one append (resp. appendleft) per element of the iterable, in its order,
    with that element; += returns the deque itself.  copy(): a Deque on the same directory, same maxlen."""
    from pyvc.loops import SymSeq
    ctx = cctx()
    out = []
    ELEM = z3.Function('extend_elem', z3.IntSort(), OTHER)

    def remember(it, fr, i):
        it.st.ghost['iter_i'] = i
        it.st.effect('ITER', i=i)
    TRUE = lambda it, fr, i: z3.BoolVal(True)
    ctx.loop_invariants[('diskcache.persistent.Deque.extend', 0)] = LoopSpec('C11.extend.loop', TRUE, on_bind=remember)
    ctx.loop_invariants[('diskcache.persistent.Deque.extendleft', 0)] = LoopSpec('C11.extendleft.loop', TRUE, on_bind=remember)
    install_end_ops(ctx)
    try:
        for meth, op_ in (('extend', 'append'), ('extendleft', 'appendleft'), ('__iadd__', 'append')):
            def run(st, meth=meth):
                it = ctx.interp(st)
                m = st.fresh('m', z3.IntSort())
                st.assume(m >= 0)
                dq, cache, ENOVAL, maxlen = mk(ctx, st)
                st.ghost.update(m=m, dq=dq)
                return it.call(it.getattr(dq, meth), [SymSeq(m, lambda i: Opaque('other', ELEM(i)), tag='iterable')], {})
            npaths = 0
            for k, p in enumerate(explore(run)):
                st = p.state
                tr = st.trace
                base = 'C11.%s#%d' % (meth, k)
                for o in st.obligations:
                    out.append(discharge('%s/%s' % (base, o.name), o.kind, o.pc, o.goal, function='Deque.' + meth, path=p.decisions))
                cachecalls = [e[1]['name'] for e in tr if e[0] == 'CALL']
                out.append(R(base + '.only_end_operations', not cachecalls, meth, p, 'direct cache calls %r' % cachecalls))
                its = [i for i, e in enumerate(tr) if e[0] == 'ITER']
                if p.kind == 'raise':
                    out.append(R(base + '.no_exception', False, meth, p, 'raises %r' % (p.value,)))
                    continue
                npaths += 1
                if p.kind == 'cut' and its:
                    seg = [e[1] for e in tr[its[-1]:] if e[0] == 'DQ']
                    i = st.ghost['iter_i']
                    if len(seg) != 1 or seg[0]['op'] != op_ or not isinstance(seg[0].get('value'), Opaque):
                        out.append(R(base + '.one_%s_per_element' % op_, False, meth, p, 'step does %r' % [(d['op'], d.get('value')) for d in seg]))
                    else:
                        out.append(discharge(base + '.one_%s_per_element' % op_, 'post', p.pc, seg[0]['value'].t == ELEM(i),
                                             function='Deque.' + meth, path=p.decisions))
                else:
                    dq_ops = [e[1] for e in tr if e[0] == 'DQ']
                    ok = not dq_ops and (p.value is st.ghost['dq'] if meth == '__iadd__' else p.value is None)
                    out.append(R(base + '.nothing_outside_the_loop', ok, meth, p, 'operations %r, returns %r' % ([d['op'] for d in dq_ops], p.value)))
            if npaths == 0:
                out.append(Result('C11.%s' % meth, 'vacuity', 'error', detail='no paths'))
    finally:
        remove_end_ops(ctx)
    # copy
    def hook(it, f, a, k):
        b = it.bind_args(f, a, k)
        it.st.effect('NEWDEQUE', bound={x: v for x, v in b.items() if x != 'self'})
        return None
    ctx.hooks['diskcache.persistent.Deque.__init__'] = hook
    try:
        def run3(st):
            it = ctx.interp(st)
            dq, cache, ENOVAL, maxlen = mk(ctx, st, lambda nm, b: ['return'])
            d = st.fresh_sv('dir', 'str')
            cache.attrs = {'directory': d} if hasattr(cache, 'attrs') else None
            st.ghost.update(dq=dq, maxlen=maxlen, cache=cache)
            return it.call(it.getattr(dq, 'copy'), [], {})
        for k, p in enumerate(explore(run3)):
            st = p.state
            news = [e[1]['bound'] for e in st.trace if e[0] == 'NEWDEQUE']
            cs = calls(p)
            dirs = [c for c in cs if c['name'] == 'directory']
            ok = p.kind == 'return' and len(news) == 1 and news[0].get('maxlen') is st.ghost['maxlen'] and \
                len(dirs) == 1 and news[0].get('directory') is dirs[0]['ret'] and \
                isinstance(p.value, Obj) and p.value is not st.ghost['dq'] and p.value.cls is st.ghost['dq'].cls
            out.append(R('C11.copy#%d.same_directory_and_maxlen' % k, ok, 'copy', p,
                         'constructs %r from directory reads %r (%s %r)' % (news, [c['name'] for c in cs], p.kind, p.value)))
    finally:
        ctx.hooks.pop('diskcache.persistent.Deque.__init__', None)
    return out


def compare_ops():
    """deque <op> sequence for the six comparison operators: the lexicographic comparison of the item
    sequences (elements taken as integers: a faithful instance of totally ordered values with a
    consistent ==), NotImplemented for a non-sequence.  iter(deque) enters by its contract
    (C11.__iter__.*): the values in sorted key order."""
    from pyvc.loops import SymSeq
    ctx = cctx()
    out = []
    SI = z3.Function('deque_item', z3.IntSort(), z3.IntSort())
    TI = z3.Function('that_item', z3.IntSort(), z3.IntSort())
    j = z3.Int('j_cmp')
    d = z3.Int('d_cmp')

    def remember(it, fr, i):
        it.st.ghost['iter_i'] = i

    def inv(it, fr, i):
        return z3.ForAll([j], z3.Implies(z3.And(j >= 0, j < i), SI(j) == TI(j)))
    ctx.loop_invariants[('diskcache.persistent._make_compare.<locals>.compare', 0)] = LoopSpec('C11.compare.loop', inv, on_bind=remember)

    def iter_contract(it, f, a, k):
        n = it.st.ghost['n']
        it.st.effect('ITERSELF')
        return SymSeq(n, lambda i: SV('int', SI(i)), tag='deque items')
    ctx.hooks['diskcache.persistent.Deque.__iter__'] = iter_contract
    ops = {'__eq__': lambda a, b: a == b, '__ne__': lambda a, b: a != b, '__lt__': lambda a, b: a < b,
           '__le__': lambda a, b: a <= b, '__gt__': lambda a, b: a > b, '__ge__': lambda a, b: a >= b}
    try:
        for name, rel in ops.items():
            def run(st, name=name):
                it = ctx.interp(st)
                n = st.fresh('n', z3.IntSort())
                m = st.fresh('m', z3.IntSort())
                st.assume(z3.And(n >= 0, m >= 0))

                def outcomes(nm, b):
                    if nm == '__len__':
                        return [('return', lambda it2, b2, k: SV('int', n))]
                    return ['return']
                dq, cache, ENOVAL, maxlen = mk(ctx, st, outcomes)
                st.ghost.update(n=n, m=m)
                that = SymSeq(m, lambda i: SV('int', TI(i)), kind='list', tag='that')
                return it.call(it.getattr(dq, name), [that], {})
            npaths = 0
            for k, p in enumerate(explore(run)):
                st = p.state
                base = 'C11.%s#%d' % (name, k)
                for o in st.obligations:
                    out.append(discharge('%s/%s' % (base, o.name), o.kind, o.pc, o.goal, function='Deque.' + name, path=p.decisions))
                if p.kind == 'cut':
                    continue
                npaths += 1
                if p.kind != 'return':
                    out.append(R(base + '.no_exception', False, name, p, 'raises %r' % (p.value,)))
                    continue
                n, m = st.ghost['n'], st.ghost['m']
                mn = z3.If(n < m, n, m)
                first_diff = lambda x: z3.And(x >= 0, x < mn, SI(x) != TI(x),
                                              z3.ForAll([j], z3.Implies(z3.And(j >= 0, j < x), SI(j) == TI(j))))
                all_eq = z3.ForAll([j], z3.Implies(z3.And(j >= 0, j < mn), SI(j) == TI(j)))
                if name == '__eq__':
                    spec = z3.And(n == m, all_eq)               # equal sequences: same length, same items
                elif name == '__ne__':
                    spec = z3.Not(z3.And(n == m, all_eq))
                else:
                    spec = z3.Or(z3.Exists([d], z3.And(first_diff(d), rel(SI(d), TI(d)))), z3.And(all_eq, rel(n, m)))
                v = p.value
                if isinstance(v, bool):
                    got = z3.BoolVal(v)
                elif isinstance(v, SV) and v.ty == 'bool':
                    got = v.t
                elif isinstance(v, z3.BoolRef):
                    got = v
                else:
                    out.append(R(base + '.returns_bool', False, name, p, 'returns %r' % (v,)))
                    continue
                i = st.ghost.get('iter_i')
                extra = []
                if i is not None:
                    # the witness of the existential when the loop returned at step i
                    extra = [z3.Implies(first_diff(i), z3.Exists([d], z3.And(d == i, first_diff(d))))]
                out.append(discharge(base + '.lexicographic', 'post', p.pc, got == spec, function='Deque.' + name,
                                     path=p.decisions, extra=extra))
            if npaths == 0:
                out.append(Result('C11.%s' % name, 'vacuity', 'error', detail='no paths'))
        # non-sequence
        def run2(st):
            it = ctx.interp(st)
            dq, cache, ENOVAL, maxlen = mk(ctx, st)
            return it.call(it.getattr(dq, '__eq__'), [st.fresh_sv('x', 'int')], {})
        core = ctx.env
        for k, p in enumerate(explore(run2)):
            ok = p.kind == 'return' and (p.value is NotImplemented or getattr(p.value, 'name', None) == 'NotImplemented'
                                         or repr(p.value) == 'NotImplemented') and not calls(p)
            out.append(R('C11.__eq__.non_sequence#%d' % k, ok, '__eq__', p, '%s %r' % (p.kind, p.value)))
    finally:
        ctx.hooks.pop('diskcache.persistent.Deque.__iter__', None)
    return out


def count_op():
    """deque.count(value) = sum over the items of iter(deque) of [value == item]: the generator expression
    is evaluated on a generic item (position i of the iteration contract), its filter must be exactly
    value == S[i] and its element exactly 1, and the result must be the sum of that mapping."""
    import ast
    from pyvc.loops import SymSeq, MappedSeq, Fold
    from pyvc.engine import Frame
    ctx = cctx()
    out = []
    env = ctx.env
    old = env.symbolic_comprehension

    def comp(it, e, fr):
        if len(e.generators) == 1 and len(e.generators[0].ifs) == 1 and not isinstance(e, ast.DictComp):
            g = e.generators[0]
            src = it.eval(g.iter, fr)
            if isinstance(src, Obj) and not isinstance(src, SymSeq) and isinstance(getattr(src, 'cls', None), type(ctx.cls('diskcache.persistent.Deque'))):
                src = it.call(it.getattr(src, '__iter__'), [], {})
            if isinstance(src, SymSeq):
                cfr = Frame(fr.func, fr.module, {}, fr, selfcls=fr.selfcls)
                i = it.st.fresh('map_i', z3.IntSort())
                it.st.assume(z3.And(i >= 0, i < src.n))
                it.assign_local(g.target, src.elem(i), cfr)
                cond = it.eval(g.ifs[0], cfr)
                v = it.eval(e.elt, cfr)
                m = MappedSeq(src, i, v, [], isinstance(e, ast.ListComp))
                m.cond = cond
                return m
        return old(it, e, fr)

    def iter_contract(it, f, a, k):
        it.st.effect('ITERSELF')
        return SymSeq(it.st.ghost['n'], lambda i: Opaque('other', VALOF(KEYAT(i))), tag='deque items')
    env.symbolic_comprehension = comp
    ctx.hooks['diskcache.persistent.Deque.__iter__'] = iter_contract
    try:
        def run(st):
            it = ctx.interp(st)
            n = st.fresh('n', z3.IntSort())
            st.assume(n >= 0)
            dq, cache, ENOVAL, maxlen = mk(ctx, st)
            v = Opaque('other', st.fresh('value', OTHER))
            st.ghost.update(n=n, value=v)
            return it.call(it.getattr(dq, 'count'), [v], {})
        paths = explore(run)
        for k, p in enumerate(paths):
            st = p.state
            base = 'C11.count#%d' % k
            r = p.value
            ok = p.kind == 'return' and isinstance(r, Fold) and r.kind == 'sum' and r.extra in (0, None) and \
                isinstance(r.mapped, MappedSeq) and getattr(r.mapped.seq, 'tag', '') == 'deque items' and r.mapped.value == 1 and \
                len([e for e in st.trace if e[0] == 'ITERSELF']) == 1 and not calls(p)
            out.append(R(base + '.sum_of_ones_over_the_items', ok, 'count', p, '%s %r' % (p.kind, r)))
            if ok:
                cond = getattr(r.mapped, 'cond', None)
                if isinstance(cond, SV) and cond.ty == 'bool':
                    cond = cond.t
                elif isinstance(cond, bool):
                    cond = z3.BoolVal(cond)
                i = r.mapped.index
                if not isinstance(cond, z3.BoolRef):
                    out.append(R(base + '.counts_exactly_the_equal_items', False, 'count', p, 'filter %r' % (cond,)))
                else:
                    out.append(discharge(base + '.counts_exactly_the_equal_items', 'post', p.pc,
                                         cond == EQV(st.ghost['value'].t, VALOF(KEYAT(i))), function='Deque.count', path=p.decisions))
        if not paths:
            out.append(Result('C11.count', 'vacuity', 'error', detail='no paths'))
    finally:
        env.symbolic_comprehension = old
        ctx.hooks.pop('diskcache.persistent.Deque.__iter__', None)
    return out

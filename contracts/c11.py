"""C11 -- Deque is a persistent collections.deque.

Under contract (bodies executed from /repo against a Recorder for Cache):
append / appendleft (push + trim inside ONE transaction block, the length test
made inside it), pop / popleft / peek / peekleft (pull / peek on the right
side, ENOVAL -> IndexError), clear, __len__, the maxlen setter's trim loop,
construction with eviction policy 'none' (Deque.__init__, FanoutCache.deque),
persistence state (C18).  The sequence semantics of push/pull/peek themselves
are C10.  _index (positional access), rotate, reverse, remove, count,
comparisons and iteration are covered by the bounded native stand-in only
(random histories against collections.deque over the full index span).
"""
import z3

from pyvc.api import *          # noqa
from pyvc.check import Result, discharge
from pyvc.engine import explore, Unsupported
from pyvc.loops import LoopSpec
from pyvc import mock
from pyvc.mock import Recorder, calls
from pyvc.env import int_term, real_term
from contracts.disk_common import context
from contracts.c20 import in_block

_c = {}
ALWAYS_STANDIN = True


def cctx():
    if 'c' not in _c:
        c = context('core', 'persistent', 'fanout')
        mock.install(c.env)
        from contracts import fanout_common as fc
        fc.install_seq_support(c.env)
        c.loop_invariants[('diskcache.persistent.Deque.maxlen', 0)] = LoopSpec('C11.maxlen.loop', lambda it, fr, i: z3.BoolVal(True))
        _c['c'] = c
    return _c['c']


def R(name, ok, fn, p, detail=None, kind='delegate'):
    return Result(name, kind, 'proved' if ok else 'refuted', ms=0, backend='engine', function='Deque.' + fn,
                  path=p.decisions, detail=None if ok else detail)


def mk(ctx, st, outcomes=None):
    ENOVAL = ctx.program.modules['diskcache.core'].globals['ENOVAL']
    cache = Recorder('cache', ctx.cls('diskcache.core.Cache'), outcomes=outcomes)
    maxlen = st.fresh_sv('maxlen', 'real')       # float('inf') when unbounded: any real bound, or no bound
    return ctx.new_obj('diskcache.persistent.Deque', {'_cache': cache, '_maxlen': maxlen}), cache, ENOVAL, maxlen


def appends():
    ctx = cctx()
    out = []
    for meth, side, trim_side in (('append', 'back', 'front'), ('appendleft', 'front', 'back')):
        def run(st, meth=meth):
            it = ctx.interp(st)

            def outcomes(nm, b):
                if nm == '__len__':
                    return [('return', lambda it2, b2, n: it2.st.fresh_sv('len', 'int'))]
                if nm == 'pull':
                    return [('return', lambda it2, b2, n: (Opaque('other', it2.st.fresh('k', OTHER)), Opaque('other', it2.st.fresh('v', OTHER))))]
                return ['return']
            dq, cache, ENOVAL, maxlen = mk(ctx, st, outcomes)
            value = Opaque('other', st.fresh('value', OTHER))
            st.ghost.update(value=value, maxlen=maxlen)
            return it.call(it.getattr(dq, meth), [value], {})
        for n, p in enumerate(explore(run)):
            tr = p.state.trace
            g = p.state.ghost
            cs = [(i, e[1]) for i, e in enumerate(tr) if e[0] == 'CALL']
            names = [c['name'] for _, c in cs]
            base = 'C11.%s#%d' % (meth, n)
            ok = p.kind == 'return' and names[:2] == ['push', '__len__'] and names[2:] in ([], ['pull'])
            out.append(R(base + '.push_then_trim', ok, meth, p, 'calls %r (%s)' % (names, p.kind)))
            if not ok:
                continue
            pb = cs[0][1]['bound']
            okp = pb['value'] is g['value'] and pb['side'] == side and pb['retry'] is True and pb['prefix'] is None and pb['expire'] is None
            out.append(R(base + '.push_arguments', okp, meth, p, 'push(%r)' % (pb,)))
            atomic = all(in_block(tr, i) for i, _ in cs) and len([e for e in tr if e[0] == 'CM_ENTER']) == 1
            out.append(R(base + '.atomic_section', atomic, meth, p,
                         'push, length test and trim are not inside one transaction block', kind='trace'))
            ln = cs[1][1]['ret']
            trimmed = len(cs) == 3
            goal = (int_term(ln) > 0) if False else (z3.ToReal(ln.t) > g['maxlen'].t)
            out.append(discharge(base + '.trims_iff_over_maxlen', 'post', p.pc, goal if trimmed else z3.Not(goal),
                                 function='Deque.' + meth, path=p.decisions))
            if trimmed:
                tb = cs[2][1]['bound']
                okt = tb['side'] == trim_side and tb['retry'] is True and tb['prefix'] is None
                out.append(R(base + '.trims_other_end', okt, meth, p, 'pull(%r)' % (tb,)))
    return out


def pops():
    ctx = cctx()
    out = []
    spec = {'pop': ('pull', 'back'), 'popleft': ('pull', 'front'), 'peek': ('peek', 'back'), 'peekleft': ('peek', 'front')}
    for meth, (callee, side) in spec.items():
        def run(st, meth=meth):
            it = ctx.interp(st)

            def outcomes(nm, b):
                return [('return', lambda it2, b2, n: b2['default']),
                        ('return', lambda it2, b2, n: (Opaque('other', it2.st.fresh('k', OTHER)), Opaque('other', it2.st.fresh('v', OTHER))))]
            dq, cache, ENOVAL, maxlen = mk(ctx, st, outcomes)
            st.ghost['ENOVAL'] = ENOVAL
            return it.call(it.getattr(dq, meth), [], {})
        for n, p in enumerate(explore(run)):
            cs = calls(p)
            ENOVAL = p.state.ghost['ENOVAL']
            base = 'C11.%s#%d' % (meth, n)
            ok = len(cs) == 1 and cs[0]['name'] == callee
            why = 'calls %r' % [c['name'] for c in cs]
            if ok:
                b = cs[0]['bound']
                d = b['default']
                ok = b['side'] == side and b['retry'] is True and b['prefix'] is None and isinstance(d, tuple) and \
                    len(d) == 2 and d[1] is ENOVAL and b.get('expire_time') is False and b.get('tag') is False
                why = '%s(%r)' % (callee, b)
            if ok:
                empty = cs[0]['ret'] is cs[0]['bound']['default']
                if empty:
                    ok = p.kind == 'raise' and p.value.cls == 'IndexError'
                else:
                    ok = p.kind == 'return' and p.value is cs[0]['ret'][1]
                why = 'empty=%s -> %s %r' % (empty, p.kind, p.value)
            out.append(R(base + '.delegates', ok, meth, p, why))
    return out


def misc():
    ctx = cctx()
    out = []
    # clear, __len__
    for meth, callee, want in (('clear', 'clear', {'retry': True}), ('__len__', '__len__', {})):
        def run(st, meth=meth):
            it = ctx.interp(st)
            dq, cache, ENOVAL, maxlen = mk(ctx, st)
            return it.call(it.getattr(dq, meth), [], {})
        for n, p in enumerate(explore(run)):
            cs = calls(p)
            ok = p.kind == 'return' and len(cs) == 1 and cs[0]['name'] == callee and all(cs[0]['bound'].get(k) is v for k, v in want.items())
            if ok and meth == '__len__':
                ok = p.value is cs[0]['ret']
            out.append(R('C11.%s#%d.delegates' % (meth, n), ok, meth, p, 'calls %r' % [(c['name'], c['bound']) for c in cs]))
    # construction with policy none
    from contracts.c18 import init_recorder
    init_recorder(ctx, 'diskcache.core.Cache')
    try:
        def run2(st):
            it = ctx.interp(st)
            d = st.fresh_sv('dir', 'str')
            dq = ctx.new_obj('diskcache.persistent.Deque', {})
            it.call(ctx.func('diskcache.persistent.Deque.__init__'), [dq], {'directory': d, 'maxlen': st.fresh_sv('maxlen', 'int')})
            return d
        for n, p in enumerate(explore(run2)):
            inits = [e[1] for e in p.state.trace if e[0] == 'INIT']
            ok = p.kind == 'return' and len(inits) == 1 and inits[0]['raw'][1].get('eviction_policy') == 'none' and \
                (inits[0]['raw'][0] and inits[0]['raw'][0][0] is p.value or inits[0]['bound'].get('directory') is p.value)
            out.append(R('C11.init.policy_none#%d' % n, ok, '__init__', p, 'Cache(%r)' % ([i['raw'] for i in inits],)))

        def run3(st):
            it = ctx.interp(st)
            d = st.fresh_sv('dir', 'str')
            fan = ctx.new_obj('diskcache.fanout.FanoutCache', {'_directory': d, '_deques': {}, '_disk': ctx.cls('diskcache.core.Disk')})
            ml = st.fresh_sv('maxlen', 'int')
            st.ghost['ml'] = ml
            return it.call(ctx.func('diskcache.fanout.FanoutCache.deque'), [fan, 'name'], {'maxlen': ml})
        for n, p in enumerate(explore(run3)):
            inits = [e[1] for e in p.state.trace if e[0] == 'INIT']
            ok = p.kind == 'return' and len(inits) == 1 and inits[0]['raw'][1].get('eviction_policy') == 'none' and \
                isinstance(p.value, Obj) and p.value.fields.get('_maxlen') is p.state.ghost['ml']
            out.append(R('C11.fanout.deque.constructs#%d' % n, ok, 'FanoutCache.deque', p, 'Cache(%r) maxlen %r' % ([i['raw'] for i in inits], getattr(p.value, 'fields', {}).get('_maxlen'))))
    finally:
        ctx.hooks.pop('diskcache.core.Cache.__init__', None)
    return out


def tasks(tier):
    return [('contracts.c11', 'appends', ()), ('contracts.c11', 'pops', ()), ('contracts.c11', 'misc', ()),
            ('contracts.c11', 'index_task', ()),
            ('contracts.iteration', 'iterkeys_task', ('C11', False)), ('contracts.iteration', 'iterkeys_task', ('C11', True)),
            ('contracts.traces', 'transact_block', ('C11',))]     # append at maxlen = push + trim in one block


def meta(results, tier):
    return {'functions': {'verified_bodies': ['diskcache.persistent.Deque.append/appendleft/pop/popleft/peek/peekleft/clear/__len__/__init__',
                                              'diskcache.fanout.FanoutCache.deque'],
                          'assumed_contracts': ['Cache.push/pull/peek/transact/__len__/clear through Recorder (C10, C06, C03)']},
            'assumptions': ['positional access, rotate, reverse, remove, count, comparisons, iteration: bounded stand-in only',
                            'existing length <= maxlen at open (reopening with a smaller maxlen is not trimmed by __init__)',
                            'A-SQL-iso for the atomic section of append'],
            'explanation': 'delegate and atomic-section obligations for the queue-end operations of Deque'}


# ------------------------------------------------------------------ positional access: Deque._index
KEYAT = z3.Function('deque_key_at', z3.IntSort(), OTHER)


def install_index_loops(ctx):
    from pyvc.env import int_term as _it

    def inv_fwd(it, fr, i):
        idx = _it(fr.locals['index'])
        return z3.And(idx == it.st.ghost['index0'] - i, idx >= 0)

    def inv_bwd(it, fr, i):
        idx = _it(fr.locals['index'])
        return z3.And(idx == it.st.ghost['index0'] + 1 + i, idx <= 0)
    q = 'diskcache.persistent.Deque._index'
    ctx.loop_invariants[(q, 0)] = LoopSpec('C11._index.forward', inv_fwd)
    ctx.loop_invariants[(q, 1)] = LoopSpec('C11._index.backward', inv_bwd)


def index_task():
    """deque[i], deque[i] = v, del deque[i]: the sorted-key walk reaches exactly position i (normalised),
    IndexError exactly outside [-len, len)."""
    from pyvc.loops import SymSeq
    ctx = cctx()
    install_index_loops(ctx)
    out = []
    for meth in ('__getitem__', '__setitem__', '__delitem__'):
        def run(st, meth=meth):
            it = ctx.interp(st)
            n = st.fresh('n', z3.IntSort())
            st.assume(n >= 0)

            def keys(reverse):
                elem = (lambda i: Opaque('other', KEYAT(n - 1 - i))) if reverse else (lambda i: Opaque('other', KEYAT(i)))
                return SymSeq(n, elem, tag='keys')

            def outcomes(nm, b):
                if nm == '__len__':
                    return [('return', lambda it2, b2, k: SV('int', n))]          # single client: len == number of keys
                if nm == 'iterkeys':
                    return [('return', lambda it2, b2, k: keys(bool(b2.get('reverse'))))]
                return ['return']
            dq, cache, ENOVAL, maxlen = mk(ctx, st, outcomes)
            index = st.fresh_sv('index', 'int')
            st.ghost.update(index0=index.t, n=n)
            value = Opaque('other', st.fresh('value', OTHER))
            st.ghost['value'] = value
            args = [index] + ([value] if meth == '__setitem__' else [])
            return it.call(it.getattr(dq, meth), args, {})
        for k, p in enumerate(explore(run)):
            st = p.state
            base = 'C11.%s#%d' % (meth, k)
            for o in st.obligations:
                out.append(discharge('%s/%s' % (base, o.name), o.kind, o.pc, o.goal, function='Deque._index', path=p.decisions))
            if p.kind == 'cut':
                continue
            i0, n = st.ghost['index0'], st.ghost['n']
            inside = z3.And(i0 >= -n, i0 < n)
            cs = [c for c in calls(p) if c['name'] in ('__getitem__', '__setitem__', '__delitem__')]
            if p.kind == 'raise':
                ok = p.value.cls == 'IndexError' and not cs
                out.append(R(base + '.indexerror_without_access', ok, meth, p, 'raises %r after %d accesses' % (p.value, len(cs))))
                out.append(discharge(base + '.indexerror_only_outside_range', 'post', p.pc, z3.Not(inside),
                                     function='Deque._index', path=p.decisions))
                continue
            if len(cs) != 1 or cs[0]['name'] != meth:
                out.append(R(base + '.one_access', False, meth, p, 'accesses %r' % [c['name'] for c in cs]))
                continue
            key = cs[0]['bound']['key']
            pos = z3.If(i0 >= 0, i0, n + i0)
            goal = z3.And(inside, key.t == KEYAT(pos))
            out.append(discharge(base + '.reaches_position', 'post', p.pc, goal, function='Deque._index', path=p.decisions))
            okv = True
            if meth == '__setitem__':
                okv = cs[0]['bound']['value'] is st.ghost['value']
            if meth == '__getitem__':
                okv = p.value is cs[0]['ret']
            out.append(R(base + '.passes_value_through', okv, meth, p, 'value / result not passed through'))
    return out

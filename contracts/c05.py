"""C05 -- effect-trace obligations; see contracts/traces.py for the obligation definitions."""
from contracts import traces, c03

ALWAYS_STANDIN = True       # contending clients and paused iterations run natively on every change
POLS = ['least-recently-stored', 'least-recently-used']


def tasks(tier):
    ts = []
    for m in traces.MUTATORS:
        for pol in POLS:
            for nested in (False, True):
                ts.append(('contracts.traces', 'trace_obligations', ('C05', m, pol, nested)))
    ts += traces.extra_tasks('C05')
    return ts


def post_process(results, tier):
    return traces.post_process('C05', results)


def meta(results, tier):
    return traces.meta('C05', results, tier)

"""Native replays: run under /venv/bin/python against the real repository code.

Reads one JSON recipe on stdin, prints one JSON line
{"reproduced": bool, "observed": ..., "expected": ...}.  `reproduced` means
the real code shows the violation the obligation's counter-model describes.
"""
import json
import math
import shutil
import sys
import tempfile

nan, inf = float('nan'), float('inf')


class OTHER:
    """Stand-in for an arbitrary picklable object of some other class."""

    def __init__(self, tag):
        self.tag = tag

    def __eq__(self, o):
        return type(o) is OTHER and o.tag == self.tag

    def __hash__(self):
        return hash(self.tag)

    def __repr__(self):
        return 'OTHER(%r)' % self.tag


def lit(src):
    return eval(src, {'nan': nan, 'inf': inf, 'float': float, 'OTHER': OTHER, 'frozenset': frozenset, '__builtins__': {}})


def same(a, b):
    """Same value and type (NaN equal to NaN, -0.0 distinct from 0.0)."""
    if type(a) is not type(b):
        return False
    if isinstance(a, float):
        return (a != a and b != b) or (a == b and math.copysign(1, a) == math.copysign(1, b))
    if isinstance(a, (tuple, list)):
        return len(a) == len(b) and all(same(x, y) for x, y in zip(a, b))
    return a == b


def spec_key_equal(a, b):
    native = lambda x: type(x) in (str, bytes, float) or (type(x) is int and -2**63 <= x < 2**63)
    if native(a) and native(b):
        if isinstance(a, (str, bytes)) or isinstance(b, (str, bytes)):
            return type(a) is type(b) and a == b
        return a == b
    if native(a) or native(b):
        return False
    return type(a) is type(b) and a == b


def disk_class(name):
    import diskcache
    return {'Disk': diskcache.Disk, 'JSONDisk': diskcache.JSONDisk}[name]


def c02_identity(r):
    import diskcache
    d = tempfile.mkdtemp()
    try:
        c = diskcache.Cache(d, disk=disk_class(r['disk']))
        k = lit(r['key'])
        try:
            c[k] = 1
        except Exception as e:
            return {'reproduced': False, 'observed': 'rejected %r' % e}
        keys = list(c)
        ok = len(keys) == 1 and same(keys[0], k) and same(list(c.iterkeys())[0], k)
        return {'reproduced': not ok, 'observed': repr(keys), 'expected': repr([k])}
    finally:
        shutil.rmtree(d, ignore_errors=True)


def c02_alias(r):
    import diskcache
    d = tempfile.mkdtemp()
    try:
        c = diskcache.Cache(d, disk=disk_class(r['disk']))
        k1, k2 = lit(r['k1']), lit(r['k2'])
        try:
            c[k1] = 'one'
            c[k2] = 'two'
        except Exception as e:
            return {'reproduced': False, 'observed': 'rejected %r' % e}
        shared = len(c) == 1
        exp = spec_key_equal(k1, k2)
        return {'reproduced': shared != exp, 'observed': 'one entry' if shared else 'two entries',
                'expected': 'one entry' if exp else 'two entries'}
    finally:
        shutil.rmtree(d, ignore_errors=True)


def c02_alias_deep(r):
    import diskcache
    from standins import deep_key_equal
    d = tempfile.mkdtemp()
    try:
        c = diskcache.Cache(d, disk_pickle_protocol=r.get('protocol', 5))
        k1, k2 = lit(r['k1']), lit(r['k2'])
        _ = k1 in c, k2 in c
        c[k1] = 'one'
        c[k2] = 'two'
        shared = len(c) == 1
        exp = deep_key_equal(k1, k2)
        return {'reproduced': shared != exp, 'observed': 'one entry' if shared else 'two entries',
                'expected': 'one entry' if exp else 'two entries'}
    finally:
        shutil.rmtree(d, ignore_errors=True)


def c13_hash_equal(r):
    import diskcache
    d = tempfile.mkdtemp()
    try:
        disk = diskcache.Disk(d)
        k1, k2 = lit(r['k1']), lit(r['k2'])
        h1, h2 = disk.hash(k1), disk.hash(k2)
        eq = spec_key_equal(k1, k2)
        return {'reproduced': bool(eq and h1 != h2), 'observed': [h1, h2], 'expected': 'equal hashes' if eq else 'n/a'}
    finally:
        shutil.rmtree(d, ignore_errors=True)


def released_hash(key, protocol=5):
    import pickle, pickletools, struct, zlib
    mask = 0xFFFFFFFF
    if type(key) is bytes:
        return zlib.adler32(key) & mask
    if type(key) is str:
        return zlib.adler32(key.encode('utf-8')) & mask
    if type(key) is int and -2**63 <= key < 2**63:
        return key % mask
    if type(key) is float:
        return zlib.adler32(struct.pack('!d', key)) & mask
    return zlib.adler32(pickletools.optimize(pickle.dumps(key, protocol=protocol))) & mask


def c13_hash_pin(r):
    import diskcache
    d = tempfile.mkdtemp()
    try:
        disk = diskcache.Disk(d, pickle_protocol=5)
        k = lit(r['key'])
        got, exp = disk.hash(k), released_hash(k)
        return {'reproduced': got != exp, 'observed': got, 'expected': exp}
    finally:
        shutil.rmtree(d, ignore_errors=True)


NASTY_STR = ['\r', 'a\r\nb', '\x00', '\x85', '\u2028', '\udcc3\udca9', '\ud800', '\U0001f600', 'é']


def c01_roundtrip(r):
    import io
    import diskcache
    d = tempfile.mkdtemp()
    try:
        mfs = max(0, int(lit(r.get('min_file_size', '0'))))
        c = diskcache.Cache(d, disk=disk_class(r['disk']), disk_min_file_size=mfs,
                            disk_pickle_protocol=int(lit(r.get('protocol', '5'))))
        v = lit(r['value'])
        cands = [v]
        if isinstance(v, str):
            # the solver's string is arbitrary: also try boundary strings of the same length class
            for s in NASTY_STR:
                cands.append(s * max(1, (len(v) // max(len(s), 1)) + 1))
        for cand in cands:
            try:
                if r.get('stream'):
                    c.set('k', io.BytesIO(cand), read=True)
                else:
                    c.set('k', cand)
            except Exception as e:
                continue
            if r.get('read'):
                with c.get('k', read=True) as f:
                    back = f.read()
            else:
                back = c.get('k')
            if not same(back, cand):
                return {'reproduced': True, 'input': repr(cand)[:200], 'observed': repr(back)[:200]}
        return {'reproduced': False, 'observed': 'all candidates round-trip or are rejected'}
    finally:
        shutil.rmtree(d, ignore_errors=True)


def c16_collision(r):
    from diskcache.core import args_to_key
    k1 = args_to_key(('f',), (1, None, 'a'), {}, False, ())
    k2 = args_to_key(('f',), (1,), {'a': None}, False, ())
    return {'reproduced': k1 == k2, 'observed': [repr(k1), repr(k2)],
            'input': "f(1, None, 'a') vs f(1, a=None)"}


def c06_nested_abort(r):
    import diskcache
    d = tempfile.mkdtemp()
    try:
        c = diskcache.Cache(d)
        c['k'] = b'a' * 100000
        try:
            with c.transact():
                c['k'] = b'b' * 100000
                raise RuntimeError('abort')
        except RuntimeError:
            pass
        present = 'k' in c
        try:
            v = c['k']
            ok = v == b'a' * 100000
        except KeyError:
            ok = False
        return {'reproduced': present and not ok, 'observed': 'key present: %r, old value readable: %r' % (present, ok)}
    finally:
        shutil.rmtree(d, ignore_errors=True)


def c08_leak(r):
    import diskcache
    d = tempfile.mkdtemp()
    try:
        c = diskcache.Cache(d)
        try:
            c.set('k', '\ud800' * 40000)
        except Exception:
            pass
        w = [str(x.message) for x in c.check()]
        return {'reproduced': any('unknown file' in m for m in w), 'observed': w[:3]}
    finally:
        shutil.rmtree(d, ignore_errors=True)


def c18_fanout_size_limit(r):
    import pickle
    import diskcache
    d = tempfile.mkdtemp()
    try:
        f = diskcache.FanoutCache(d, shards=4, size_limit=4000)
        before = f._shards[0].size_limit
        f.close()
        g = diskcache.FanoutCache(d, shards=4)
        after = g._shards[0].size_limit
        return {'reproduced': before != after, 'observed': 'per-shard size_limit %r -> %r after reopen' % (before, after)}
    finally:
        shutil.rmtree(d, ignore_errors=True)


def c12_lookup_overlapping_replace(r):
    import diskcache
    d = tempfile.mkdtemp()
    try:
        idx = diskcache.Index(d)
        other = diskcache.Index(d)
        idx['k'] = b'a' * 100000
        disk = idx.cache.disk
        real_fetch = disk.fetch
        state = {'done': False}

        def fetch(mode, filename, value, read):
            if not state['done']:
                state['done'] = True
                other['k'] = b'b' * 100000      # the interfering committed operation of a second client
            return real_fetch(mode, filename, value, read)
        disk.fetch = fetch
        try:
            v = idx['k']
            return {'reproduced': False, 'observed': 'found %d bytes' % len(v)}
        except KeyError:
            return {'reproduced': True, 'observed': 'KeyError for a key that was present before, during and after the lookup'}
    finally:
        shutil.rmtree(d, ignore_errors=True)


def c10_prefix_alias(r):
    import diskcache
    d = tempfile.mkdtemp()
    try:
        c = diskcache.Cache(d)
        c.push('x', prefix='a-5')
        got = c.pull(prefix='a')
        return {'reproduced': got != (None, None), 'observed': repr(got), 'input': "push('x', prefix='a-5'); pull(prefix='a')"}
    finally:
        shutil.rmtree(d, ignore_errors=True)


def c02_jsondisk_queue_keys(r):
    import diskcache
    d = tempfile.mkdtemp()
    try:
        c = diskcache.Cache(d, disk=diskcache.JSONDisk)
        k = c.push('x')
        try:
            keys = list(c)
            return {'reproduced': keys != [k], 'observed': repr(keys)}
        except Exception as e:
            return {'reproduced': True, 'observed': 'iteration raises %r' % (e,)}
    finally:
        shutil.rmtree(d, ignore_errors=True)


def main():
    r = json.load(sys.stdin)
    try:
        out = globals()[r['func']](r)
    except Exception as e:
        import traceback
        out = {'reproduced': None, 'error': traceback.format_exc()[-600:]}
    print(json.dumps(out, default=repr))


if __name__ == '__main__':
    main()

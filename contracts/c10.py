"""C10 -- push / pull / peek form exactly-once FIFO queues per prefix.

Bodies executed from /repo on the symbolic table model: Cache.push, Cache.pull,
Cache.peek (with _transact, _row_insert, _cull inlined).

Queue view Q(prefix) = rows with raw = 1 whose key lies strictly between the
range bounds, ordered by key.
  C10.push.*   the new key is the neighbour of the extreme key of the range (or the middle
               start value on an empty range), lies beyond every key of the range on the pushed
               side (so it is the new back / front), stays inside the range (requires
               0 < n < 10**15 - 1: a bound on queue length, stated), is inserted with the value
               columns produced by Disk.store; every other row is unchanged or culled (C09).
  C10.pull.* / C10.peek.*   loop invariants over the retry loops: rows removed so far were expired
               in-range heads; on return the result is the in-range extreme (front / back) row that
               is not expired, pull deletes exactly it and returns its value, peek deletes nothing
               else; an empty range returns the default.
  C10.prefix.* (text keys) via the Lean-checked lemmas lex_cancel / digits_order / lex_range_prefix
               used as axioms over the uninterpreted TEXT order.
Concurrency (exactly-once delivery) rests on the atomic-section obligations (C05 view in traces.py)
and on "the value returned is the value of the row deleted in the same section".
"""
import z3

from pyvc.check import Result, discharge
from pyvc.engine import explore, Unsupported
from pyvc.loops import LoopSpec
from pyvc import sqlmodel as SM, lemmas
from pyvc.sqlmodel import DbVal
from pyvc.env import int_term, real_term
from contracts.cache_common import *   # noqa
from contracts import cache_common as cc
from contracts import c03

_I = z3.IntSort()
LO, HI, MID = 0, 999999999999999, 500000000000000
ALWAYS_STANDIN = True


def in_range_int(w, q):
    k = z3.Select(w['T.key'], q)
    return z3.And(z3.Select(w['T.live'], q), z3.Select(w['T.raw'], q), SM.sql_lt(DbVal.IntV(z3.IntVal(LO)), k),
                  SM.sql_lt(k, DbVal.IntV(z3.IntVal(HI))))


def knum(w, q):
    return SM.num_of(z3.Select(w['T.key'], q))


def run_push(side, policy='least-recently-stored'):
    ctx = cctx()

    def body(st):
        ctx.sql.busy = False
        ctx.sql.faults = False
        it = ctx.interp(st)
        cache = make_cache(ctx, st, policy=policy)
        st.assume(c03.files_agree(st.world))
        a = {'value': sym_value(st), 'prefix': None, 'side': side,
             'expire': Opt(st.fresh('expire_none', z3.BoolSort()), st.fresh_sv('expire', 'real')),
             'read': False, 'tag': cc.DbCell(st.fresh('tag', DbVal)), 'retry': st.fresh_sv('retry', 'bool')}
        st.ghost['args'] = a
        st.ghost['self'] = cache
        return it.call(ctx.func('diskcache.core.Cache.push'), [cache], dict(a))
    return explore(body, max_paths=3000)


def push_task(side):
    out = []
    paths = run_push(side)
    nret = 0
    for n, p in enumerate(paths):
        st = p.state
        base = 'C10.push[%s]#%d' % (side, n)
        fn = 'Cache.push'
        w0, w1 = c03.world0(st), st.world
        a = st.ghost['args']
        if p.kind == 'cut':
            continue
        if c03.timeout_path(p):
            continue
        ins = [e[1] for e in st.trace if e[0] == 'INSERT']
        if p.kind == 'raise':
            # with the queue bound respected, push has no failing outcome on a fault-free path:
            # in particular the UNIQUE index can never reject the neighbour key
            q = z3.Int('q_b')
            bound = z3.ForAll([q], z3.Implies(in_range_int(w0, q), z3.And(knum(w0, q) > LO + 1, knum(w0, q) < HI - 1,
                                                                      DbVal.is_IntV(z3.Select(w0['T.key'], q)))))
            out.append(discharge(base + '.no_failure[%s]' % p.value.cls, 'post', list(p.pc) + [bound], z3.BoolVal(False),
                                 function=fn, path=p.decisions))
            continue
        nret += 1
        if len(ins) != 1:
            out.append(Result(base + '.inserts_one_row', 'post', 'refuted', ms=0, backend='engine', function=fn,
                              path=p.decisions, detail='%d inserts' % len(ins)))
            continue
        r = ins[0]['rowid']
        newk = ins[0]['key']
        q = z3.Int('q_push')
        num = DbVal.iv(newk)
        # requires: the range holds queue items only (INTEGER keys; ordinary numeric keys inside the range
        # belong to the queue by design) and queue numbers stay away from its ends (bound on queue length)
        bound = z3.ForAll([q], z3.Implies(in_range_int(w0, q), z3.And(knum(w0, q) > LO + 1, knum(w0, q) < HI - 1,
                                                                  DbVal.is_IntV(z3.Select(w0['T.key'], q)))))
        pc = list(p.pc) + [bound]
        for e in st.trace:
            if e[0] == 'SELECT_FIRST':       # instance of the requires at the selected row (helps the solver)
                x0 = e[1]['rowid']
                pc.append(z3.Implies(in_range_int(w0, x0), z3.And(knum(w0, x0) > LO + 1, knum(w0, x0) < HI - 1,
                                                                  DbVal.is_IntV(z3.Select(w0['T.key'], x0)))))
        res_is_key = z3.And(DbVal.is_IntV(newk), real_term(p.value) == z3.ToReal(num), ins[0]['raw'])
        empty = z3.ForAll([q], z3.Not(in_range_int(w0, q)))
        if side == 'back':
            extreme = lambda x: z3.And(in_range_int(w0, x), z3.ForAll([q], z3.Implies(in_range_int(w0, q), knum(w0, q) <= knum(w0, x))))
            beyond = z3.ForAll([q], z3.Implies(in_range_int(w0, q), knum(w0, q) < z3.ToReal(num)))
            step = 1
        else:
            extreme = lambda x: z3.And(in_range_int(w0, x), z3.ForAll([q], z3.Implies(in_range_int(w0, q), knum(w0, q) >= knum(w0, x))))
            beyond = z3.ForAll([q], z3.Implies(in_range_int(w0, q), knum(w0, q) > z3.ToReal(num)))
            step = -1
        x = z3.Int('x_ext')
        neighbour = z3.Or(z3.And(empty, num == MID),
                          z3.Exists([x], z3.And(extreme(x), z3.ToReal(num) == knum(w0, x) + step)))
        parts = [('returns_new_key', res_is_key), ('key_is_neighbour', neighbour), ('new_key_is_new_end', beyond),
                 ('stays_in_range', z3.And(num > LO, num < HI))]
        # the entry and the frame: reuse the upsert obligation of the dictionary view
        t0 = c03.clock_readings(st)[0]
        isn, et = c03.expire_time_spec(a['expire'], t0)
        spec_cols = {'store_time': t0, 'expire_time': (isn, et), 'access_time': t0, 'access_count': z3.IntVal(0), 'tag': a['tag'].t}
        pages = c03.removed_sets(st)
        R_ = lambda y: z3.Or(*[z3.Select(pg['member'], y) for pg in pages]) if pages else z3.BoolVal(False)
        entry = z3.Or(R_(r), z3.And(z3.Select(w1['T.live'], r), c03.row_is(w1, r, spec_cols), z3.Select(w1['T.key'], r) == newk,
                                    z3.Select(w1['T.raw'], r), cc.row_value(w1, r) == to_pyobj(a['value'])))
        parts.append(('entry', entry))
        parts.append(('position', z3.ForAll([q], z3.Implies(z3.Select(w0['T.live'], q), q < r))))
        for c in SM.COLS:
            parts.append(('frame.' + c, z3.ForAll([q], z3.Implies(q != r, z3.Select(w1['T.' + c], q) == z3.Select(w0['T.' + c], q)))))
        parts.append(('frame.live', z3.ForAll([q], z3.Implies(q != r, z3.Select(w1['T.live'], q) == z3.And(z3.Select(w0['T.live'], q), z3.Not(R_(q)))))))
        for nm, part in SM.invariant(w1, named=True, focus=[(newk, ins[0]['raw'])], pre=st.ghost.get('inv_arrays')):
            parts.append(('inv.' + nm, part))
        for nm, g in parts:
            out.append(discharge('%s.%s' % (base, nm), 'refine', pc, g, function=fn, path=p.decisions))
    if nret == 0:
        out.append(Result('C10.push[%s]' % side, 'vacuity', 'error', detail='no returning path'))
    return out


# ------------------------------------------------------------------ pull / peek
def install_pull_loops(ctx, method, side):
    """Invariant of both retry loops of pull / peek (prefix None)."""
    def inv(it, fr, _):
        st = it.st
        w, w0 = st.world, c03.world0(st)
        q, q2 = z3.Ints('q_pl q_pl2')
        parts = [SM.invariant(w)]
        for c in SM.COLS:
            parts.append(w['T.' + c] == w0['T.' + c])
            if SM.COLS[c][1]:
                parts.append(w['T.' + c + '?'] == w0['T.' + c + '?'])
        parts.append(z3.ForAll([q], z3.Implies(z3.Select(w['T.live'], q), z3.Select(w0['T.live'], q))))
        # rows removed so far: in range, and before (front) / after (back) every row still in range
        removed = lambda x: z3.And(z3.Select(w0['T.live'], x), z3.Not(z3.Select(w['T.live'], x)))
        parts.append(z3.ForAll([q], z3.Implies(removed(q), in_range_int(w0, q))))
        if side == 'front':
            parts.append(z3.ForAll([q, q2], z3.Implies(z3.And(removed(q), in_range_int(w, q2)), knum(w0, q) <= knum(w0, q2))))
        else:
            parts.append(z3.ForAll([q, q2], z3.Implies(z3.And(removed(q), in_range_int(w, q2)), knum(w0, q) >= knum(w0, q2))))
        # and each of them had an expiry time (only expired heads are dropped)
        parts.append(z3.ForAll([q], z3.Implies(removed(q), z3.Not(z3.Select(w0['T.expire_time?'], q)))))
        parts.append(z3.And(w['S.hits'] == w0['S.hits'], w['S.misses'] == w0['S.misses']))
        parts.append(z3.BoolVal(not st.world.get('txn.active')))
        # rows and files agree, no two rows share a value file (so removing the file of a removed row
        # never takes the file of a row that stays)
        parts.append(c03.files_agree(w))
        parts.append(files_unique(w))
        return z3.And(*parts)

    def on_havoc(it, fr):
        it.st.ghost['inv_arrays'] = None
    qn = 'diskcache.core.Cache.' + method
    keys = ['T.live', 'T.idx', 'T.card', 'S.count', 'S.size', 'F.exists']
    shapes = {'rowid': lambda st: None, 'key': lambda st: None, 'db_expire': lambda st: None, 'db_tag': lambda st: None,
              'mode': lambda st: None, 'name': lambda st: None, 'db_value': lambda st: None, 'rows': lambda st: None,
              'value': lambda st: None}
    ctx.loop_invariants[(qn, 0)] = LoopSpec('C10.%s.outer' % method, inv, havoc_world=keys, on_havoc=on_havoc, shapes=shapes)
    ctx.loop_invariants[(qn, 1)] = LoopSpec('C10.%s.inner' % method, inv, havoc_world=keys, on_havoc=on_havoc, shapes=shapes)


def files_unique(w):
    a, b = z3.Ints('r_fu1 r_fu2')
    has = lambda x: z3.And(z3.Select(w['T.live'], x), z3.Not(z3.Select(w['T.filename?'], x)))
    return z3.ForAll([a, b], z3.Implies(z3.And(has(a), has(b), a != b),
                                        z3.Select(w['T.filename'], a) != z3.Select(w['T.filename'], b)))


def run_pull(method, side):
    ctx = cctx()
    install_pull_loops(ctx, method, side)

    def body(st):
        ctx.sql.busy = False
        ctx.sql.faults = False
        it = ctx.interp(st)
        cache = make_cache(ctx, st, policy='none')
        st.assume(c03.files_agree(st.world))
        st.assume(files_unique(st.world))
        a = {'prefix': None, 'default': Opaque('other', st.fresh('default', OTHER)), 'side': side,
             'expire_time': False, 'tag': False, 'retry': st.fresh_sv('retry', 'bool')}
        st.ghost['args'] = a
        st.ghost['self'] = cache
        return it.call(ctx.func('diskcache.core.Cache.' + method), [cache], dict(a))
    return explore(body, max_paths=3000)


def pull_task(method, side):
    out = []
    paths = run_pull(method, side)
    nret = 0
    for n, p in enumerate(paths):
        st = p.state
        base = 'C10.%s[%s]#%d' % (method, side, n)
        fn = 'Cache.' + method
        for o in st.obligations:
            out.append(discharge('%s/%s' % (base, o.name), o.kind, o.pc, o.goal, function=fn, path=p.decisions))
        if p.kind == 'cut' or c03.timeout_path(p):
            continue
        w, w0 = st.world, c03.world0(st)
        a = st.ghost['args']
        if p.kind != 'return':
            out.append(Result(base + '.no_exception', 'post', 'refuted', ms=0, backend='engine', function=fn,
                              path=p.decisions, detail='raises %r' % (p.value,)))
            continue
        nret += 1
        q = z3.Int('q_res')
        if p.value is a['default']:
            # empty: no in-range row remains; nothing but expired heads was removed (invariant)
            goal = z3.ForAll([q], z3.Not(in_range_int(w, q)))
            out.append(discharge(base + '.default_only_when_empty', 'refine', p.pc, goal, function=fn, path=p.decisions))
            continue
        if not (isinstance(p.value, tuple) and len(p.value) == 2):
            out.append(Result(base + '.result_shape', 'post', 'refuted', ms=0, backend='engine', function=fn,
                              path=p.decisions, detail='returns %r' % (p.value,)))
            continue
        key, value = p.value
        sel = [e[1] for e in st.trace if e[0] == 'SELECT_FIRST']
        if not sel:
            out.append(Result(base + '.selects_head', 'post', 'refuted', ms=0, backend='engine', function=fn, path=p.decisions,
                              detail='no ordered LIMIT 1 selection on this path'))
            continue
        r = sel[-1]['rowid']
        ts = c03.clock_readings(st)
        tnow = ts[-1] if ts else None
        parts = []
        # the row handed out is the extreme in-range row of the table just before, and it is not expired
        if method == 'pull':
            w_before = {k: v for k, v in w.items()}
            dels = [e[1] for e in st.trace if e[0] == 'DELETE']
            parts.append(('deletes_exactly_the_head', z3.BoolVal(len(dels) == 1) if not dels else
                          z3.And(z3.BoolVal(len(dels) == 1), dels[-1]['rowid'] == r, z3.Not(z3.Select(w['T.live'], r)))))
        else:
            parts.append(('deletes_nothing_more', z3.Select(w['T.live'], r)))
        if side == 'front':
            ext = z3.ForAll([q], z3.Implies(z3.And(in_range_int(w, q), q != r), knum(w0, r) <= knum(w0, q)))
        else:
            ext = z3.ForAll([q], z3.Implies(z3.And(in_range_int(w, q), q != r), knum(w0, r) >= knum(w0, q)))
        parts.append(('is_the_head', z3.And(in_range_int(w0, r), ext)))
        if tnow is not None:
            parts.append(('head_not_expired', z3.Or(z3.Select(w0['T.expire_time?'], r), z3.Select(w0['T.expire_time'], r) > tnow)))
        parts.append(('returns_its_key_and_value', z3.And(cc.DbCell.__instancecheck__(type(key)) if False else z3.BoolVal(isinstance(key, cc.DbCell)),
                                                         (key.t == z3.Select(w0['T.key'], r)) if isinstance(key, cc.DbCell) else z3.BoolVal(False),
                                                         to_pyobj(value) == cc.row_value(w0, r))))
        for nm, part in SM.invariant(w, named=True):
            parts.append(('inv.' + nm, part))
        for nm, g in parts:
            out.append(discharge('%s.%s' % (base, nm), 'refine', p.pc, g, function=fn, path=p.decisions))
    if nret == 0:
        out.append(Result('C10.%s[%s]' % (method, side), 'vacuity', 'error', detail='no returning path'))
    return out


# ------------------------------------------------------------------ prefix isolation (text keys)
def prefix_isolation():
    """Keys of queue q fall into the range of queue p only if q = p -- fails (recorded finding);
    residual from the Lean lemma lex_range_prefix: aliasing needs q (or an ordinary text key) to start
    with p + '-'."""
    out = []
    # full statement, decided on a concrete witness evaluated with the code-point order
    p_, q_ = 'a', 'a-5'
    k = '%s-%015d' % (q_, MID)
    lo, hi = p_ + '-000000000000000', p_ + '-999999999999999'
    aliased = lo < k < hi
    out.append(Result('C10.prefix.isolation', 'post', 'refuted' if aliased else 'proved', ms=0, backend='engine',
                      function='Cache.push/pull', detail='key %r of queue %r lies in the range (%r, %r) of queue %r' % (k, q_, lo, hi, p_),
                      replay={'recipe': {'func': 'c10_prefix_alias'}}))
    # residual: P ++ a < k < P ++ b  =>  P is a prefix of k      (Lean: lex_range_prefix)
    P, A, B, K = z3.Strings('P A B K')
    ax = z3.Implies(z3.And(SM.text_lt(z3.Concat(P, A), K), SM.text_lt(K, z3.Concat(P, B))), z3.PrefixOf(P, K))
    r = discharge('C10.prefix.isolation.residual', 'lemma', [ax, SM.text_lt(z3.Concat(P, A), K), SM.text_lt(K, z3.Concat(P, B))],
                  z3.PrefixOf(P, K), function='Cache.push/pull')
    r['backend'] = 'z3 + Lean lemma lex_range_prefix'
    if not lemmas.checked('lex_range_prefix') and r['verdict'] == 'proved':
        r['verdict'] = 'unknown'
        r['detail'] = 'lemma lex_range_prefix not checked by lean in this checkout (run setup_cmd)'
    out.append(r)
    # cross-type: integer queue keys never fall in a text range and vice versa (SQLite class order)
    i = z3.Int('i')
    s1, s2 = z3.Strings('s1 s2')
    out.append(discharge('C10.range.cross_type[int in text range]', 'post', [],
                         z3.Not(z3.And(SM.sql_lt(DbVal.TextV(s1), DbVal.IntV(i)), SM.sql_lt(DbVal.IntV(i), DbVal.TextV(s2)))),
                         function='Cache.push/pull'))
    out.append(discharge('C10.range.cross_type[text in int range]', 'post', [],
                         z3.Not(z3.And(SM.sql_lt(DbVal.IntV(z3.IntVal(LO)), DbVal.TextV(s1)), SM.sql_lt(DbVal.TextV(s1), DbVal.IntV(z3.IntVal(HI))))),
                         function='Cache.push/pull'))
    b = z3.Const('b', BYTES)
    out.append(discharge('C10.range.cross_type[blob in int range]', 'post', [],
                         z3.Not(z3.And(SM.sql_lt(DbVal.IntV(z3.IntVal(LO)), DbVal.BlobV(b)), SM.sql_lt(DbVal.BlobV(b), DbVal.IntV(z3.IntVal(HI))))),
                         function='Cache.push/pull'))
    return out


def tasks(tier):
    ts = [('contracts.c10', 'push_task', (s,)) for s in ('back', 'front')]
    ts += [('contracts.c10', 'pull_task', (m, s)) for m in ('pull', 'peek') for s in ('front', 'back')]
    ts += [('contracts.c10', 'prefix_isolation', ())]
    from contracts import traces
    for m in ('push', 'pull', 'peek'):
        ts.append(('contracts.c10', 'queue_traces', (m,)))
    return ts


def queue_traces(method):
    """Atomic-section obligations (C05 view) for the queue operations: select and insert / delete in
    one write transaction per attempt."""
    from contracts import traces
    out = []
    ctx = cctx()
    if method in ('pull', 'peek'):
        install_pull_loops(ctx, method, 'front')

    def body(st):
        ctx.sql.busy = True
        ctx.sql.faults = False
        it = ctx.interp(st)
        cache = make_cache(ctx, st, policy='none')
        st.assume(c03.files_agree(st.world))
        if method == 'push':
            a = {'value': sym_value(st), 'prefix': None, 'side': 'back', 'expire': None, 'read': False, 'tag': None,
                 'retry': st.fresh_sv('retry', 'bool')}
        else:
            a = {'prefix': None, 'default': Opaque('other', st.fresh('default', OTHER)), 'side': 'front',
                 'expire_time': False, 'tag': False, 'retry': st.fresh_sv('retry', 'bool')}
        st.ghost['args'] = a
        return it.call(ctx.func('diskcache.core.Cache.' + method), [cache], dict(a))
    for n, p in enumerate(explore(body, max_paths=3000)):
        tr = p.state.trace
        sq = traces.sql_effects(tr)
        writes = [(i, e) for i, e in sq if traces.is_write(e)]
        name = 'C10.%s#%d.atomic_section' % (method, n)
        if writes or p.kind == 'return':
            outside = [e['stmt']['text'][:50] for i, e in sq if traces.table_stmt(e) and not e['in_txn']]
            ok = not outside
            out.append(Result(name, 'trace', 'proved' if ok else 'refuted', ms=0, backend='engine', function='Cache.' + method,
                              path=p.decisions, detail=None if ok else 'statement(s) outside the write transaction: %r' % outside))
        for i, e in traces.removed_terms(tr):
            ok = not e['in_txn']
            out.append(Result('C10.%s#%d.remove_after_commit@%d' % (method, n, i), 'trace', 'proved' if ok else 'refuted', ms=0,
                              backend='engine', function='Cache.' + method, path=p.decisions,
                              detail=None if ok else 'value file removed inside the open transaction'))
    return out


def meta(results, tier):
    return {'functions': {'verified_bodies': ['diskcache.core.Cache.push', 'diskcache.core.Cache.pull', 'diskcache.core.Cache.peek'],
                          'assumed_contracts': ['Disk.store/fetch/remove (C01)', 'Cache.reset'],
                          'inlined': ['_transact', '_row_insert', '_cull']},
            'assumptions': ['integer queues (prefix None) are proved; prefixed queues are covered by the bounded stand-in and by the '
                            'prefix/range lemmas only', 'queue numbers stay within (1, 10**15 - 2): a bound on queue length (requires)',
                            'clock readings non-decreasing; floats as reals', 'A-SQL-iso for exactly-once delivery under concurrency',
                            'Lean lemma lex_range_prefix checked in setup_cmd'],
            'explanation': 'push/pull/peek executed on the symbolic table model with loop invariants for the retry loops'}


# ------------------------------------------------------------------ peekitem (C03 / C04 / C12): same retry-loop shape over rowid order
def install_peekitem_loops(ctx, last):
    def inv(it, fr, _):
        st = it.st
        w, w0 = st.world, c03.world0(st)
        q, q2 = z3.Ints('q_pi q_pi2')
        parts = [SM.invariant(w)]
        for c in SM.COLS:
            parts.append(w['T.' + c] == w0['T.' + c])
            if SM.COLS[c][1]:
                parts.append(w['T.' + c + '?'] == w0['T.' + c + '?'])
        parts.append(z3.ForAll([q], z3.Implies(z3.Select(w['T.live'], q), z3.Select(w0['T.live'], q))))
        removed = lambda x: z3.And(z3.Select(w0['T.live'], x), z3.Not(z3.Select(w['T.live'], x)))
        # removed rows were at the requested end of the insertion order and had an expiry
        if last:
            parts.append(z3.ForAll([q, q2], z3.Implies(z3.And(removed(q), z3.Select(w['T.live'], q2)), q > q2)))
        else:
            parts.append(z3.ForAll([q, q2], z3.Implies(z3.And(removed(q), z3.Select(w['T.live'], q2)), q < q2)))
        parts.append(z3.ForAll([q], z3.Implies(removed(q), z3.Not(z3.Select(w0['T.expire_time?'], q)))))
        parts.append(z3.And(w['S.hits'] == w0['S.hits'], w['S.misses'] == w0['S.misses']))
        parts.append(z3.BoolVal(not st.world.get('txn.active')))
        parts.append(c03.files_agree(w))
        parts.append(files_unique(w))
        return z3.And(*parts)

    def on_havoc(it, fr):
        it.st.ghost['inv_arrays'] = None
    keys = ['T.live', 'T.idx', 'T.card', 'S.count', 'S.size', 'F.exists']
    names = ('rowid', 'db_key', 'raw', 'db_expire', 'db_tag', 'mode', 'name', 'db_value', 'rows', 'value', 'key')
    shapes = {n: (lambda st: None) for n in names}
    ctx.loop_invariants[('diskcache.core.Cache.peekitem', 0)] = LoopSpec('C03.peekitem.outer', inv, havoc_world=keys, on_havoc=on_havoc, shapes=shapes)
    ctx.loop_invariants[('diskcache.core.Cache.peekitem', 1)] = LoopSpec('C03.peekitem.inner', inv, havoc_world=keys, on_havoc=on_havoc, shapes=shapes)


def peekitem_task(pid, last):
    ctx = cctx()
    install_peekitem_loops(ctx, last)

    def body(st):
        ctx.sql.busy = False
        ctx.sql.faults = False
        it = ctx.interp(st)
        cache = make_cache(ctx, st, policy='none')
        st.assume(c03.files_agree(st.world))
        st.assume(files_unique(st.world))
        a = {'last': last, 'expire_time': False, 'tag': False, 'retry': st.fresh_sv('retry', 'bool')}
        st.ghost['args'] = a
        st.ghost['self'] = cache
        return it.call(ctx.func('diskcache.core.Cache.peekitem'), [cache], dict(a))
    out = []
    nret = 0
    for n, p in enumerate(explore(body, max_paths=3000)):
        st = p.state
        base = '%s.peekitem[last=%s]#%d' % (pid, last, n)
        fn = 'Cache.peekitem'
        for o in st.obligations:
            out.append(discharge('%s/%s' % (base, o.name), o.kind, o.pc, o.goal, function=fn, path=p.decisions))
        if p.kind == 'cut' or c03.timeout_path(p):
            continue
        w, w0 = st.world, c03.world0(st)
        q = z3.Int('q_pk')
        if p.kind == 'raise':
            if p.value.cls == 'KeyError':
                out.append(discharge(base + '.keyerror_only_when_empty', 'refine', p.pc,
                                     z3.ForAll([q], z3.Not(z3.Select(w['T.live'], q))), function=fn, path=p.decisions))
            else:
                r = discharge(base + '.no_other_exception', 'post', p.pc, z3.BoolVal(False), function=fn, path=p.decisions)
                r['detail'] = 'raises %r' % (p.value,) if r['verdict'] != 'proved' else None
                out.append(r)
            continue
        nret += 1
        sel = [e[1] for e in st.trace if e[0] == 'SELECT_FIRST']
        if not sel or not (isinstance(p.value, tuple) and len(p.value) == 2):
            out.append(Result(base + '.result_shape', 'post', 'refuted', ms=0, backend='engine', function=fn, path=p.decisions,
                              detail='returns %r' % (p.value,)))
            continue
        r = sel[-1]['rowid']
        key, value = p.value
        ts = c03.clock_readings(st)
        ext = z3.ForAll([q], z3.Implies(z3.Select(w['T.live'], q), (q <= r) if last else (q >= r)))
        parts = [('is_the_end_of_insertion_order', z3.And(z3.Select(w['T.live'], r), z3.Select(w0['T.live'], r), ext)),
                 ('returns_its_key_and_value', z3.And(to_pyobj(key) == cc.KGET(z3.Select(w0['T.key'], r), z3.Select(w0['T.raw'], r)),
                                                      to_pyobj(value) == cc.row_value(w0, r)))]
        if ts:
            parts.append(('not_expired', z3.Or(z3.Select(w0['T.expire_time?'], r), z3.Select(w0['T.expire_time'], r) > ts[-1])))
        for nm, part in SM.invariant(w, named=True):
            parts.append(('inv.' + nm, part))
        for nm, g in parts:
            out.append(discharge('%s.%s' % (base, nm), 'refine', p.pc, g, function=fn, path=p.decisions))
    if nret == 0:
        out.append(Result('%s.peekitem[last=%s]' % (pid, last), 'vacuity', 'error', detail='no returning path'))
    return out


def accessors_task(pid):
    """len() and stats(): counters reported as stored (and equal to the number of rows by the invariant)."""
    ctx = cctx()
    out = []
    for meth in ('__len__', 'stats'):
        def body(st, meth=meth):
            it = ctx.interp(st)
            cache = make_cache(ctx, st, policy='none')
            if meth == 'stats':
                en = st.fresh_sv('enable', 'bool')
                rs = st.fresh_sv('reset', 'bool')
                st.ghost['args'] = {'enable': en, 'reset': rs}
                return it.call(ctx.func('diskcache.core.Cache.stats'), [cache, en, rs], {})
            return it.call(ctx.func('diskcache.core.Cache.__len__'), [cache], {})
        for n, p in enumerate(explore(body)):
            st = p.state
            w, w0 = st.world, c03.world0(st)
            base = '%s.%s#%d' % (pid, meth, n)
            if p.kind != 'return':
                out.append(Result(base, 'post', 'refuted', ms=0, backend='engine', function='Cache.' + meth, path=p.decisions,
                                  detail='raises %r' % (p.value,)))
                continue
            if meth == '__len__':
                goal = z3.And(int_term(p.value) == w0['T.card'], c03.eq_world(w0, w))
            else:
                a = st.ghost['args']
                goal = z3.And(int_term(p.value[0]) == w0['S.hits'], int_term(p.value[1]) == w0['S.misses'],
                              w['S.hits'] == z3.If(a['reset'].t, 0, w0['S.hits']), w['S.misses'] == z3.If(a['reset'].t, 0, w0['S.misses']),
                              *[w[k] == w0[k] for k in w0 if k.startswith('T.')])
            out.append(discharge(base + '.reports_counters', 'refine', p.pc, goal, function='Cache.' + meth, path=p.decisions))
    return out

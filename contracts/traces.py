"""Effect-trace obligations (DESIGN 2.8, kind 6) for C05, C06, C07, C08, C14.

Every public mutating Cache method is executed from /repo with faults enabled:
  * every SQL statement may raise sqlite3.OperationalError, or surface a
    KeyboardInterrupt (a BaseException that is not an Exception);
  * BEGIN IMMEDIATE may find the lock taken;
  * Disk.store may return an inline or a file-backed representation, raise, or
    raise after having created the file;
  * entered either outermost or nested inside a transaction of the same thread.
The obligations are evaluated on the ordered effect trace of every path
(crash points = positions between two effects; fault sequences = the raising
outcomes; schedules only through the rely condition A-SQL-iso).
"""
import z3

from pyvc.check import Result, discharge
from pyvc.engine import explore, Unsupported
from pyvc import sqlmodel as SM
from contracts.cache_common import *   # noqa
from contracts import cache_common as cc
from contracts import c03

WRITES = ('insert', 'update', 'delete', 'delete_in_select', 'delete_in_list')
MUTATORS = ['set', 'add', 'touch', 'incr', 'pop', '__delitem__', 'delete', 'get', '__contains__', 'push']


def run(method, policy, nested, faults='base', store_outcomes=('inline', 'file', 'raise', 'raise_after_create'),
        assume_files=True):
    ctx = cctx()

    def body(st):
        ctx.sql.busy = True
        ctx.sql.faults = faults
        it = ctx.interp(st)
        cache = make_cache(ctx, st, policy=policy, nested=nested, store_outcomes=store_outcomes)
        if assume_files:
            st.assume(c03.files_agree(st.world))
        a = c03.build_args(st, method)
        st.ghost['args'] = a
        st.ghost['self'] = cache
        fv = ctx.func('diskcache.core.Cache.' + method)
        return it.call(fv, [cache], dict(a))
    try:
        return explore(body, max_paths=20000)
    finally:
        ctx.sql.faults = False


def sql_effects(tr):
    return [(i, e[1]) for i, e in enumerate(tr) if e[0] == 'SQL']


def table_stmt(e):
    st = e['stmt']
    return st['kind'] in ('select',) + WRITES and st.get('table', 'Cache') in ('Cache', 'Settings') \
        or st['kind'] in WRITES


def is_write(e):
    return e['stmt']['kind'] in WRITES or (e['stmt']['kind'] == 'update' and e['stmt'].get('table') == 'Settings')


def R(name, ok, method, p, detail=None, kind='trace'):
    return Result(name, kind, 'proved' if ok else 'refuted', ms=0, backend='engine', function='Cache.' + method,
                  path=p.decisions, detail=None if ok else detail)


def created_files(tr):
    return [e[1]['filename'] for e in tr if e[0] == 'FILE_CREATE']


def removed_terms(tr):
    return [(i, e[1]) for i, e in enumerate(tr) if e[0] in ('FILE_REMOVE', 'FILE_REMOVE_BATCH')]


def term_in(t, ts):
    return any(t.eq(x) for x in ts)


def path_tag(policy, nested, n):
    return '[%s,%s]#%d' % (policy, 'nested' if nested else 'outermost', n)


def trace_obligations(pid, method, policy, nested):
    """Obligations of property `pid` on every path of Cache.<method>."""
    paths = run(method, policy, nested)
    out = []
    seen = 0
    for n, p in enumerate(paths):
        st = p.state
        tr = st.trace
        tag = path_tag(policy, nested, n)
        if pid in ('C14', 'C06', 'C08', 'C05', 'C07'):
            # loop contracts met on the path (BEGIN retry loop: nothing changes while waiting for the lock)
            for o in st.obligations:
                out.append(discharge('%s.%s%s/%s' % (pid, method, tag, o.name), o.kind, o.pc, o.goal,
                                     function='Cache._transact', path=p.decisions))
        if p.kind == 'cut':
            continue
        seen += 1
        sq = sql_effects(tr)
        writes = [(i, e) for i, e in sq if is_write(e)]
        begins = [i for i, e in enumerate(tr) if e[0] == 'BEGIN']
        commits = [i for i, e in enumerate(tr) if e[0] == 'COMMIT']
        rollbacks = [i for i, e in enumerate(tr) if e[0] == 'ROLLBACK']
        created = created_files(tr)
        if pid == 'C05':
            # atomic section: once an operation writes, every table statement of it runs inside the
            # (one) write transaction; the lock is taken with BEGIN IMMEDIATE
            if writes:
                outside = [e['stmt']['text'][:60] for i, e in sq if table_stmt(e) and not e['in_txn']]
                out.append(R('C05.%s%s.atomic_section' % (method, tag), not outside, method, p,
                             'statement(s) outside the write transaction: %r' % outside))
                if not nested:
                    out.append(R('C05.%s%s.one_section' % (method, tag), len(begins) == 1, method, p,
                                 '%d transactions for one operation' % len(begins)))
            imm = all(tr[i][1]['immediate'] for i in begins)
            out.append(R('C05.%s%s.begin_immediate' % (method, tag), imm, method, p, 'deferred BEGIN'))
        if pid in ('C05', 'C06', 'C07', 'C08'):
            # a value file that existed before this operation is removed only outside any open transaction
            # (i.e. after the commit that dropped the reference); new files of this operation may go earlier
            for i, e in removed_terms(tr):
                if tr[i][0] == 'FILE_REMOVE':
                    own = term_in(e['filename'], created)
                    ok = own or not e['in_txn']
                    why = 'nested' if nested else 'outermost'
                    out.append(R('%s.%s%s.remove_after_commit@%d' % (pid, method, tag, i), ok, method, p,
                                 'value file of an existing row removed while the transaction is still open '
                                 '(%s entry): an abort or a kill now leaves a row without its file' % why))
                else:
                    ok = not e['in_txn']
                    out.append(R('%s.%s%s.remove_after_commit@%d' % (pid, method, tag, i), ok, method, p,
                                 'batch of value files removed while the transaction is still open'))
        if pid == 'C06':
            if nested:
                ok = not begins and not commits and not rollbacks
                out.append(R('C06.%s%s.nested_is_noop' % (method, tag), ok, method, p,
                             'inner block executed BEGIN/COMMIT/ROLLBACK'))
                tid = st.ghost['self'].fields['_txn_id']
                ok = isinstance(tid, SV) and tid.t.eq(st.world['tid'])
                out.append(R('C06.%s%s.owner_kept' % (method, tag), ok, method, p, 'owner changed by an inner block'))
            elif begins:
                ok = len(commits) + len(rollbacks) == len(begins) and not st.world.get('txn.active')
                out.append(R('C06.%s%s.commit_xor_rollback' % (method, tag), ok, method, p,
                             'transaction left open: %d BEGIN, %d COMMIT, %d ROLLBACK' % (len(begins), len(commits), len(rollbacks))))
                ok = st.ghost['self'].fields['_txn_id'] is None
                out.append(R('C06.%s%s.owner_reset' % (method, tag), ok, method, p, 'owner not cleared at the end of the outermost block'))
                ok = all(tr[i][1].get('owner', 'ABSENT') is None for i in commits + rollbacks)
                out.append(R('C06.%s%s.owner_cleared_before_release' % (method, tag), ok, method, p,
                             'write lock released while this thread is still marked as owner'))
                if p.kind == 'raise' and p.value.cls != 'Timeout':
                    raised_in_block = any(e[0] == 'FAULT' and begins and i > begins[0] for i, e in enumerate(tr))
                    if raised_in_block:
                        out.append(R('C06.%s%s.exception_rolls_back' % (method, tag),
                                     len(rollbacks) == 1 and not commits, method, p,
                                     'block raised %s but was not rolled back' % p.value.cls))
                        out.append(discharge('C06.%s%s.rollback_restores_view' % (method, tag), 'trace', p.pc,
                                             c03.eq_world(c03.world0(st), st.world), function='Cache.' + method,
                                             path=p.decisions))
        if pid in ('C07', 'C05'):
            # crash invariant at the commit points: every committed file-backed row has a complete file
            for i in commits:
                w = tr[i][1]['world']
                nm = 'crash_invariant' if pid == 'C07' else 'committed_values_readable'
                out.append(discharge('%s.%s%s.%s@commit%d' % (pid, method, tag, nm, i), 'trace', p.pc,
                                     c03.files_agree(w), function='Cache.' + method, path=p.decisions))
            if p.kind == 'return' and not nested:
                out.append(R('%s.%s%s.completed_is_committed' % (pid, method, tag), not st.world.get('txn.active'), method, p,
                             'returned with an open transaction'))
        if pid == 'C08':
            out += c08_path(method, tag, p, nested)
        if pid == 'C14':
            out += c14_path(method, tag, p, nested)
    if seen == 0:
        out.append(Result('%s.%s[%s]' % (pid, method, policy), 'vacuity', 'error', detail='no paths'))
    return out


# ------------------------------------------------------------------ the transaction block itself
def transact_block(pid):
    """Contract of Cache.transact / Cache._transact as a context manager, for every entry state and
    every way the body can end.  Every property that argues with 'one transaction block is atomic'
    (C05, C06, C07, C11, C12, C20) relies on it:
      outermost: BEGIN IMMEDIATE, owner = this thread while the body runs; the body returning commits,
                 the body raising rolls back and the exception propagates; either way the owner mark is
                 cleared, so the NEXT operation of this thread takes the write lock again;
      nested:    no BEGIN / COMMIT / ROLLBACK, owner kept."""
    from pyvc.engine import raise_py
    ctx = cctx()
    fv = ctx.func('diskcache.core.Cache.transact')
    out = []
    # entry state 'foreign': ANOTHER thread of the same Cache object is inside its block (it holds the write
    # lock through its own connection and the owner mark names it); this thread, entering without retry,
    # times out -- and must leave the other thread's mark alone
    def foreign(st):
        ctx.sql.busy = True
        ctx.sql.faults = False
        it = ctx.interp(st)
        cache = make_cache(ctx, st, policy='none', nested=False)
        other = st.fresh('other_tid', z3.IntSort())
        st.assume(other != st.world['tid'])
        mark = SV('int', other)
        cache.fields['_txn_id'] = mark
        st.ghost.update(self=cache, mark=mark)
        return it.call_function(fv, [cache, False], {}, cm_body=lambda y: st.effect('BODY'))
    # frame of the owner mark: nothing but _transact (and the initialisation in __init__) ever writes it --
    # the mark belongs to the thread inside a block, whatever other threads do with the same object
    import ast as _ast
    writers = []
    for mname, mod in ctx.program.modules.items():
        for node in _ast.walk(mod.tree):
            if isinstance(node, (_ast.FunctionDef, _ast.AsyncFunctionDef)):
                for sub in _ast.walk(node):
                    tg = []
                    if isinstance(sub, _ast.Assign):
                        tg = sub.targets
                    elif isinstance(sub, (_ast.AugAssign, _ast.AnnAssign)):
                        tg = [sub.target]
                    elif isinstance(sub, _ast.Delete):
                        tg = sub.targets
                    elif isinstance(sub, _ast.Call) and isinstance(sub.func, _ast.Name) and sub.func.id in ('setattr', 'delattr') \
                            and len(sub.args) >= 2 and isinstance(sub.args[1], _ast.Constant) and sub.args[1].value == '_txn_id':
                        writers.append('%s.%s (line %d)' % (mname, node.name, sub.lineno))
                    for t in tg:
                        for x in _ast.walk(t):
                            if isinstance(x, _ast.Attribute) and x.attr == '_txn_id':
                                writers.append('%s.%s (line %d)' % (mname, node.name, sub.lineno))
    # a helper that is only ever called from the block code itself (e.g. an extracted "end of block" method)
    # counts as part of it
    def enclosing_calls(fname):
        sites = []
        for mname, mod in ctx.program.modules.items():
            for node in _ast.walk(mod.tree):
                if isinstance(node, (_ast.FunctionDef, _ast.AsyncFunctionDef)):
                    for sub in _ast.walk(node):
                        if isinstance(sub, _ast.Call):
                            f = sub.func
                            nm = f.attr if isinstance(f, _ast.Attribute) else (f.id if isinstance(f, _ast.Name) else None)
                            if nm == fname and node.name != fname:
                                sites.append(node.name)
        return sites
    allowed = {'__init__', '_transact'}
    changed = True
    names = set(w.split(' ')[0].rsplit('.', 1)[-1] for w in writers)
    while changed:
        changed = False
        for nm in sorted(names - allowed):
            sites = enclosing_calls(nm)
            if sites and all(x in allowed for x in sites):
                allowed.add(nm)
                changed = True
    foreign_writers = sorted(set(w for w in writers if w.split(' ')[0].rsplit('.', 1)[-1] not in allowed))
    out.append(Result('%s.transact.owner_mark_written_only_by_the_block' % pid, 'frame', 'proved' if not foreign_writers else 'refuted', ms=0,
                      backend='engine', function='Cache (all methods)',
                      detail=None if not foreign_writers else 'the owner mark _txn_id is also written by %s: a thread that is not inside the '
                      'block can wipe the mark of the thread that is' % ', '.join(foreign_writers)))
    nf = 0
    for n, p in enumerate(explore(foreign, max_paths=200)):
        kinds = [e[0] for e in p.state.trace if e[0] in ('BEGIN', 'BEGIN_BUSY', 'BODY')]
        base = '%s.transact[other thread inside its block]#%d' % (pid, n)
        if 'BODY' in kinds and 'BEGIN' not in kinds:
            nf += 1
            out.append(R(base + '.enters_only_with_the_lock', False, 'transact', p,
                         'the body of a block ran without BEGIN IMMEDIATE while ANOTHER thread of the same object is inside its '
                         'block: the owner mark was taken for this thread\'s own (effects %r)' % (kinds,)))
            continue
        busy = 'BEGIN_BUSY' in kinds
        if not busy:
            continue            # the lock is held by the other thread: BEGIN cannot succeed in this state
        nf += 1
        ok = p.kind == 'raise' and p.value.cls == 'Timeout' and not any(e[0] == 'BODY' for e in p.state.trace)
        out.append(R(base + '.times_out_without_running', ok, 'transact', p, '%s %r' % (p.kind, p.value)))
        ok = p.state.ghost['self'].fields['_txn_id'] is p.state.ghost['mark']
        out.append(R(base + '.leaves_the_owner_mark_alone', ok, 'transact', p,
                     'a thread that timed out changed the owner mark to %r while another thread is inside its block: that thread\'s '
                     'next operation no longer nests and its block can neither commit nor roll back' % (p.state.ghost['self'].fields['_txn_id'],)))
    if nf == 0:
        out.append(Result('%s.transact[other thread inside its block]' % pid, 'vacuity', 'error', detail='no timeout path'))
    for nested in (False, True):
        for body_raises in (False, True):
            def body(st, nested=nested, body_raises=body_raises):
                ctx.sql.busy = True
                ctx.sql.faults = 'base'
                ctx.sql.auto_rollback = True
                it = ctx.interp(st)
                cache = make_cache(ctx, st, policy='none', nested=nested)
                st.ghost['self'] = cache

                def cm_body(y):
                    st.ghost['owner_in_body'] = cache.fields['_txn_id']
                    st.ghost['active_in_body'] = bool(st.world.get('txn.active'))
                    st.effect('BODY')
                    if body_raises:
                        raise_py('RuntimeError', 'body failed')
                return it.call_function(fv, [cache, True], {}, cm_body=cm_body)
            try:
                paths = explore(body, max_paths=2000)
            finally:
                ctx.sql.faults = False
                ctx.sql.auto_rollback = False
            seen = 0
            for n, p in enumerate(paths):
                st = p.state
                tr = st.trace
                tag = '[%s,body %s]#%d' % ('nested' if nested else 'outermost', 'raises' if body_raises else 'returns', n)
                base = '%s.transact%s' % (pid, tag)
                for o in st.obligations:
                    out.append(discharge('%s/%s' % (base, o.name), o.kind, o.pc, o.goal, function='Cache._transact', path=p.decisions))
                if p.kind == 'cut':
                    continue
                seen += 1
                kinds = [e[0] for e in tr if e[0] in ('BEGIN', 'COMMIT', 'ROLLBACK', 'BODY')]
                owner = st.ghost['self'].fields['_txn_id']
                ran = 'BODY' in kinds
                if nested:
                    ok = kinds == ['BODY'] and isinstance(owner, SV) and owner.t.eq(st.world['tid']) and bool(st.world.get('txn.active'))
                    out.append(R(base + '.nested_is_noop', ok, 'transact', p,
                                 'inner block did %r, owner afterwards %r' % (kinds, owner)))
                else:
                    ok = owner is None and not st.world.get('txn.active')
                    out.append(R(base + '.owner_reset', ok, 'transact', p,
                                 'after the outermost block (%s) the owner mark is %r and the transaction is %s: the next '
                                 'operation of this thread would run without taking the write lock'
                                 % (p.kind, owner, 'open' if st.world.get('txn.active') else 'closed')))
                    ends = [e[1] for e in tr if e[0] in ('COMMIT', 'ROLLBACK')]
                    ok = all(e.get('owner', 'ABSENT') is None for e in ends)
                    out.append(R(base + '.owner_cleared_before_release', ok, 'transact', p,
                                 'the write lock is released (COMMIT / ROLLBACK) while this thread is still marked as owner: '
                                 'another thread of the same object that begins now has its mark wiped afterwards'))
                    if ran:
                        ob = st.ghost.get('owner_in_body')
                        ok = isinstance(ob, SV) and ob.t.eq(st.world['tid']) and st.ghost.get('active_in_body') and \
                            all(e[1]['immediate'] for e in tr if e[0] == 'BEGIN')
                        out.append(R(base + '.body_owns_immediate_transaction', ok, 'transact', p,
                                     'body ran with owner %r, transaction active=%r' % (ob, st.ghost.get('active_in_body'))))
                        faulted = any(e[0] == 'FAULT' for e in tr[tr.index(next(e for e in tr if e[0] == 'BODY')):])
                        if body_raises:
                            auto = any(e[0] == 'ROLLBACK' and e[1].get('auto') for e in tr)
                            ok = kinds == ['BEGIN', 'BODY', 'ROLLBACK'] and p.kind == 'raise' and \
                                (p.value.cls == 'RuntimeError' or faulted or (auto and p.value.cls == 'sqlite3.OperationalError'))
                            out.append(R(base + '.exception_rolls_back', ok, 'transact', p,
                                         'body raised: effects %r, exit %s %r' % (kinds, p.kind, p.value)))
                        elif not faulted:
                            ok = kinds == ['BEGIN', 'BODY', 'COMMIT'] and p.kind == 'return'
                            out.append(R(base + '.return_commits', ok, 'transact', p,
                                         'body returned: effects %r, exit %s %r' % (kinds, p.kind, p.value)))
                if p.kind == 'raise' and not ran:
                    ok = not any(k in ('COMMIT',) for k in kinds)
                    out.append(R(base + '.refused_entry_runs_nothing', ok, 'transact', p, 'effects %r' % (kinds,)))
            if seen == 0:
                out.append(Result('%s.transact[%s]' % (pid, 'nested' if nested else 'outermost'), 'vacuity', 'error', detail='no paths'))
    return out


# ------------------------------------------------------------------ C08
def c08_path(method, tag, p, nested):
    st = p.state
    tr = st.trace
    out = []
    created = created_files(tr)
    committed = any(e[0] == 'COMMIT' for e in tr)
    rolled = any(e[0] == 'ROLLBACK' for e in tr)
    # (1) every file created by this operation ends up referenced by a row written on this path and
    #     committed, or is removed again -- on normal AND exceptional exits
    for f in created:
        referenced = False
        for e in tr:
            if e[0] in ('INSERT',) and 'filename' in e[1]['vals']:
                v = e[1]['vals']['filename']
                if z3.simplify(v).eq(z3.simplify(SM.DbVal.TextV(f))) or str(f) in str(v):
                    referenced = True
            if e[0] == 'UPDATE' and 'filename' in e[1]['new']:
                v = e[1]['new']['filename']
                if str(f) in str(v):
                    referenced = True
        removed = any(tr[i][0] == 'FILE_REMOVE' and e['filename'].eq(f) for i, e in removed_terms(tr))
        if nested:
            # inside a user block the outcome is decided when the block ends; the row must at least exist
            ok = (referenced and not rolled and p.kind == 'return') or removed
        else:
            ok = (referenced and committed and not rolled) or removed
        exit_kind = 'return' if p.kind == 'return' else 'raise:%s' % p.value.cls
        out.append(R('C08.%s%s.new_file_referenced_or_removed[exit=%s]' % (method, tag, exit_kind), ok, method, p,
                     'value file created by this call is neither referenced by a committed row nor removed '
                     '(exit: %s %s)' % (p.kind, getattr(p.value, 'cls', ''))))
    # (2) every file reference dropped by a committed UPDATE/DELETE is followed by the removal of that file
    if committed or (nested and p.kind == 'return'):
        for i, e in enumerate(tr):
            if e[0] == 'DELETE' or (e[0] == 'UPDATE' and 'filename' in e[1]['cols']):
                isnull, fn = e[1]['old_filename']
                cands = [x for j, x in removed_terms(tr) if j > i and tr[j][0] == 'FILE_REMOVE']
                if not cands:
                    # nothing removed at all: fine only if the old row had no file
                    out.append(discharge('C08.%s%s.old_file_removed@%d' % (method, tag, i), 'trace', p.pc, isnull,
                                         function='Cache.' + method, path=p.decisions))
                else:
                    goal = z3.Or(isnull, *[c['filename'] == fn for c in cands])
                    out.append(discharge('C08.%s%s.old_file_removed@%d' % (method, tag, i), 'trace', p.pc, goal,
                                         function='Cache.' + method, path=p.decisions))
            if e[0] == 'DELETE_SET':
                # the files scheduled are those of the very page of rows that was deleted
                def same_page(x):
                    m = getattr(getattr(x.get('batch'), 'seq', None), 'member', None)
                    return m is not None and m.eq(e[1]['member'])
                ok = any(tr[j][0] == 'FILE_REMOVE_BATCH' and same_page(x) for j, x in removed_terms(tr) if j > i)
                out.append(R('C08.%s%s.culled_files_removed@%d' % (method, tag, i), ok, method, p,
                             'rows removed by culling but the files scheduled for removal are not those of the rows deleted '
                             '(none, or the files of another selection)'))
    # (3) counters: count / size triggers keep Settings equal to the recomputed values
    if p.kind != 'cut' and not st.world.get('txn.active'):
        for nm, part in SM.invariant(st.world, named=True):
            if nm in ('count', 'size'):
                out.append(discharge('C08.%s%s.counter.%s' % (method, tag, nm), 'trace', p.pc, part,
                                     function='Cache.' + method, path=p.decisions))
    return out


# ------------------------------------------------------------------ C14
def c14_path(method, tag, p, nested):
    st = p.state
    out = []
    a = st.ghost['args']
    if c03.timeout_path(p):
        w0, w1 = c03.world0(st), st.world
        goal = z3.And(c03.eq_world(w0, w1), w1['F.exists'] == w0['F.exists'])
        out.append(discharge('C14.%s%s.timeout_no_effect_no_file' % (method, tag), 'raises', p.pc, goal,
                             function='Cache.' + method, path=p.decisions))
        retry = a.get('retry')
        if isinstance(retry, SV):
            out.append(discharge('C14.%s%s.no_timeout_under_retry' % (method, tag), 'raises', p.pc,
                                 z3.Not(retry.t), function='Cache.' + method, path=p.decisions))
        no_stmt = not [e for e in st.trace if e[0] == 'SQL' and e[1]['stmt']['kind'] in WRITES]
        out.append(R('C14.%s%s.timeout_before_any_write' % (method, tag), no_stmt, method, p,
                     'statements executed before Timeout'))
    return out


def lookups_take_no_lock(policy):
    """C14: with statistics off and a policy that does not record reads, get and __contains__ never BEGIN."""
    out = []
    ctx = cctx()
    for method in ('get', '__contains__'):
        def body(st, method=method):
            it = ctx.interp(st)
            cache = make_cache(ctx, st, policy=policy, statistics=0)
            st.assume(c03.files_agree(st.world))
            a = c03.build_args(st, method)
            return it.call(ctx.func('diskcache.core.Cache.' + method), [cache], dict(a))
        for n, p in enumerate(explore(body)):
            begins = [e for e in p.state.trace if e[0] in ('BEGIN', 'BEGIN_BUSY')]
            ok = not begins and p.kind == 'return'
            out.append(Result('C14.%s[%s]#%d.lookup_needs_no_lock' % (method, policy, n), 'trace',
                              'proved' if ok else 'refuted', ms=0, backend='engine', function='Cache.' + method,
                              path=p.decisions, detail=None if ok else 'lookup takes the write lock or raises %r' % (p.value,)))
    return out


def miss_on_vanished_file(policy):
    """C05: a lookup overlapping a removal of the same key reports a miss (the file may be gone)."""
    out = []
    paths = run('get', policy, False, faults=False, store_outcomes=('inline',), assume_files=False)
    for n, p in enumerate(paths):
        if p.kind == 'cut' or c03.timeout_path(p):
            continue
        vanished = any(e[0] == 'FILE_READ' for e in p.state.trace) and p.kind == 'raise'
        if p.kind == 'raise':
            out.append(Result('C05.get[%s]#%d.miss_on_vanished_file' % (policy, n), 'trace', 'refuted', ms=0,
                              backend='engine', function='Cache.get', path=p.decisions,
                              detail='get raises %r when the value file has vanished' % (p.value,)))
        else:
            out.append(Result('C05.get[%s]#%d.miss_on_vanished_file' % (policy, n), 'trace', 'proved', ms=0,
                              backend='engine', function='Cache.get', path=p.decisions))
    return out


def extra_tasks(pid):
    ts = []
    if pid == 'C05':
        ts += [('contracts.traces', 'miss_on_vanished_file', (pol,)) for pol in ('least-recently-stored', 'least-recently-used')]
        # iteration hands out items between lookups of the same client: it must not keep a read snapshot open
        ts += [('contracts.iteration', 'iter_task', ('C05', True)), ('contracts.iteration', 'iter_task', ('C05', False)),
               ('contracts.iteration', 'iterkeys_task', ('C05', False)), ('contracts.iteration', 'iterkeys_task', ('C05', True))]
    if pid == 'C14':
        ts += [('contracts.traces', 'lookups_take_no_lock', (pol,)) for pol in ('least-recently-stored', 'none')]
        from contracts import fanout_common as fc
        ts += [('contracts.fanout_common', 'routed', (m, 'other')) for m in fc.ROUTED]
        ts += [('contracts.traces', 'operator_forms_retry', ())]
        ts += [('contracts.bulk', 'bulk_task', ('C14', k)) for k in ('clear', 'evict', 'expire')]
        # sharded bulk removals: the counts carried by every Timeout of every shard are added up
        ts += [('contracts.fanout_common', 'aggregate', (m,)) for m in ('expire', 'evict', 'cull', 'clear')]
        ts += [('contracts.bulk', 'cull_task', ('C14', 'least-recently-stored'))]
    if pid == 'C07':
        ts += [('contracts.traces', 'exclusive_create', ())]
        # opening is idempotent across a crash: every open re-establishes every Settings row (the metadata
        # counters with INSERT OR IGNORE), whatever an interrupted earlier open left behind
        ts += [('contracts.c18', 'settings_merge', ())]
        # multi-step operations of the layers above are one transaction block each (so that a kill leaves them
        # applied entirely or not at all): Deque.append / appendleft at maxlen, Index.popitem
        ts += [('contracts.c11', 'appends', ()), ('contracts.c12', 'popitem', ())]
        # "... debris that a repair removes": the contract of check(fix=True) (C17)
        ts += [('contracts.c17', 'check_task', (True,))]
    if pid in ('C05', 'C06', 'C07'):
        ts += [('contracts.traces', 'transact_block', (pid,))]
    if pid == 'C08':
        # the size a row records is the size Disk.store reports: its contract (recorded size = bytes in the
        # value file, 0 for inline values) is the C01.store.size family, re-run here under C08's name
        from contracts import c01
        ts += [t for t in c01.tasks('quick') if t[1] == 'roundtrip' and t[2][0] == 'Disk']
    if pid == 'C06':
        ts += [('contracts.fanout_common', 'fanout_transact', ()), ('contracts.fanout_common', 'persistent_transact', ())]
    return ts


def post_process(pid, results):
    out = []
    for r in results:
        if pid == 'C07' and r['name'].startswith('C17.'):
            r = Result('C07.repair.' + r['name'][4:], r['kind'], r['verdict'],
                       **{k: v for k, v in r.items() if k not in ('name', 'kind', 'verdict')})
        if pid == 'C07' and r['name'].startswith(('C11.', 'C12.')):
            r = Result('C07.layers.' + r['name'][4:], r['kind'], r['verdict'],
                       **{k: v for k, v in r.items() if k not in ('name', 'kind', 'verdict')})
        if pid == 'C07' and r['name'].startswith('C18.init.'):
            r = Result('C07.open.' + r['name'][9:], r['kind'], r['verdict'],
                       **{k: v for k, v in r.items() if k not in ('name', 'kind', 'verdict')})
        if pid == 'C08' and r['name'].startswith('C01.'):
            if not r['name'].startswith('C01.store.size'):
                continue
            r = Result('C08.' + r['name'][4:], r['kind'], r['verdict'],
                       **{k: v for k, v in r.items() if k not in ('name', 'kind', 'verdict')})
        if pid == 'C14' and r['name'].startswith('C13.'):
            if not (r['name'].endswith('.result') or '_remove' in r['name'] or 'each_shard_once' in r['name'] or '.total' in r['name']):
                continue            # only the Timeout / result mapping and the bulk-removal totals belong to C14
            r = Result('C14.fanout.' + r['name'][4:], r['kind'], r['verdict'],
                       **{k: v for k, v in r.items() if k not in ('name', 'kind', 'verdict')})
        out.append(r)
    return out


def operator_forms_retry():
    """C14: Cache.__setitem__ / __getitem__ / read call set / get with the documented retry flags."""
    from pyvc.mock import Recorder, calls
    from pyvc import mock
    ctx = cctx()
    mock.install(ctx.env)
    out = []
    core = ctx.program.modules['diskcache.core'].globals
    ENOVAL = core['ENOVAL']
    spec = {'__setitem__': ('set', {'retry': True}), '__getitem__': ('get', {'retry': True, 'default': ENOVAL}),
            'read': ('get', {'default': ENOVAL, 'read': True})}
    for m, (callee, want) in spec.items():
        fv = ctx.func('diskcache.core.Cache.' + m)

        def body(st, m=m):
            it = ctx.interp(st)
            rec = Recorder('self', ctx.cls('diskcache.core.Cache'))
            key = Opaque('other', st.fresh('key', OTHER))
            args = [rec, key] + ([Opaque('other', st.fresh('value', OTHER))] if m == '__setitem__' else [])
            kw = {'retry': st.fresh_sv('retry', 'bool')} if m == 'read' else {}
            st.ghost['kw'] = kw
            return it.call(fv, args, kw)
        for n, p in enumerate(explore(body)):
            cs = calls(p)
            ok = len(cs) == 1 and cs[0]['name'] == callee and all(
                (cs[0]['bound'].get(k) is v) for k, v in want.items())
            if m == 'read' and ok:
                ok = cs[0]['bound']['retry'] is p.state.ghost['kw']['retry']
            out.append(Result('C14.%s#%d.operator_form_flags' % (m, n), 'delegate', 'proved' if ok else 'refuted', ms=0,
                              backend='engine', function='Cache.' + m, path=p.decisions,
                              detail=None if ok else 'calls %r' % [(c['name'], c['bound']) for c in cs]))
    return out


def exclusive_create():
    """C07: value files are created exclusively ('x' modes), so an existing file is never overwritten."""
    import ast
    ctx = cctx()
    mod = ctx.program.modules['diskcache.core']
    out = []
    modes = []
    for node in ast.walk(mod.tree):
        if isinstance(node, ast.ClassDef) and node.name in ('Disk', 'JSONDisk'):
            for f in node.body:
                if isinstance(f, ast.FunctionDef) and f.name == 'store':
                    for c in ast.walk(f):
                        if isinstance(c, ast.Call) and getattr(c.func, 'attr', '') == '_write':
                            m = c.args[2] if len(c.args) > 2 else None
                            modes.append(getattr(m, 'value', None))
    ok = bool(modes) and all(isinstance(m, str) and 'x' in m for m in modes)
    out.append(Result('C07.store.exclusive_create', 'format-pin', 'proved' if ok else 'refuted', ms=0, backend='engine',
                      function='Disk.store', detail=None if ok else 'open modes %r' % (modes,)))
    return out


def meta(pid, results, tier):
    return {'functions': {'verified_bodies': ['diskcache.core.Cache.' + m for m in MUTATORS + ['_transact', '_cull', '_row_insert', '_row_update']],
                          'assumed_contracts': ['Disk.put/get/store/fetch/remove (C01/C02)', 'Cache.reset']},
            'assumptions': ['A-SQL-iso: a BEGIN IMMEDIATE ... COMMIT section is atomic, isolated and released on process death '
                            '(rely condition of every concurrency and crash argument; never proved here)',
                            'real interleavings are not explored: the obligations are the sufficient conditions '
                            '(atomic sections, lock discipline, file ordering), schedules follow by a paper argument',
                            'fault model: any statement may raise OperationalError or surface KeyboardInterrupt; store may '
                            'raise before or after creating its file; BEGIN may find the lock taken',
                            'kills inside SQLite / libc and durability are outside (WAL recovery, A-SQL-iso)'],
            'explanation': 'effect-trace obligations on every path (all fault outcomes, outermost and nested entry) of the mutating Cache methods'}

"""C16 -- memoized functions return what the function returns; no shared entries.

Bodies executed from /repo: core.args_to_key, core.full_name, the
decorator/wrapper/__cache_key__ closures of Cache.memoize, DjangoCache.memoize,
recipes.memoize_stampede, Index.memoize (+ alias FanoutCache.memoize).

  C16.args_to_key.structure[typed][kw]   result = base ++ args ++ [None] ++ flat(sorted items)
                                         (++ types when typed), for argument tuples and keyword
                                         dictionaries of ANY size (loop invariant + symbolic sequences)
  C16.key.injective.*                    consequences of that structure (z3 Seq + Lean lemma flat_inj)
  C16.key.ignore[...]                    bounded: arities <= 3, listed ignore sets
  C16.wrapper.contract[impl]             lookup / call-once / store-iff-expiry / return
"""
import itertools
import z3

from pyvc.api import *          # noqa
from pyvc.check import Result, discharge
from pyvc.engine import explore, EnvFunc, Unsupported, SeqV, PyRaise, FuncVal, StarPack
from pyvc.loops import LoopSpec, SymSeq
from pyvc import symargs as SA
from pyvc import mock, lemmas
from pyvc.mock import Recorder, calls
from pyvc.env import seq_term, int_term
from contracts.disk_common import context, to_pyobj

SEQ, KVSEQ, KV, flat = SA.SEQ, SA.KVSEQ, SA.KV, SA.flat
_c = {}


def cctx():
    if 'c' not in _c:
        c = context('core', 'persistent', 'fanout', 'recipes', 'djangocache')
        SA.install(c.env)
        mock.install(c.env)
        install_loop(c)
        install_func_recorder(c.env)
        _c['c'] = c
    return _c['c']


def flat_step(items, i):
    """Definition of flat by snoc, instantiated at position i."""
    e = items[i]
    return flat(z3.SubSeq(items, 0, i + 1)) == z3.Concat(
        flat(z3.SubSeq(items, 0, i)), z3.Unit(PyObj.OStr(KV.kname(e))), z3.Unit(KV.kval(e)))


def install_loop(c):
    def prefix(fr):
        return z3.Concat(seq_term(fr.locals['base']), fr.locals['args'].t, z3.Unit(PyObj.ONone))

    def inv(it, fr, i):
        items = fr.locals['sorted_items'].items
        return fr.locals['key'].t == z3.Concat(prefix(fr), flat(z3.SubSeq(items, 0, i)))

    def lem(it, fr, i):
        items = fr.locals['sorted_items'].items
        n = z3.Length(items)
        return [flat(z3.SubSeq(items, 0, 0)) == z3.Empty(SEQ),
                z3.Implies(z3.And(i >= 1, i <= n), flat_step(items, i - 1)),
                z3.SubSeq(items, 0, n) == items]
    c.loop_invariants[('diskcache.core.args_to_key', 0)] = LoopSpec(
        'C16.args_to_key.loop', inv, shapes={'key': lambda st: SeqV(st.fresh('key', SEQ)),
                                             'item': lambda st: None}, lemmas=lem)


def spec_key(base_t, A, I, typed, has_kw):
    k = z3.Concat(base_t, A, z3.Unit(PyObj.ONone))
    if has_kw:
        k = z3.Concat(k, flat(I))
    if typed:
        k = z3.Concat(k, SA.types_of(A))
        if has_kw:
            k = z3.Concat(k, SA.types_of_vals(I))
    return k


def structure(typed):
    ctx = cctx()
    fv = ctx.func('diskcache.core.args_to_key')
    info = {}

    def run(st):
        it = ctx.interp(st)
        name = st.fresh_sv('name', 'str')
        A = z3.Const('A', SEQ)
        I = z3.Const('I', KVSEQ)
        info.update(name=name, A=A, I=I)
        return it.call(fv, [(name,), SeqV(A), SA.KwPack(I), typed, ()], {})
    out = []
    nret = 0
    for n, p in enumerate(explore(run)):
        base = 'C16.args_to_key.structure[typed=%s]#%d' % (typed, n)
        for o in p.state.obligations:
            out.append(discharge('%s/%s' % (base, o.name), o.kind, o.pc, o.goal,
                                 function='core.args_to_key', path=p.decisions))
        if p.kind == 'cut':
            continue
        if p.kind != 'return':
            out.append(Result(base, 'post', 'refuted', ms=0, backend='engine', function='core.args_to_key',
                              path=p.decisions, detail='raises %r' % (p.value,)))
            continue
        nret += 1
        A, I = info['A'], info['I']
        base_t = z3.Unit(PyObj.OStr(info['name'].t))
        kt = seq_term(p.value)
        goal = z3.Or(z3.And(z3.Length(I) > 0, kt == spec_key(base_t, A, I, typed, True)),
                     z3.And(z3.Length(I) == 0, kt == spec_key(base_t, A, I, typed, False)))
        out.append(discharge(base, 'post', p.pc, goal, function='core.args_to_key', path=p.decisions))
    if nret == 0:
        out.append(Result('C16.args_to_key.structure[typed=%s]' % typed, 'vacuity', 'error', detail='no returning path'))
    return out


def injectivity():
    """Pure consequences of the key structure proved above."""
    out = []
    B1, B2 = z3.Consts('B1 B2', SEQ)
    A1, A2 = z3.Consts('A1 A2', SEQ)
    I1, I2 = z3.Consts('I1 I2', KVSEQ)
    F1, F2 = flat(I1), flat(I2)
    wf = [z3.Length(B1) == 1, z3.Length(B2) == 1]
    flat_inj_ok = lemmas.checked('flat_inj')
    ax_flat_inj = z3.Implies(F1 == F2, I1 == I2)     # instance of Lean theorem flat_inj
    ax_len = [z3.Length(F1) == 2 * z3.Length(I1), z3.Length(F2) == 2 * z3.Length(I2)]

    def K(B, A, I, kw):
        return spec_key(B, A, I, False, kw)

    def add(name, pc, goal, kind='post', uses_lean=False):
        r = discharge(name, kind, pc, goal, function='core.args_to_key (spec structure)')
        if uses_lean and not flat_inj_ok and r['verdict'] == 'proved':
            r['verdict'] = 'unknown'
            r['detail'] = 'uses lemma flat_inj which has not been checked by lean in this checkout (run setup_cmd)'
        if uses_lean:
            r['backend'] = 'z3 + Lean lemma flat_inj'
        out.append(r)
    # different functions (different base) never share a key
    for kw1, kw2 in itertools.product((False, True), repeat=2):
        add('C16.key.base_separates[kw=%s,%s]' % (kw1, kw2), wf + [B1 != B2],
            K(B1, A1, I1, kw1) != K(B2, A2, I2, kw2))
    # no keyword arguments on either side
    add('C16.key.injective[no-kwargs]', wf + [K(B1, A1, I1, False) == K(B1, A2, I2, False)], A1 == A2)
    # same number of positional arguments, keywords on both sides
    add('C16.key.injective[same-arity]', wf + ax_len + [ax_flat_inj, z3.Length(A1) == z3.Length(A2),
                                                        K(B1, A1, I1, True) == K(B1, A2, I2, True)],
        z3.And(A1 == A2, I1 == I2), uses_lean=True)
    # positional versus keyword: f(a) vs f(x=a) with the same number of positionals on one side
    add('C16.key.injective[same-arity, kw vs none]',
        wf + ax_len + [z3.Length(A1) == z3.Length(A2), z3.Length(I1) > 0,
                       K(B1, A1, I1, True) == K(B1, A2, I2, False)], z3.BoolVal(False))
    # full statement for different positional arities (fails on the unchanged tree: KF-C16-none-separator)
    n1 = z3.Length(A1)

    def rep(model):
        return {'recipe': {'func': 'c16_collision'}}
    for kw1, kw2 in itertools.product((False, True), repeat=2):
        pc_any = wf + ax_len + [n1 < z3.Length(A2), K(B1, A1, I1, kw1) == K(B1, A2, I2, kw2)]
        if kw1:
            pc_any.append(z3.Length(I1) > 0)
        if kw2:
            pc_any.append(z3.Length(I2) > 0)
        nm = 'kw=%s,%s' % (kw1, kw2)
        out.append(discharge('C16.key.injective[different-arity][%s]' % nm, 'post', pc_any, z3.BoolVal(False),
                             function='core.args_to_key (spec structure)', replay=rep))
        # residual: such a collision needs a literal None at position len(shorter) of the longer call
        add('C16.key.injective.residual[different-arity][%s]' % nm, pc_any, A2[n1] == PyObj.ONone)
    # typed: with equal shapes the typed key determines the untyped one
    for kw in (False, True):
        pc = wf + ax_len + [z3.Length(A1) == z3.Length(A2), z3.Length(I1) == z3.Length(I2),
                            spec_key(B1, A1, I1, True, kw) == spec_key(B1, A2, I2, True, kw),
                            z3.Length(SA.types_of(A1)) == z3.Length(A1), z3.Length(SA.types_of(A2)) == z3.Length(A2)]
        add('C16.key.typed.extends_untyped[kw=%s]' % kw, pc, K(B1, A1, I1, kw) == K(B1, A2, I2, kw))
    return out


# ------------------------------------------------------------------ ignore (bounded)
def ignore_cells():
    """Bounded: concrete arities <= 3 and two keyword names; ignored positions / names do not occur
    in the key, every other argument does, in order."""
    ctx = cctx()
    fv = ctx.func('diskcache.core.args_to_key')
    out = []
    cases = 0
    bad = None
    for npos in range(0, 4):
        for kwnames in ((), ('a',), ('a', 'b')):
            for ign in ((), (0,), (1,), ('a',), (0, 'b'), (2, 'a', 'b')):
                for typed in (False, True):
                    cases += 1

                    def run(st, npos=npos, kwnames=kwnames, ign=ign, typed=typed):
                        it = ctx.interp(st)
                        args = tuple(Opaque('other', st.fresh('p%d' % i, OTHER)) for i in range(npos))
                        kw = {k: Opaque('other', st.fresh('k_' + k, OTHER)) for k in kwnames}
                        before = dict(kw)
                        r = it.call(fv, [('f',), args, kw, typed, ign], {})
                        # frame: the caller's keyword dict is not modified (the wrappers pass it on to the function)
                        if list(kw.items()) != list(before.items()) or any(kw[k] is not before[k] for k in kw):
                            st.ghost['frame_broken'] = (sorted(before), sorted(kw))
                        return args, before, r
                    for p in explore(run):
                        if p.kind != 'return':
                            bad = bad or (npos, kwnames, ign, typed, 'raises %r' % (p.value,))
                            continue
                        args, kw, r = p.value
                        if 'frame_broken' in p.state.ghost:
                            bad = bad or (npos, kwnames, ign, typed, 'args_to_key modified its kwargs argument: keys %r became %r'
                                          % p.state.ghost['frame_broken'])
                        exp = ['f'] + [a for i, a in enumerate(args) if i not in ign] + [None]
                        kept = [(k, kw[k]) for k in sorted(kw) if k not in ign]
                        for k, v in kept:
                            exp += [k, v]
                        r = list(r)
                        head = r[:len(exp)]
                        ok = len(head) == len(exp) and all(x is y or (x == y and not isinstance(x, Opaque))
                                                            for x, y in zip(head, exp))
                        ntypes = (npos - len([i for i in ign if isinstance(i, int) and i < npos])) + \
                            (len(kept) if kept else 0)
                        ok = ok and len(r) == len(exp) + (ntypes if typed else 0)
                        if not ok:
                            bad = bad or (npos, kwnames, ign, typed, 'key %r expected prefix %r' % (r, exp))
    out.append(Result('C16.key.ignore.bounded', 'bounded', 'proved' if bad is None else 'refuted', ms=0,
                      backend='engine-enumeration', function='core.args_to_key',
                      bound='positional arity 0..3 x keyword sets {}, {a}, {a,b} x 6 ignore sets x typed',
                      cases=cases, detail=None if bad is None else repr(bad)))
    return out


# ------------------------------------------------------------------ wrapper contracts
class KeyContract:
    """Assumed at wrapper level (proved by C16.args_to_key.*): args_to_key is a function of its arguments."""

    def apply(self, it, fv, args, kwargs):
        b = it.bind_args(fv, args, kwargs)
        it.st.effect('KEY', bound=b)
        k = Opaque('other', it.st.fresh('cache_key', OTHER))
        k.is_key = True
        return k


def wrapper_contract(impl):
    ctx = cctx()
    core = ctx.program.modules['diskcache.core'].globals
    ENOVAL = core['ENOVAL']
    info = {}

    def run(st):
        it = ctx.interp(st)
        it.contracts = dict(ctx.contracts)
        it.contracts['diskcache.core.args_to_key'] = KeyContract()
        install_threading(ctx)
        A = SeqV(st.fresh('A', SEQ))
        KW = SA.KwPack(st.fresh('KW', KVSEQ))
        typed = st.fresh_sv('typed', 'bool')
        tag = Opaque('other', st.fresh('tag', OTHER))
        ignore = Opaque('other', st.fresh('ignore', OTHER))
        name = st.fresh_sv('name', 'str')

        def func_outcomes(nm, bound):
            return ['return']
        func = FuncRecorder('func')
        if impl in ('Cache', 'Index', 'FanoutCache'):
            cache = Recorder('cache', ctx.cls('diskcache.core.Cache'),
                             outcomes=lambda nm, b: cache_outcomes(nm, b, ENOVAL))
            expire = opt_real(st, 'expire')
            if impl == 'Index':
                idx = ctx.new_obj('diskcache.persistent.Index', {'_cache': cache})
                memo = ctx.func('diskcache.core.Cache.memoize')
                # Index.memoize delegates: self._cache.memoize(name, typed, ignore=ignore)
                dec = it.call(ctx.func('diskcache.persistent.Index.memoize'), [idx, name, typed, ignore], {})
                expire = None
                tag = None
            else:
                dec = it.call(ctx.func('diskcache.core.Cache.memoize'), [cache, name, typed, expire, tag, ignore], {})
        elif impl == 'DjangoCache':
            cache = Recorder('cache', ctx.cls('diskcache.djangocache.DjangoCache'),
                             outcomes=lambda nm, b: cache_outcomes(nm, b, ENOVAL))
            expire = django_timeout(ctx, st)
            version = Opaque('other', st.fresh('version', OTHER))
            info['version'] = version
            st.ghost['version'] = version
            dec = it.call(ctx.func('diskcache.djangocache.DjangoCache.memoize'),
                          [cache, name, expire['value'], version, typed, tag, ignore], {})
        else:
            raise Unsupported(impl)
        info.update(cache=cache, func=func, A=A, KW=KW, expire=expire, tag=tag, typed=typed, ignore=ignore,
                    name=name)
        st.ghost['info'] = dict(info)
        wrapper = it.call(dec, [func], {})
        info['wrapper'] = wrapper
        st.effect('WRAPPED')
        return it.call(wrapper, [StarPack(A)], {'**': StarPack(KW)})
    out = []
    paths = explore(run)
    for n, p in enumerate(paths):
        base = 'C16.wrapper.contract[%s]#%d' % (impl, n)
        ok, why = check_wrapper(impl, p, p.state.ghost.get('info', info), ENOVAL)
        if isinstance(ok, z3.ExprRef):
            out.append(discharge(base, 'post', p.pc, ok, function=impl + '.memoize.wrapper', path=p.decisions))
        else:
            out.append(Result(base, 'post', 'proved' if ok else 'refuted', ms=0, backend='engine',
                              function=impl + '.memoize.wrapper', path=p.decisions, detail=None if ok else why))
    if not paths:
        out.append(Result('C16.wrapper.contract[%s]' % impl, 'vacuity', 'error', detail='no paths'))
    return out


def index_memoize_delegates():
    """Index.memoize(name, typed, ignore) == self._cache.memoize(name, typed, ignore=ignore)."""
    ctx = cctx()
    info = {}

    def run(st):
        it = ctx.interp(st)
        cache = Recorder('cache', ctx.cls('diskcache.core.Cache'))
        idx = ctx.new_obj('diskcache.persistent.Index', {'_cache': cache})
        a = {k: Opaque('other', st.fresh(k, OTHER)) for k in ('name', 'typed', 'ignore')}
        info.update(a=a)
        return it.call(ctx.func('diskcache.persistent.Index.memoize'), [idx, a['name'], a['typed'], a['ignore']], {})
    out = []
    for n, p in enumerate(explore(run)):
        cs = calls(p)
        ok = (p.kind == 'return' and len(cs) == 1 and cs[0]['name'] == 'memoize'
              and all(cs[0]['bound'][k] is info['a'][k] for k in ('name', 'typed', 'ignore'))
              and cs[0]['bound']['expire'] is None and cs[0]['bound']['tag'] is None
              and p.value is cs[0]['ret'])
        out.append(Result('C16.Index.memoize.delegates#%d' % n, 'delegate', 'proved' if ok else 'refuted', ms=0,
                          backend='engine', function='Index.memoize', path=p.decisions,
                          detail=None if ok else 'calls %r' % [(c['name'], c['bound']) for c in cs]))
    alias = ctx.cls('diskcache.fanout.FanoutCache').attrs.get('memoize') is ctx.cls('diskcache.core.Cache').attrs.get('memoize')
    out.append(Result('C16.FanoutCache.memoize.is_Cache.memoize', 'delegate', 'proved' if alias else 'refuted',
                      ms=0, backend='engine', function='FanoutCache.memoize'))
    return out


def stampede_contract():
    """recipes.memoize_stampede wrapper: returns the function's result (not the (result, delta)
    pair); miss -> one call with the caller's arguments, pair stored under the key; hit -> no call in
    the caller's thread; an early recomputation (in a thread, here run at start()) calls the function
    with the caller's arguments and stores the new pair under the SAME key."""
    ctx = cctx()
    core = ctx.program.modules['diskcache.core'].globals
    ENOVAL = core['ENOVAL']

    def run(st):
        it = ctx.interp(st)
        it.contracts = dict(ctx.contracts)
        it.contracts['diskcache.core.args_to_key'] = KeyContract()
        A = SeqV(st.fresh('A', SEQ))
        KW = SA.KwPack(st.fresh('KW', KVSEQ))
        typed = st.fresh_sv('typed', 'bool')
        tag = Opaque('other', st.fresh('tag', OTHER))
        ignore = Opaque('other', st.fresh('ignore', OTHER))
        name = st.fresh_sv('name', 'str')
        expire = st.fresh_sv('expire', 'real')
        beta = st.fresh_sv('beta', 'real')

        def outcomes(nm, b):
            if nm == 'get':
                def miss(it2, b2, n):
                    return (b2['default'], None)

                def hit(it2, b2, n):
                    res = Opaque('other', it2.st.fresh('cached_result', OTHER))
                    delta = it2.st.fresh_sv('cached_delta', 'real')
                    et = it2.st.fresh_sv('expire_time', 'real')
                    it2.st.ghost['cached'] = res
                    return ((res, delta), et)
                return [('return', miss), ('return', hit)]
            if nm == 'add':
                return [('return', lambda it2, b2, n: True), ('return', lambda it2, b2, n: False)]
            return ['return']
        cache = Recorder('cache', ctx.cls('diskcache.core.Cache'), outcomes=outcomes)
        func = FuncRecorder('func')
        dec = it.call(ctx.func('diskcache.recipes.memoize_stampede'), [cache, expire, name, typed, tag, beta, ignore], {})
        wrapper = it.call(dec, [func], {})
        st.ghost['info'] = dict(A=A, KW=KW, typed=typed, tag=tag, ignore=ignore, expire=expire)
        st.effect('WRAPPED')
        return it.call(wrapper, [StarPack(A)], {'**': StarPack(KW)})
    out = []
    paths = explore(run)
    for n, p in enumerate(paths):
        base = 'C16.stampede.contract#%d' % n
        ok, why = check_stampede(p, ENOVAL)
        out.append(Result(base, 'post', 'proved' if ok else 'refuted', ms=0, backend='engine',
                          function='recipes.memoize_stampede.wrapper', path=p.decisions,
                          detail=None if ok else why))
    if len(paths) < 3:
        out.append(Result('C16.stampede.contract', 'vacuity', 'error', detail='only %d paths' % len(paths)))
    return out


def check_stampede(p, ENOVAL):
    info = p.state.ghost['info']
    if p.kind != 'return':
        return False, 'wrapper raises %r' % (p.value,)
    tr = p.state.trace
    start = max(i for i, e in enumerate(tr) if e[0] == 'WRAPPED')
    tr = tr[start:]
    cs = [e[1] for e in tr if e[0] == 'CALL' and e[1]['name'] not in ('__enter__', '__exit__')]
    fs = [e[1] for e in tr if e[0] == 'FUNC']
    keys = [e[1] for e in tr if e[0] == 'KEY']
    if len(keys) != 1 or not (keys[0]['bound']['args'] is info['A'] and keys[0]['bound']['kwargs'] is info['KW']):
        return False, 'key computed %d times / from other arguments' % len(keys)
    g = cs[0]
    if not (g['name'] == 'get' and g['bound']['default'] is ENOVAL and g['bound']['expire_time'] is True
            and g['bound']['retry'] is True and getattr(g['bound']['key'], 'is_key', False)):
        return False, 'lookup %r' % (g['bound'],)
    key = g['bound']['key']

    def called_with_callers_args(f):
        return (len(f['args']) == 1 and isinstance(f['args'][0], StarPack) and f['args'][0].v is info['A']
                and isinstance(f['kwargs'].get('**'), StarPack) and f['kwargs']['**'].v is info['KW']
                and len(f['kwargs']) == 1)
    miss = g['ret'][0] is ENOVAL
    sets = [c for c in cs if c['name'] == 'set']
    for s_ in sets:
        b = s_['bound']
        if not (b['key'] is key and b['expire'] is info['expire'] and b['tag'] is info['tag'] and b['retry'] is True):
            return False, 'set(%r)' % (b,)
        v = b['value']
        if not (isinstance(v, tuple) and len(v) == 2 and fs and any(v[0] is f['ret'] for f in fs)):
            return False, 'stored value %r is not (function result, duration)' % (v,)
    for f in fs:
        if not called_with_callers_args(f):
            return False, 'function called with %r %r, not the caller\'s arguments' % (f['args'], f['kwargs'])
    if miss:
        ok = len(fs) == 1 and len(sets) == 1 and p.value is fs[0]['ret']
        return ok, 'miss: %d calls, %d sets, returns %r' % (len(fs), len(sets), p.value)
    # hit: the cached result is returned; any recomputation happens inside a started thread,
    # guarded by a successful add of key + (ENOVAL,)
    if p.value is not p.state.ghost['cached']:
        return False, 'hit returns %r, not the cached result' % (p.value,)
    started = [i for i, e in enumerate(tr) if e[0] == 'THREAD_START']
    if fs:
        adds = [c for c in cs if c['name'] == 'add']
        ok = len(started) == 1 and len(fs) == 1 and len(sets) == 1 and len(adds) == 1 and adds[0]['ret'] is True
        return ok, 'early recomputation: threads %d, calls %d, sets %d' % (len(started), len(fs), len(sets))
    return (not sets), 'hit without recomputation stores %d values' % len(sets)


def opt_real(st, name):
    return Opt(st.fresh(name + '_is_none', z3.BoolSort()), st.fresh_sv(name, 'real'))


def cache_outcomes(nm, bound, ENOVAL):
    if nm == 'get':
        # a miss returns the caller's default object, a hit returns a stored value
        return [('return', lambda it, b, n: b['default']),
                ('return', lambda it, b, n: Opaque('other', it.st.fresh('cached_result', OTHER)))]
    return ['return']


class FuncRecorder(Obj):
    """The user's function: records each call with the argument packs it received."""

    def __init__(self, tag):
        Obj.__init__(self, 'FuncRecorder', {'__module__': 'm', '__qualname__': 'f', '__name__': 'f',
                                            '__doc__': None})
        self.tag = tag


def install_func_recorder(env):
    if getattr(env, '_funcrec', False):
        return
    env._funcrec = True
    old_binop = env.binop

    def binop(it, op, a, b, inplace=False):
        if op == 'Add' and getattr(a, 'is_key', False) and isinstance(b, tuple):
            k = Opaque('other', it.st.fresh('derived_key', OTHER))
            k.derived_from = (a, b)
            return k
        return old_binop(it, op, a, b, inplace)
    env.binop = binop
    old = env.call_other

    def call_other(it, f, a, k):
        if isinstance(f, FuncRecorder):
            n = sum(1 for e in it.st.trace if e[0] == 'FUNC')
            r = Opaque('other', it.st.fresh('func_result_%d' % n, OTHER))
            it.st.effect('FUNC', args=a, kwargs=k, ret=r)
            if getattr(f, 'raises', False):
                from pyvc.engine import raise_py
                raise_py('RuntimeError', 'user function failed')
            return r
        return old(it, f, a, k)
    env.call_other = call_other


def check_wrapper(impl, p, info, ENOVAL):
    install_func_recorder(cctx().env)
    tr = p.state.trace
    if p.kind != 'return':
        return False, 'wrapper raises %r' % (p.value,)
    start = max(i for i, e in enumerate(tr) if e[0] == 'WRAPPED')
    tr = tr[start:]
    keys = [e[1] for e in tr if e[0] == 'KEY']
    cs = [e[1] for e in tr if e[0] == 'CALL']
    fs = [e[1] for e in tr if e[0] == 'FUNC']
    if len(keys) != 1:
        return False, 'cache key computed %d times' % len(keys)
    kb = keys[0]['bound']
    if not (kb['args'] is info['A'] and kb['kwargs'] is info['KW'] and same(kb['typed'], info['typed'])
            and kb['ignore'] is info['ignore']):
        return False, 'args_to_key called with %r' % (kb,)
    b = kb['base']
    if not (isinstance(b, tuple) and len(b) == 1):
        return False, 'base %r' % (b,)
    if not cs or cs[0]['name'] != 'get':
        return False, 'first cache operation is %r' % (cs[0]['name'] if cs else None)
    g = cs[0]['bound']
    if not (getattr(g['key'], 'is_key', False) and g['default'] is ENOVAL and g['retry'] is True):
        return False, 'lookup is get(%r)' % (g,)
    hit = p.value is not ENOVAL and cs[0]['ret'] is not ENOVAL
    if cs[0]['ret'] is not ENOVAL:
        # hit: function not called, cached value returned, nothing stored
        ok = not fs and len(cs) == 1 and p.value is cs[0]['ret']
        return ok, 'on a hit: func calls %d, cache calls %r, returns %r' % (len(fs), [c['name'] for c in cs], p.value)
    # miss: exactly one call with the caller's arguments; its result returned
    if len(fs) != 1:
        return False, 'on a miss the function is called %d times' % len(fs)
    f = fs[0]
    if not (len(f['args']) == 1 and isinstance(f['args'][0], StarPack) and f['args'][0].v is info['A']
            and isinstance(f['kwargs'].get('**'), StarPack) and f['kwargs']['**'].v is info['KW']
            and len(f['kwargs']) == 1):
        return False, 'function called with %r %r instead of the caller\'s arguments' % (f['args'], f['kwargs'])
    if p.value is not f['ret']:
        return False, 'returns %r, not the function result' % (p.value,)
    sets = [c for c in cs[1:] if c['name'] == 'set']
    if len(cs) - 1 != len(sets) or len(sets) > 1:
        return False, 'unexpected cache calls %r' % [c['name'] for c in cs]
    # stored iff the expiry allows it
    exp = info['expire']
    if impl == 'DjangoCache':
        allowed = exp['valid']
    elif exp is None:
        allowed = z3.BoolVal(True)
    else:
        allowed = z3.Or(exp.isnone, exp.inner.t > 0)
    if sets:
        s = sets[0]['bound']
        okargs = (s['key'] is g['key'] and s['value'] is f['ret'] and s['retry'] is True
                  and (s['tag'] is info['tag']))
        if impl == 'DjangoCache':
            okargs = okargs and s['timeout'] is exp['value'] and s['version'] is p.state.ghost['version']
        else:
            okargs = okargs and (s['expire'] is exp)
        if not okargs:
            return False, 'set called with %r' % (s,)
        return allowed, None
    return z3.Not(allowed), None


def same(a, b):
    if a is b:
        return True
    if isinstance(a, SV) and isinstance(b, SV):
        return a.t.eq(b.t)
    return False


def django_timeout(ctx, st):
    """timeout in {None, DEFAULT_TIMEOUT, number}."""
    dj = ctx.env.lib.django_default_timeout
    d = st.decide(3)
    if d == 0:
        return {'value': None, 'valid': z3.BoolVal(True)}
    if d == 1:
        return {'value': dj, 'valid': z3.BoolVal(True)}
    v = st.fresh_sv('timeout', 'real')
    return {'value': v, 'valid': v.t > 0}


def install_threading(ctx):
    pass


def tasks(tier):
    ts = [('contracts.c16', 'structure', (False,)), ('contracts.c16', 'structure', (True,)),
          ('contracts.c16', 'injectivity', ()), ('contracts.c16', 'ignore_cells', ())]
    for impl in ('Cache', 'DjangoCache'):
        ts.append(('contracts.c16', 'wrapper_contract', (impl,)))
    ts.append(('contracts.c16', 'index_memoize_delegates', ()))
    ts.append(('contracts.c16', 'stampede_contract', ()))
    from contracts import c03
    ts += c03.dependency_tasks('C16', ['get', 'set'], tier=tier)        # the wrappers are verified against get / set
    return ts


def meta(results, tier):
    return {'functions': {'verified_bodies': ['diskcache.core.args_to_key', 'diskcache.core.full_name',
                                              'diskcache.core.Cache.memoize (decorator, wrapper, __cache_key__)',
                                              'diskcache.persistent.Index.memoize'],
                          'assumed_contracts': ['Cache.get/set through Recorder; user function deterministic (requires)']},
            'assumptions': ['keyword names are text; a dict with unique keys sorted by key is its strictly name-sorted item list',
                            'cache-key identity is type and structure (A-PICKLE-canon)',
                            'Lean lemma flat_inj (checked in setup_cmd; else obligations using it are undecided)',
                            'ignore sets other than () are covered by the bounded cell only'],
            'explanation': 'args_to_key executed for symbolic-length args/kwargs with an inductive loop invariant; wrappers executed against recorder cache and recorder function'}


def post_process(results, tier):
    from contracts import c03 as _c03
    return _c03.dependency_rename('C16', results)

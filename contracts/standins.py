"""Bounded stand-ins (DESIGN 2.12): small-scope differential checks of the real
code, run natively under /venv/bin/python.  Used when an obligation is
UNDECIDED (construct outside the engine's subset) and, in the thorough tier,
as a cross-check of the environment contracts.  Labelled bounded; never
counted as proved.

usage: standins.py <Cxx> <tier>   -> one JSON line: list of results
"""
import itertools
import json
import os
import shutil
import sys
import tempfile

sys.path.insert(0, os.path.dirname(os.path.abspath(__file__)))
from replays import same, spec_key_equal, OTHER, nan, inf  # noqa


def result(name, ok, bound, cases, detail=None, recipe=None):
    r = {'name': name, 'kind': 'bounded', 'verdict': 'proved' if ok else 'refuted',
         'bound': bound, 'cases': cases, 'backend': 'native-enumeration', 'ms': 0}
    if detail:
        r['detail'] = detail
    if recipe:
        r['replay'] = {'recipe': recipe}
    return r


def deep_key_equal(a, b):
    """C02 key equality extended to containers: type and structure."""
    if isinstance(a, (tuple, frozenset)) or isinstance(b, (tuple, frozenset)):
        return same_structure(a, b)
    return spec_key_equal(a, b)


def same_structure(a, b):
    if type(a) is not type(b):
        return False
    if isinstance(a, tuple):
        return len(a) == len(b) and all(same_structure(x, y) for x, y in zip(a, b))
    if isinstance(a, frozenset):
        return len(a) == len(b) and all(any(same_structure(x, y) for y in b) for x in a)
    return same(a, b)


KEYS = ['a', b'a', '', b'', 1, 1.0, True, None, 0, 0.0, -0.0, False, 2**63, -2**63, 2**63 - 1, float(2**63),
        2**64, float(2**64), 2**53 + 1, float(2**53), inf, -inf, (1, 2), (1.0, 2), (True, 2), (0.0,), (-0.0,),
        ('a',), (b'a',), frozenset([1]), frozenset([1.0]), (), (None,), 'é', '\x00', b'\x80\x04K\x01.',
        5e-324, 'a-000000000000001']


def C02(tier):
    import diskcache
    import pickle
    out = []
    bad = None
    n = 0
    for disk in (diskcache.Disk,):
        for proto in ((0, 2, pickle.HIGHEST_PROTOCOL) if tier == 'quick' else range(0, pickle.HIGHEST_PROTOCOL + 1)):
            d = tempfile.mkdtemp()
            try:
                c = diskcache.Cache(d, disk=disk, disk_pickle_protocol=proto)
                keys = KEYS + [pickle.dumps((1, 2), protocol=proto)]
                for k1, k2 in itertools.permutations(keys, 2):
                    n += 1
                    c.clear()
                    _ = k1 in c, k2 in c
                    c[k1] = 'one'
                    c[k2] = 'two'
                    shared = len(c) == 1
                    exp = deep_key_equal(k1, k2)
                    got = list(c)
                    ok = shared == exp and (shared or (same_structure(got[0], k1) and same_structure(got[1], k2)))
                    if not ok and bad is None:
                        bad = (proto, k1, k2, shared, exp, got)
            finally:
                shutil.rmtree(d, ignore_errors=True)
    out.append(result('C02.standin.alias_and_iteration', bad is None,
                      'all ordered pairs of %d corpus keys x pickle protocols, Disk' % (len(KEYS) + 1), n,
                      None if bad is None else 'protocol %r: keys %r and %r: shared=%r expected=%r iteration=%r' % bad,
                      None if bad is None else {'func': 'c02_alias_deep', 'k1': repr(bad[1]), 'k2': repr(bad[2]),
                                                'protocol': bad[0]}))
    return out


def C16(tier):
    """Every memoizer returns what the function returns, for a small alphabet of call signatures,
    including stampede's early recomputation (forced by a controlled clock / random source)."""
    import threading
    import diskcache
    from diskcache import recipes
    sigs = []
    vals = [1, 1.0, None, 'a', True]
    for n in range(0, 3):
        for pos in itertools.product(vals[:4], repeat=n):
            for kw in ({}, {'a': None}, {'a': 1, 'b': 'a'}, {'b': 2}):
                sigs.append((pos, kw))
    if tier == 'quick':
        sigs = sigs[::3]
    bad = None
    cases = 0

    def f(*args, **kwargs):
        return ('R', tuple((type(a).__name__, a) for a in args),
                tuple(sorted((k, type(v).__name__, v) for k, v in kwargs.items())))
    d = tempfile.mkdtemp()
    try:
        makers = []
        c1 = diskcache.Cache(d + '/c')
        makers.append(('Cache.memoize', c1.memoize(typed=True)(f)))
        fc = diskcache.FanoutCache(d + '/f', shards=2)
        makers.append(('FanoutCache.memoize', fc.memoize(typed=True)(f)))
        ix = diskcache.Index(d + '/i')
        makers.append(('Index.memoize', ix.memoize(typed=True)(f)))
        for name, w in makers:
            for pos, kw in sigs:
                for rnd in (1, 2):
                    cases += 1
                    got = w(*pos, **kw)
                    if got != f(*pos, **kw) and bad is None:
                        bad = (name, pos, kw, got)
        # stampede with forced early recomputation
        clock = [1000.0]
        real_time, real_random = recipes.time.time, recipes.random.random
        started = []
        RealThread = threading.Thread

        class T(RealThread):
            def start(self):
                started.append(self)
                RealThread.start(self)
        try:
            recipes.time.time = lambda: clock[0]
            recipes.random.random = lambda: 1e-300
            recipes.threading.Thread = T
            c2 = diskcache.Cache(d + '/s')
            calls = []

            def g(*args, **kwargs):
                calls.append((args, kwargs))
                clock[0] += 1.0
                return f(*args, **kwargs)
            w = recipes.memoize_stampede(c2, expire=100, typed=True)(g)
            for pos, kw in sigs[:40]:
                for rnd in (1, 2, 3):
                    cases += 1
                    got = w(*pos, **kw)
                    for t in started:
                        t.join()
                    del started[:]
                    if got != f(*pos, **kw) and bad is None:
                        bad = ('memoize_stampede round %d' % rnd, pos, kw, got)
                    key = w.__cache_key__(*pos, **kw)
                    stored = c2.get(key)
                    if stored is not None and stored[0] != f(*pos, **kw) and bad is None:
                        bad = ('memoize_stampede stored entry after round %d' % rnd, pos, kw, stored)
            for a, k in calls:
                pass
        finally:
            recipes.time.time, recipes.random.random = real_time, real_random
            recipes.threading.Thread = RealThread
    finally:
        shutil.rmtree(d, ignore_errors=True)
    return [result('C16.standin.memoizers_return_function_result', bad is None,
                   '%d call signatures (arity <= 2 over 4 values x 4 keyword sets) x 2-3 rounds x 4 memoizers, typed' % len(sigs),
                   cases, None if bad is None else '%s: f(*%r, **%r) gave %r' % bad)]


def C20(tier):
    """Throttle under a virtual clock: starts in every window <= count + rate * width; Averager mean."""
    import diskcache
    from diskcache import recipes
    from fractions import Fraction
    bad = None
    cases = 0
    d = tempfile.mkdtemp()
    try:
        cache = diskcache.Cache(d)
        for count, seconds in ((1, 1), (2, 1), (4, 2), (64, 0.015625), (8, 0.5)):
            for pattern in ('burst', 'just-before-refill', 'trickle'):
                clock = [0.0]
                starts = []

                def time_func():
                    return clock[0]

                spins = [0]

                def sleep_func(x):
                    assert x >= 0
                    spins[0] += 1
                    if spins[0] > 100000:
                        raise RuntimeError('throttle does not make progress under the virtual clock')
                    clock[0] += x

                @recipes.throttle(cache, count, seconds, name='t-%s-%s-%s' % (count, seconds, pattern),
                                  time_func=time_func, sleep_func=sleep_func)
                def f():
                    starts.append(clock[0])
                rate = count / float(seconds)
                for i in range(40 if tier == 'quick' else 200):
                    if pattern == 'just-before-refill' and i % 3 == 0:
                        clock[0] += max(0.0, (1.0 / rate) * (1 - 2.0 ** -12))
                    elif pattern == 'trickle':
                        clock[0] += 0.25 / rate
                    before = clock[0]
                    f()
                    cases += 1
                for i in range(len(starts)):
                    for j in range(i, len(starts)):
                        n = j - i + 1
                        allowed = count + rate * (starts[j] - starts[i]) + 1e-6
                        if n > allowed and bad is None:
                            bad = (count, seconds, pattern, n, starts[i], starts[j], allowed)
        av = recipes.Averager(cache, 'avg')
        vals = [1.5, 2.5, -4.0, 10.0]
        for k, v in enumerate(vals):
            av.add(v)
            cases += 1
            if abs(av.get() - sum(vals[:k + 1]) / (k + 1)) > 1e-9 and bad is None:
                bad = ('averager', k, av.get())
        if av.pop() is None or av.get() is not None:
            bad = bad or ('averager pop',)
    finally:
        shutil.rmtree(d, ignore_errors=True)
    return [result('C20.standin.throttle_window_and_averager', bad is None,
                   '5 rates x 3 arrival patterns x 40-200 calls under a virtual clock; all windows', cases,
                   None if bad is None else repr(bad))]


def main():
    pid, tier = sys.argv[1], (sys.argv[2] if len(sys.argv) > 2 else 'quick')
    f = globals().get(pid)
    if f is None:
        print(json.dumps([]))
        return
    try:
        out = f(tier)
    except Exception:
        import traceback
        out = [{'name': pid + '.standin', 'kind': 'bounded', 'verdict': 'error',
                'detail': traceback.format_exc()[-800:], 'ms': 0}]
    print(json.dumps(out, default=repr))


if __name__ == '__main__':
    main()

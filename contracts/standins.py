"""Bounded stand-ins (DESIGN 2.12): small-scope differential checks of the real
code, run natively under /venv/bin/python.  Used when an obligation is
UNDECIDED (construct outside the engine's subset) and, in the thorough tier,
as a cross-check of the environment contracts.  Labelled bounded; never
counted as proved.

usage: standins.py <Cxx> <tier>   -> one JSON line: list of results
"""
import itertools
import json
import os
import shutil
import sys
import tempfile

sys.path.insert(0, os.path.dirname(os.path.abspath(__file__)))
from replays import same, spec_key_equal, OTHER, nan, inf  # noqa


def result(name, ok, bound, cases, detail=None, recipe=None):
    r = {'name': name, 'kind': 'bounded', 'verdict': 'proved' if ok else 'refuted',
         'bound': bound, 'cases': cases, 'backend': 'native-enumeration', 'ms': 0}
    if detail:
        r['detail'] = detail
    if recipe:
        r['replay'] = {'recipe': recipe}
    return r


def deep_key_equal(a, b):
    """C02 key equality extended to containers: type and structure."""
    if isinstance(a, (tuple, frozenset)) or isinstance(b, (tuple, frozenset)):
        return same_structure(a, b)
    return spec_key_equal(a, b)


def same_structure(a, b):
    if type(a) is not type(b):
        return False
    if isinstance(a, tuple):
        return len(a) == len(b) and all(same_structure(x, y) for x, y in zip(a, b))
    if isinstance(a, frozenset):
        return len(a) == len(b) and all(any(same_structure(x, y) for y in b) for x in a)
    return same(a, b)


KEYS = ['a', b'a', '', b'', 1, 1.0, True, None, 0, 0.0, -0.0, False, 2**63, -2**63, 2**63 - 1, float(2**63),
        2**64, float(2**64), 2**53 + 1, float(2**53), inf, -inf, (1, 2), (1.0, 2), (True, 2), (0.0,), (-0.0,),
        ('a',), (b'a',), frozenset([1]), frozenset([1.0]), (), (None,), 'é', '\x00', b'\x80\x04K\x01.',
        5e-324, 'a-000000000000001']


def C02(tier):
    import diskcache
    import pickle
    out = []
    bad = None
    n = 0
    for disk in (diskcache.Disk,):
        for proto in ((0, 2, pickle.HIGHEST_PROTOCOL) if tier == 'quick' else range(0, pickle.HIGHEST_PROTOCOL + 1)):
            d = tempfile.mkdtemp()
            try:
                c = diskcache.Cache(d, disk=disk, disk_pickle_protocol=proto)
                import pickletools
                # the bytes twin of a tuple key: exactly what Disk.put stores for it
                keys = KEYS + [pickletools.optimize(pickle.dumps((1, 2), protocol=proto)), pickle.dumps((1, 2), protocol=proto)]
                for k1, k2 in itertools.permutations(keys, 2):
                    n += 1
                    c.clear()
                    _ = k1 in c, k2 in c
                    c[k1] = 'one'
                    c[k2] = 'two'
                    shared = len(c) == 1
                    exp = deep_key_equal(k1, k2)
                    got = list(c)
                    if not exp and bad is None:
                        # every lookup site addresses (key, raw): nothing done to k2 touches the entry of k1
                        c.clear()
                        c.set(k1, 'one', expire=1000, tag='t1')
                        probes = [('in', k2 in c), ('get', c.get(k2)), ('touch', c.touch(k2, expire=-5)), ('pop', c.pop(k2)),
                                  ('delete', c.delete(k2)), ('add', c.add(k2, 'two'))]
                        want = [('in', False), ('get', None), ('touch', False), ('pop', None), ('delete', False), ('add', True)]
                        try:
                            c.incr(k2, default=None)
                            probes.append(('incr', 'no KeyError'))
                        except (KeyError, TypeError):
                            pass
                        c.delete(k2)
                        after = c.get(k1, expire_time=True, tag=True)
                        if probes != want or after[0] != 'one' or after[2] != 't1' or after[1] is None or len(c) != 1:
                            bad = (proto, k1, k2, 'operations on the second key gave %r and left the first as %r' % (probes, after), exp, list(c))
                    ok = shared == exp and (shared or (same_structure(got[0], k1) and same_structure(got[1], k2)))
                    if not ok and bad is None:
                        bad = (proto, k1, k2, shared, exp, got)
            finally:
                shutil.rmtree(d, ignore_errors=True)
    # two rows that share a database key and differ in `raw` only (a tuple and the bytes equal to its pickle),
    # sitting at every position relative to the 100-row pages of sorted iteration
    bad2 = None
    for above in (0, 1, 3, 98, 99, 100, 101, 199, 200):
        n += 1
        d = tempfile.mkdtemp()
        try:
            c = diskcache.Cache(d)
            twin = bytes(c.disk.put((1, 2))[0])
            stored = [(1, 2), twin, 5, 6, 'a', 'b']
            # blobs sorting above the pair (longer common prefix does not matter: compare bytewise)
            stored += [twin + bytes([255]) + str(i).zfill(4).encode() for i in range(above)]
            for k in stored:
                c[k] = 1
            fwd = list(c.iterkeys())
            rev = list(c.iterkeys(reverse=True))
            ok = len(fwd) == len(stored) and len(rev) == len(stored) and [repr(x) for x in rev] == [repr(x) for x in reversed(fwd)] \
                and sorted(map(repr, fwd)) == sorted(map(repr, stored))
            if not ok and bad2 is None:
                bad2 = '%d keys above the twin pair: iterkeys() gave %d keys, iterkeys(reverse=True) %d, stored %d; reverse is the mirror image: %s' % (
                    above, len(fwd), len(rev), len(stored), [repr(x) for x in rev] == [repr(x) for x in reversed(fwd)])
        finally:
            shutil.rmtree(d, ignore_errors=True)
    out.append(result('C02.standin.twin_keys_in_sorted_iteration', bad2 is None,
                      'a tuple key and its bytes twin with 0..200 keys above them, both directions of iterkeys', 9, bad2))
    out.append(result('C02.standin.alias_and_iteration', bad is None,
                      'all ordered pairs of %d corpus keys x pickle protocols, Disk' % (len(KEYS) + 1), n,
                      None if bad is None else 'protocol %r: keys %r and %r: shared=%r expected=%r iteration=%r' % bad,
                      None if bad is None else {'func': 'c02_alias_deep', 'k1': repr(bad[1]), 'k2': repr(bad[2]),
                                                'protocol': bad[0]}))
    return out


def C16(tier):
    """Every memoizer returns what the function returns, for a small alphabet of call signatures,
    including stampede's early recomputation (forced by a controlled clock / random source)."""
    import threading
    import diskcache
    from diskcache import recipes
    sigs = []
    vals = [1, 1.0, None, 'a', True]
    for n in range(0, 3):
        for pos in itertools.product(vals[:4], repeat=n):
            for kw in ({}, {'a': None}, {'a': 1, 'b': 'a'}, {'b': 2}):
                sigs.append((pos, kw))
    if tier == 'quick':
        sigs = sigs[::3]
    bad = None
    cases = 0

    def f(*args, **kwargs):
        return ('R', tuple((type(a).__name__, a) for a in args),
                tuple(sorted((k, type(v).__name__, v) for k, v in kwargs.items())))
    d = tempfile.mkdtemp()
    try:
        makers = []
        c1 = diskcache.Cache(d + '/c')
        makers.append(('Cache.memoize', c1.memoize(typed=True)(f)))
        fc = diskcache.FanoutCache(d + '/f', shards=2)
        makers.append(('FanoutCache.memoize', fc.memoize(typed=True)(f)))
        ix = diskcache.Index(d + '/i')
        makers.append(('Index.memoize', ix.memoize(typed=True)(f)))
        for name, w in makers:
            for pos, kw in sigs:
                for rnd in (1, 2):
                    cases += 1
                    got = w(*pos, **kw)
                    if got != f(*pos, **kw) and bad is None:
                        bad = (name, pos, kw, got)
        # ignored arguments are left out of the key but still reach the function (each call a miss)
        for ign in ({'a'}, {0, 'b'}, {1, 'a', 'b'}):
            c3 = diskcache.Cache(d + '/g')
            for name, w in (('Cache.memoize(ignore=%r)' % (ign,), c3.memoize(typed=True, ignore=ign)(f)),
                            ('memoize_stampede(ignore=%r)' % (ign,), recipes.memoize_stampede(c3, expire=100, ignore=ign)(f))):
                for pos, kw in sigs:
                    cases += 1
                    c3.clear()
                    got = w(*pos, **kw)
                    if got != f(*pos, **kw) and bad is None:
                        bad = (name, pos, kw, got)
            c3.close()
        # stampede with forced early recomputation
        clock = [1000.0]
        real_time, real_random = recipes.time.time, recipes.random.random
        started = []
        RealThread = threading.Thread

        class T(RealThread):
            def start(self):
                started.append(self)
                RealThread.start(self)
        try:
            recipes.time.time = lambda: clock[0]
            recipes.random.random = lambda: 1e-300
            recipes.threading.Thread = T
            c2 = diskcache.Cache(d + '/s')
            calls = []

            def g(*args, **kwargs):
                calls.append((args, kwargs))
                clock[0] += 1.0
                return f(*args, **kwargs)
            w = recipes.memoize_stampede(c2, expire=100, typed=True)(g)
            for pos, kw in sigs[:40]:
                for rnd in (1, 2, 3):
                    cases += 1
                    got = w(*pos, **kw)
                    for t in started:
                        t.join()
                    del started[:]
                    if got != f(*pos, **kw) and bad is None:
                        bad = ('memoize_stampede round %d' % rnd, pos, kw, got)
                    key = w.__cache_key__(*pos, **kw)
                    stored = c2.get(key)
                    if stored is not None and stored[0] != f(*pos, **kw) and bad is None:
                        bad = ('memoize_stampede stored entry after round %d' % rnd, pos, kw, stored)
            for a, k in calls:
                pass
        finally:
            recipes.time.time, recipes.random.random = real_time, real_random
            recipes.threading.Thread = RealThread
    finally:
        shutil.rmtree(d, ignore_errors=True)
    return [result('C16.standin.memoizers_return_function_result', bad is None,
                   '%d call signatures (arity <= 2 over 4 values x 4 keyword sets) x 2-3 rounds x 4 memoizers, typed' % len(sigs),
                   cases, None if bad is None else '%s: f(*%r, **%r) gave %r' % bad)]


def C20(tier):
    """Throttle under a virtual clock: starts in every window <= count + rate * width; Averager mean."""
    import diskcache
    from diskcache import recipes
    from fractions import Fraction
    bad = None
    cases = 0
    d = tempfile.mkdtemp()
    try:
        cache = diskcache.Cache(d)
        for count, seconds in ((1, 1), (2, 1), (4, 2), (64, 0.015625), (8, 0.5)):
            for pattern in ('burst', 'just-before-refill', 'trickle'):
                clock = [0.0]
                starts = []

                def time_func():
                    return clock[0]

                spins = [0]

                def sleep_func(x):
                    assert x >= 0
                    spins[0] += 1
                    if spins[0] > 100000:
                        raise RuntimeError('throttle does not make progress under the virtual clock')
                    clock[0] += x

                @recipes.throttle(cache, count, seconds, name='t-%s-%s-%s' % (count, seconds, pattern),
                                  time_func=time_func, sleep_func=sleep_func)
                def f():
                    starts.append(clock[0])
                rate = count / float(seconds)
                for i in range(40 if tier == 'quick' else 200):
                    if pattern == 'just-before-refill' and i % 3 == 0:
                        clock[0] += max(0.0, (1.0 / rate) * (1 - 2.0 ** -12))
                    elif pattern == 'trickle':
                        clock[0] += 0.25 / rate
                    before = clock[0]
                    f()
                    cases += 1
                for i in range(len(starts)):
                    for j in range(i, len(starts)):
                        n = j - i + 1
                        allowed = count + rate * (starts[j] - starts[i]) + 1e-6
                        if n > allowed and bad is None:
                            bad = (count, seconds, pattern, n, starts[i], starts[j], allowed)
        av = recipes.Averager(cache, 'avg')
        vals = [1.5, 2.5, -4.0, 10.0]
        for k, v in enumerate(vals):
            av.add(v)
            cases += 1
            if abs(av.get() - sum(vals[:k + 1]) / (k + 1)) > 1e-9 and bad is None:
                bad = ('averager', k, av.get())
        if av.pop() is None or av.get() is not None:
            bad = bad or ('averager pop',)
    finally:
        shutil.rmtree(d, ignore_errors=True)
    return [result('C20.standin.throttle_window_and_averager', bad is None,
                   '5 rates x 3 arrival patterns x 40-200 calls under a virtual clock; all windows', cases,
                   None if bad is None else repr(bad))]


def main():
    pid, tier = sys.argv[1], (sys.argv[2] if len(sys.argv) > 2 else 'quick')
    f = globals().get(pid)
    if f is None:
        print(json.dumps([]))
        return
    try:
        out = f(tier)
    except Exception:
        import traceback
        out = [{'name': pid + '.standin', 'kind': 'bounded', 'verdict': 'error',
                'detail': traceback.format_exc()[-800:], 'ms': 0}]
    print(json.dumps(out, default=repr))




# ====================================================================== reference dictionary (C03/C04/C09/C10)
class RefItem:
    __slots__ = ('value', 'expire', 'tag', 'store', 'access', 'count')


class CK:
    """Key under the documented equality (C02): native numbers compare numerically, bool/None/containers
    by type and structure; an entry keeps the key object it was created with."""

    def __init__(self, k):
        self.k = k
        if type(k) in (int, float) and (type(k) is float or -2 ** 63 <= k < 2 ** 63):
            self.c = ('num', k)
        else:
            self.c = (type(k).__name__, k)

    def __hash__(self):
        return hash(self.c)

    def __eq__(self, o):
        return self.c == o.c

    def __repr__(self):
        return repr(self.k)


class KeyedDict(dict):
    def __getitem__(self, k):
        return dict.__getitem__(self, CK(k))

    def __setitem__(self, k, v):
        dict.__setitem__(self, CK(k), v)

    def __delitem__(self, k):
        dict.__delitem__(self, CK(k))

    def __contains__(self, k):
        return dict.__contains__(self, CK(k))

    def get(self, k, d=None):
        return dict.get(self, CK(k), d)

    def pop(self, k, *a):
        return dict.pop(self, CK(k), *a)

    def __iter__(self):
        return (ck.k for ck in dict.__iter__(self))

    def items(self):
        return ((ck.k, v) for ck, v in dict.items(self))


class RefCache:
    """Reference: insertion-ordered dictionary whose items carry expiry and tag; written from the
    statements of C03/C04 (visible <=> no expiry or now < expire_time)."""

    def __init__(self):
        self.d = KeyedDict()    # key -> RefItem, insertion ordered (overwrite keeps position and key object)
        self.hits = self.misses = 0

    def vis(self, k, now):
        it = self.d.get(k)
        return it is not None and (it.expire is None or now < it.expire)

    def set(self, k, v, expire, tag, now):
        it = self.d.get(k) or RefItem()
        it.value, it.expire, it.tag = v, (None if expire is None else now + expire), tag
        it.store = it.access = now
        it.count = 0
        self.d[k] = it
        return True

    def add(self, k, v, expire, tag, now):
        if self.vis(k, now):
            return False
        return self.set(k, v, expire, tag, now)

    def get(self, k, default, now, stats, policy=None):
        if self.vis(k, now):
            if stats:
                self.hits += 1
            # C09: a read counts for the usage-based policies (and only under them is it recorded)
            if policy == 'least-recently-used':
                self.d[k].access = now
            elif policy == 'least-frequently-used':
                self.d[k].count += 1
            return self.d[k]
        if stats:
            self.misses += 1
        return None

    def touch(self, k, expire, now):
        if not self.vis(k, now):
            return False
        self.d[k].expire = None if expire is None else now + expire
        return True

    def incr(self, k, delta, default, now, policy=None):
        if self.vis(k, now):
            it = self.d[k]
            it.value += delta
            it.store = now          # incr reads the value and stores a new one: a store and a read
            if policy == 'least-recently-used':
                it.access = now
            elif policy == 'least-frequently-used':
                it.count += 1
            return it.value
        if default is None:
            raise KeyError(k)
        self.set(k, default + delta, None, None, now)
        return default + delta

    def pop(self, k, now):
        if self.vis(k, now):
            return self.d.pop(k)
        return None

    def expire(self, now):
        gone = [k for k, it in self.d.items() if it.expire is not None and it.expire < now]
        keep = [k for k, it in self.d.items() if it.expire is not None and it.expire == now]
        for k in gone:
            del self.d[k]
        return len(gone), keep

    def evict(self, tag):
        gone = [k for k, it in self.d.items() if it.tag == tag and tag is not None]
        for k in gone:
            del self.d[k]
        return len(gone)


def _cmp_columns(c, ref, where):
    """Row metadata against the reference: expiry, tag, and what the eviction policies order by (a set /
    successful add is a fresh store: stored and used now, not read since; a read hit counts under the
    usage-based policies)."""
    rows = c._sql('SELECT rowid, store_time, expire_time, access_time, access_count, tag FROM Cache ORDER BY rowid').fetchall()
    items = list(ref.d.items())
    if len(rows) != len(items):
        return None         # reported by the key comparison
    for (rowid, st_, et, at, ac, tag), (k, it) in zip(rows, items):
        exp = (it.store, it.expire, it.access, it.count, it.tag)
        got = (st_, et, at, ac, tag)
        if got != exp:
            return '%s: row of key %r has (store_time, expire_time, access_time, access_count, tag) = %r, reference %r' % (where, k, got, exp)
    return None


def _cmp_state(c, ref, now, where):
    bad = _cmp_columns(c, ref, where)
    if bad:
        return bad
    keys = list(c)
    if not (len(keys) == len(ref.d) and all(same(x, y) for x, y in zip(keys, list(ref.d)))):
        return '%s: iteration %r, reference %r' % (where, keys[:12], list(ref.d)[:12])
    if [repr(x) for x in reversed(c)] != [repr(x) for x in reversed(list(ref.d))]:
        return '%s: reversed iteration differs' % where
    if len(c) != len(ref.d):
        return '%s: len %d, reference %d' % (where, len(c), len(ref.d))
    return None


def _history(seed, steps, policy, stats, big, core, diskcache, cull_limit=0):
    import random
    rnd = random.Random(seed)
    d = tempfile.mkdtemp()
    clock = [1000.0]
    real = core.time.time
    core.time.time = lambda: clock[0]
    try:
        c = diskcache.Cache(d, eviction_policy=policy, cull_limit=cull_limit, statistics=stats,
                            disk_min_file_size=(8 if big else 2 ** 15), tag_index=bool(seed % 2))
        ref = RefCache()
        import pickle, pickletools
        keys = ['a', 'b', 'c', 1, 2.5, b'a', (1, 2), None,
                pickletools.optimize(pickle.dumps((1, 2), protocol=pickle.HIGHEST_PROTOCOL)), 1.0, True]
        vals = [0, 1, -3, 2.5, 'x' * 20, b'y' * 20, None, (1, 'z'), float('inf')]
        ttls = [None, 5, 0, -1, 0.5, 100, 3]
        tags = [None, 't1', 't2']
        for step in range(steps):
            op = rnd.choice(['set', 'set', 'add', 'get', 'get', 'touch', 'incr', 'decr', 'pop', 'delete', 'in',
                             'tick', 'tick', 'expire', 'evict', 'stats', 'getx', 'peekitem', 'tick0'])
            k = rnd.choice(keys)
            now = clock[0]
            where = 'seed %d step %d %s(%r) at t=%r' % (seed, step, op, k, now)
            if op == 'tick':
                clock[0] += rnd.choice([0.5, 1, 2, 2.5, 5])
            elif op == 'tick0':
                # land exactly on an expiry time when there is one
                exps = sorted(it.expire for it in ref.d.values() if it.expire is not None and it.expire > now)
                if exps:
                    clock[0] = exps[0]
            elif op == 'set':
                v, ttl, tag = rnd.choice(vals), rnd.choice(ttls), rnd.choice(tags)
                if c.set(k, v, expire=ttl, tag=tag) is not True:
                    return where + ': set did not return True'
                ref.set(k, v, ttl, tag, now)
            elif op == 'add':
                v, ttl, tag = rnd.choice(vals), rnd.choice(ttls), rnd.choice(tags)
                got, exp = c.add(k, v, expire=ttl, tag=tag), ref.add(k, v, ttl, tag, now)
                if got != exp:
                    return where + ': add returned %r, reference %r' % (got, exp)
            elif op in ('get', 'getx'):
                it = ref.get(k, None, now, stats, policy)
                if op == 'get':
                    got = c.get(k, default='MISS')
                    exp = 'MISS' if it is None else it.value
                    if not same(got, exp):
                        return where + ': get returned %r, reference %r' % (got, exp)
                else:
                    got = c.get(k, default='MISS', expire_time=True, tag=True)
                    exp = ('MISS', None, None) if it is None else (it.value, it.expire, it.tag)
                    if not (same(got[0], exp[0]) and got[1:] == exp[1:]):
                        return where + ': get(expire_time, tag) returned %r, reference %r' % (got, exp)
            elif op == 'touch':
                ttl = rnd.choice(ttls)
                got, exp = c.touch(k, expire=ttl), ref.touch(k, ttl, now)
                if got != exp:
                    return where + ': touch returned %r, reference %r' % (got, exp)
            elif op in ('incr', 'decr'):
                if k in ref.d and ref.vis(k, now) and not (type(ref.d[k].value) in (int, float) and ref.d[k].value == ref.d[k].value and abs(ref.d[k].value) != float('inf')):
                    continue        # incr is specified for values held natively as finite numbers
                delta = rnd.choice([1, 2, -1]) * (1 if op == 'incr' else -1)
                default = rnd.choice([0, 10, None])
                try:
                    exp = ref.incr(k, delta, default, now, policy)
                except KeyError:
                    exp = KeyError
                try:
                    got = c.incr(k, delta, default) if op == 'incr' else c.decr(k, -delta, default)
                except KeyError:
                    got = KeyError
                if got != exp:
                    return where + ': %s returned %r, reference %r' % (op, got, exp)
            elif op == 'pop':
                it = ref.pop(k, now)
                got = c.pop(k, default='MISS')
                exp = 'MISS' if it is None else it.value
                if not same(got, exp):
                    return where + ': pop returned %r, reference %r' % (got, exp)
            elif op == 'delete':
                it = ref.pop(k, now)
                got = c.delete(k)
                if got != (it is not None):
                    return where + ': delete returned %r, reference %r' % (got, it is not None)
            elif op == 'in':
                if (k in c) != ref.vis(k, now):
                    return where + ': membership %r, reference %r' % (k in c, ref.vis(k, now))
            elif op == 'expire':
                n, boundary = ref.expire(now)
                got = c.expire()
                if got != n:
                    return where + ': expire() returned %r, reference %r' % (got, n)
            elif op == 'evict':
                tag = rnd.choice(tags)
                got, exp = c.evict(tag), ref.evict(tag)
                if got != exp:
                    return where + ': evict returned %r, reference %r' % (got, exp)
            elif op == 'stats':
                got = c.stats(enable=stats)
                if stats and got != (ref.hits, ref.misses):
                    return where + ': stats %r, reference %r' % (got, (ref.hits, ref.misses))
            elif op == 'peekitem' and ref.d:
                # specified for a live last item; expired ends are removed by peekitem itself
                last = list(ref.d)[-1]
                if ref.vis(last, now):
                    gk, gv = c.peekitem()
                    if not (same(gk, last) and same(gv, ref.d[last].value)):
                        return where + ': peekitem returned %r' % ((gk, gv),)
            if cull_limit:
                # lazy culling: a write may remove up to cull_limit items whose expiry time has passed --
                # nothing else; the reference follows whatever was (legitimately) removed
                have = list(c)
                gone = [k for k in list(ref.d) if not any(same(k, h) for h in have)]
                for k in gone:
                    it_ = ref.d[k]
                    if it_.expire is None or not (it_.expire < clock[0]):
                        return where + ': item %r (expire %r) vanished although it has not expired' % (k, it_.expire)
                if len(gone) > cull_limit:
                    return where + ': %d items culled by one operation, cull_limit %d' % (len(gone), cull_limit)
                if gone and op not in ('set', 'add', 'incr', 'decr'):
                    return where + ': items %r removed by a non-writing operation' % (gone,)
                for k in gone:
                    del ref.d[k]
            bad = _cmp_state(c, ref, clock[0], where)
            if bad:
                return bad
        w = c.check()
        if w:
            return 'seed %d: check() reports %r after the history' % (seed, [str(x.message) for x in w][:3])
        return None
    finally:
        core.time.time = real
        shutil.rmtree(d, ignore_errors=True)


def _bulk(core, diskcache):
    """Bulk removal and iteration far beyond the 100-row page: ties, tags, reversed iteration."""
    d = tempfile.mkdtemp()
    clock = [1000.0]
    real = core.time.time
    core.time.time = lambda: clock[0]
    try:
        c = diskcache.Cache(d, cull_limit=0)
        n = 350
        for i in range(n):
            c.set(i, i, expire=(10 if i % 3 else 20) if i % 7 else None, tag='bulk' if i % 2 else 'keep')
        if list(c) != list(range(n)) or list(reversed(c)) != list(range(n - 1, -1, -1)):
            return 'iteration over %d items is not insertion order' % n
        if list(c.iterkeys()) != sorted(range(n)) or list(c.iterkeys(reverse=True)) != sorted(range(n), reverse=True):
            return 'iterkeys over %d items is not sorted order' % n
        # evict more than one page of one tag, before anything else is removed
        c2 = diskcache.Cache(d + '/second', cull_limit=0, tag_index=True)
        for i in range(260):
            c2.set(('k', i), i, tag='bulk' if i % 5 else 'keep')
        expb2 = len([i for i in range(260) if i % 5])
        gotb2 = c2.evict('bulk')
        if gotb2 != expb2 or len(c2) != 260 - expb2 or any(c2.get(('k', i), tag=True)[1] != 'keep' for i in range(0, 260, 5)):
            return "evict('bulk') removed %d of %d tagged items (left %d)" % (gotb2, expb2, len(c2))
        c2.close()
        clock[0] += 15
        exp = len([i for i in range(n) if i % 7 and i % 3])
        got = c.expire()
        if got != exp or len(c) != n - exp:
            return 'expire() removed %d of %d expired items (many share one expiry time)' % (got, exp)
        left = [i for i in range(n) if not (i % 7 and i % 3)]
        expb = len([i for i in left if i % 2])
        gotb = c.evict('bulk')
        if gotb != expb or len(c) != len(left) - expb:
            return "evict('bulk') removed %d of %d tagged items" % (gotb, expb)
        rest = len(c)
        if c.clear() != rest or len(c) != 0 or list(c) != []:
            return 'clear() did not remove all %d items' % rest
        return None
    finally:
        core.time.time = real
        shutil.rmtree(d, ignore_errors=True)


def _cull_relation(core, diskcache, tier):
    """One write removes only expired items and -- only at the size limit, in policy order -- evicted
    ones, at most cull_limit in total; cull() returns what it removed."""
    import random
    rnd = random.Random(7)
    for policy, col in (('least-recently-stored', 'store'), ('least-recently-used', 'access'),
                        ('least-frequently-used', 'count'), ('none', None)):
        for cull_limit in (0, 1, 2, 10):
            for nexp in (0, 1, 3, 12):
                d = tempfile.mkdtemp()
                clock = [1000.0]
                real = core.time.time
                core.time.time = lambda: clock[0]
                try:
                    c = diskcache.Cache(d, eviction_policy=policy, cull_limit=0, size_limit=2 ** 30,
                                        disk_min_file_size=64)
                    meta = {}
                    for i in range(30):
                        clock[0] += 1
                        ttl = 5 if i < nexp else None
                        c.set('k%d' % i, b'v' * 200, expire=ttl)
                        meta['k%d' % i] = dict(store=clock[0], access=clock[0], count=0, exp=None if ttl is None else clock[0] + ttl)
                    for i in rnd.sample(range(nexp, 30), 8):
                        clock[0] += 1
                        c.get('k%d' % i)
                        if policy == 'least-recently-used':
                            meta['k%d' % i]['access'] = clock[0]
                        if policy == 'least-frequently-used':
                            meta['k%d' % i]['count'] += 1
                    # overwriting an item is a fresh store: stored and used now, never read since
                    for i in rnd.sample(range(nexp, 30), 5):
                        clock[0] += 1
                        c.set('k%d' % i, b'w' * 200)
                        meta['k%d' % i].update(store=clock[0], access=clock[0], count=0)
                    for i in rnd.sample(range(nexp, 30), 4):
                        clock[0] += 1
                        c.get('k%d' % i)
                        if policy == 'least-recently-used':
                            meta['k%d' % i]['access'] = clock[0]
                        if policy == 'least-frequently-used':
                            meta['k%d' % i]['count'] += 1
                    clock[0] += 100
                    for over in (False, True):
                        c.reset('cull_limit', cull_limit)
                        c.reset('size_limit', 1 if over else 2 ** 40)
                        before = set(c)
                        clock[0] += 1
                        c.set('new%s' % over, 1)
                        meta['new%s' % over] = dict(store=clock[0], access=clock[0], count=0, exp=None)
                        after = set(c)
                        gone = before - after
                        where = 'policy %s cull_limit %d expired %d at-limit %s' % (policy, cull_limit, nexp, over)
                        if len(gone) > cull_limit:
                            return where + ': one write removed %d items %r' % (len(gone), sorted(gone))
                        evicted = [k for k in gone if meta[k]['exp'] is None or meta[k]['exp'] >= clock[0]]
                        if evicted and (not over or policy == 'none'):
                            return where + ': evicted live items %r' % evicted
                        if evicted and col:
                            worst = max(meta[k][col] for k in evicted)
                            remaining = [k for k in after if k in meta and k not in gone]
                            if any(meta[k][col] < worst for k in remaining if (meta[k]['exp'] is None or meta[k]['exp'] >= clock[0])):
                                return where + ': evicted %r out of policy order' % evicted
                        c.reset('cull_limit', 0)
                    # explicit cull(): first expired, then until volume <= size_limit or empty
                    c.reset('size_limit', 1)
                    before = len(c)
                    got = c.cull()
                    if got != before - len(c):
                        return 'policy %s: cull() returned %d but removed %d' % (policy, got, before - len(c))
                    if policy != 'none' and len(c) != 0 and c.volume() > 1:
                        return 'policy %s: cull() stopped at volume %d > size_limit with %d items' % (policy, c.volume(), len(c))
                finally:
                    core.time.time = real
                    shutil.rmtree(d, ignore_errors=True)
    return None


def _expired_key_writes(core, diskcache):
    """Every write operation applied to a key whose item has expired but is still physically present,
    with lazy culling enabled: the operation's own item must be there afterwards."""
    for cull_limit in (1, 10):
        for op in ('set', 'add', 'incr', 'decr', 'setitem'):
            d = tempfile.mkdtemp()
            clock = [1000.0]
            real = core.time.time
            core.time.time = lambda: clock[0]
            try:
                c = diskcache.Cache(d, cull_limit=0, disk_min_file_size=32)
                for i in range(3):
                    c.set('other%d' % i, i, expire=5 + i)
                c.set('k', 100, expire=1)
                c.set('live', b'v' * 100)
                clock[0] += 60
                c.reset('cull_limit', cull_limit)
                if op == 'set':
                    c.set('k', 7)
                    want = 7
                elif op == 'setitem':
                    c['k'] = 7
                    want = 7
                elif op == 'add':
                    if c.add('k', 7) is not True:
                        return 'add over an expired item returned False (cull_limit %d)' % cull_limit
                    want = 7
                elif op == 'incr':
                    want = c.incr('k', 2, default=5)
                    if want != 7:
                        return 'incr over an expired item returned %r' % (want,)
                else:
                    want = c.decr('k', 2, default=9)
                got = c.get('k', default='MISSING')
                if got != want or 'k' not in c or 'k' not in list(c):
                    return '%s on an expired-but-present key with cull_limit %d: afterwards get -> %r, expected %r' % (op, cull_limit, got, want)
                if c.get('live') != b'v' * 100:
                    return '%s culled a live item' % op
                if c.check():
                    return '%s left an inconsistent cache: %r' % (op, [str(w.message) for w in c.check()][:2])
            finally:
                core.time.time = real
                shutil.rmtree(d, ignore_errors=True)
    return None


def _dict_standin(pid, tier):
    import diskcache
    from diskcache import core
    seed0 = int(os.environ.get('VERIF_SEED', '0') or 0)
    nh, steps = (24, 70) if tier == 'quick' else (240, 120)
    bad = None
    cases = 0
    for i in range(nh):
        pol = ['least-recently-stored', 'least-recently-used', 'least-frequently-used', 'none'][i % 4]
        try:
            bad = _history(seed0 * 1000 + i, steps, pol, stats=bool(i % 3 == 0), big=bool(i % 2), core=core, diskcache=diskcache,
                           cull_limit=(0, 0, 1, 2, 10)[i % 5])
        except Exception as e:
            import traceback
            bad = 'history seed %d raised %r: %s' % (seed0 * 1000 + i, e, traceback.format_exc()[-300:])
        cases += steps
        if bad:
            break
    out = [result(pid + '.standin.reference_dictionary_histories', bad is None,
                  '%d random histories x %d steps over 8 keys, 9 values, 7 ttls, 3 tags, mocked clock, 4 policies, cull_limit in {0,1,2,10}' % (nh, steps),
                  cases, bad)]
    try:
        b4 = _expired_key_writes(core, diskcache)
    except Exception as e:
        b4 = 'expired-key scenario raised %r' % (e,)
    out.append(result(pid + '.standin.writes_over_expired_items', b4 is None,
                      '5 write operations x cull_limit {1,10} on an expired-but-present key', 10, b4))
    try:
        b2 = _bulk(core, diskcache)
    except Exception as e:
        b2 = 'bulk scenario raised %r' % (e,)
    out.append(result(pid + '.standin.bulk_removal_and_iteration', b2 is None, '350 items, ties on expiry time, 2 tags', 350, b2))
    try:
        b3 = _cull_relation(core, diskcache, tier)
    except Exception as e:
        b3 = 'cull scenario raised %r' % (e,)
    out.append(result(pid + '.standin.cull_relation', b3 is None,
                      '4 policies x cull_limit {0,1,2,10} x expired {0,1,3,12} x at/below size limit; cull()', 128, b3))
    return out


def C03(tier):
    return _dict_standin('C03', tier)


def C04(tier):
    return _dict_standin('C04', tier)


def C09(tier):
    return _dict_standin('C09', tier)




# ====================================================================== Deque / Index (C11 / C12)
def C11(tier):
    import collections
    import pickle
    import random
    import diskcache
    seed0 = int(os.environ.get('VERIF_SEED', '0') or 0)
    nh, steps = (16, 60) if tier == 'quick' else (120, 120)
    bad = None
    cases = 0
    vals = [0, 1, 2, 'a', 'b', b'x' * 40, None, (1, 2), 2.5]
    for h in range(nh):
        rnd = random.Random(seed0 * 1000 + h)
        maxlen = rnd.choice([None, 0, 1, 3, 5])
        d = tempfile.mkdtemp()
        try:
            dq = diskcache.Deque(directory=d, maxlen=maxlen)
            dq.cache.reset('disk_min_file_size', 16)
            ref = collections.deque(maxlen=maxlen)
            for step in range(steps):
                op = rnd.choice(['append', 'appendleft', 'extend', 'extendleft', 'pop', 'popleft', 'peek', 'peekleft',
                                 'getitem', 'setitem', 'delitem', 'rotate', 'reverse', 'remove', 'count', 'cmp', 'iter',
                                 'clear', 'reopen', 'pickle', 'copy', 'maxlen', 'len'])
                where = 'history %d (maxlen %r) step %d %s' % (h, maxlen, step, op)
                cases += 1
                v = rnd.choice(vals)
                i = rnd.randint(-7, 7)

                def both(f, g):
                    try:
                        a = f()
                        ea = None
                    except Exception as e:
                        a, ea = None, type(e)
                    try:
                        b = g()
                        eb = None
                    except Exception as e:
                        b, eb = None, type(e)
                    return a, ea, b, eb
                if op in ('append', 'appendleft'):
                    getattr(dq, op)(v)
                    getattr(ref, op)(v)
                elif op in ('extend', 'extendleft'):
                    xs = [rnd.choice(vals) for _ in range(rnd.randint(0, 3))]
                    getattr(dq, op)(xs)
                    getattr(ref, op)(xs)
                elif op in ('pop', 'popleft'):
                    a, ea, b, eb = both(getattr(dq, op), getattr(ref, op))
                    if ea != eb or not same(a, b):
                        bad = where + ': %r/%r vs deque %r/%r' % (a, ea, b, eb)
                elif op in ('peek', 'peekleft'):
                    a, ea, b, eb = both(getattr(dq, op), lambda: ref[-1] if op == 'peek' else ref[0])
                    if ea != eb or not same(a, b):
                        bad = where + ': %r/%r vs deque %r/%r' % (a, ea, b, eb)
                elif op == 'getitem':
                    a, ea, b, eb = both(lambda: dq[i], lambda: ref[i])
                    if ea != eb or not same(a, b):
                        bad = where + ' [%d]: %r/%r vs deque %r/%r' % (i, a, ea, b, eb)
                elif op == 'setitem':
                    def s1():
                        dq[i] = v

                    def s2():
                        ref[i] = v
                    a, ea, b, eb = both(s1, s2)
                    if ea != eb:
                        bad = where + ' [%d]: %r vs deque %r' % (i, ea, eb)
                elif op == 'delitem':
                    def d1():
                        del dq[i]

                    def d2():
                        del ref[i]
                    a, ea, b, eb = both(d1, d2)
                    if ea != eb:
                        bad = where + ' [%d]: %r vs deque %r' % (i, ea, eb)
                elif op == 'rotate':
                    dq.rotate(i)
                    ref.rotate(i)
                elif op == 'reverse':
                    dq.reverse()
                    ref.reverse()
                elif op == 'remove':
                    a, ea, b, eb = both(lambda: dq.remove(v), lambda: ref.remove(v))
                    if ea != eb:
                        bad = where + ' (%r): %r vs deque %r' % (v, ea, eb)
                elif op == 'count':
                    if dq.count(v) != ref.count(v):
                        bad = where + ' (%r): %r vs %r' % (v, dq.count(v), ref.count(v))
                elif op == 'cmp':
                    other = collections.deque(list(ref)[:rnd.randint(0, len(ref) + 1)] + ([v] if rnd.random() < .5 else []))
                    comparable = all(type(x) in (int, float) for x in list(ref) + list(other))
                    for nm in ('__eq__', '__ne__') + (('__lt__', '__le__', '__gt__', '__ge__') if comparable else ()):
                        if getattr(dq, nm)(other) != getattr(ref, nm)(other):
                            bad = where + ' %s(%r): %r vs %r' % (nm, list(other), getattr(dq, nm)(other), getattr(ref, nm)(other))
                elif op == 'iter':
                    if not (len(list(dq)) == len(ref) and all(same(x, y) for x, y in zip(dq, ref))
                            and all(same(x, y) for x, y in zip(reversed(dq), reversed(ref)))):
                        bad = where + ': %r vs %r' % (list(dq), list(ref))
                elif op == 'clear':
                    dq.clear()
                    ref.clear()
                elif op == 'reopen':
                    dq.cache.close()
                    dq = diskcache.Deque(directory=d, maxlen=maxlen)
                elif op == 'pickle':
                    dq = pickle.loads(pickle.dumps(dq))
                elif op == 'copy':
                    dq = dq.copy()
                elif op == 'maxlen' and maxlen is not None:
                    maxlen = rnd.choice([1, 3, 5])
                    dq.maxlen = maxlen
                    ref = collections.deque(ref, maxlen=maxlen)
                if bad is None and not (len(dq) == len(ref) and all(same(x, y) for x, y in zip(dq, ref))):
                    bad = where + ': contents %r vs deque %r' % (list(dq), list(ref))
                if bad:
                    break
            if bad is None and dq.cache.check():
                bad = 'history %d: check() reports %r' % (h, [str(w.message) for w in dq.cache.check()][:2])
        except Exception as e:
            import traceback
            bad = bad or 'history %d raised %r %s' % (h, e, traceback.format_exc()[-300:])
        finally:
            shutil.rmtree(d, ignore_errors=True)
        if bad:
            break
    return [result('C11.standin.deque_histories', bad is None,
                   '%d random histories x %d steps, maxlen in {None,0,1,3,5}, indices -7..7, reopen/pickle/copy' % (nh, steps), cases, bad)]


def C12(tier):
    import collections
    import pickle
    import random
    import diskcache
    seed0 = int(os.environ.get('VERIF_SEED', '0') or 0)
    nh, steps = (16, 60) if tier == 'quick' else (120, 120)
    bad = None
    cases = 0
    keys = ['a', 'b', 'c', 1, 2.5, b'k', (1, 2), None]
    vals = [0, 1, 'x', b'y' * 40, None, (1, 'z'), 2.5]
    for h in range(nh):
        rnd = random.Random(seed0 * 1000 + h)
        d = tempfile.mkdtemp()
        try:
            ix = diskcache.Index(d)
            ix.cache.reset('disk_min_file_size', 16)
            ref = collections.OrderedDict()
            for step in range(steps):
                op = rnd.choice(['set', 'set', 'get', 'del', 'pop', 'popitem', 'popitem0', 'setdefault', 'update', 'views',
                                 'eq', 'iter', 'clear', 'reopen', 'pickle', 'peekitem', 'len', 'in'])
                k, v = rnd.choice(keys), rnd.choice(vals)
                where = 'history %d step %d %s(%r)' % (h, step, op, k)
                cases += 1

                def both(f, g):
                    try:
                        a, ea = f(), None
                    except Exception as e:
                        a, ea = None, type(e)
                    try:
                        b, eb = g(), None
                    except Exception as e:
                        b, eb = None, type(e)
                    return a, ea, b, eb
                if op == 'set':
                    ix[k] = v
                    ref[k] = v
                elif op == 'get':
                    a, ea, b, eb = both(lambda: ix[k], lambda: ref[k])
                    if ea != eb or not same(a, b):
                        bad = where + ': %r/%r vs %r/%r' % (a, ea, b, eb)
                elif op == 'del':
                    def d1():
                        del ix[k]

                    def d2():
                        del ref[k]
                    a, ea, b, eb = both(d1, d2)
                    if ea != eb:
                        bad = where + ': %r vs %r' % (ea, eb)
                elif op == 'pop':
                    if rnd.random() < .5:
                        a, ea, b, eb = both(lambda: ix.pop(k), lambda: ref.pop(k))
                    else:
                        a, ea, b, eb = both(lambda: ix.pop(k, 'D'), lambda: ref.pop(k, 'D'))
                    if ea != eb or not same(a, b):
                        bad = where + ': %r/%r vs %r/%r' % (a, ea, b, eb)
                elif op in ('popitem', 'popitem0'):
                    last = op == 'popitem'
                    a, ea, b, eb = both(lambda: ix.popitem(last=last), lambda: ref.popitem(last=last))
                    if ea != eb or (a is not None and not (same(a[0], b[0]) and same(a[1], b[1]))):
                        bad = where + ': %r/%r vs %r/%r' % (a, ea, b, eb)
                elif op == 'setdefault':
                    a, b = ix.setdefault(k, v), ref.setdefault(k, v)
                    if not same(a, b):
                        bad = where + ': %r vs %r' % (a, b)
                elif op == 'update':
                    items = [(rnd.choice(keys), rnd.choice(vals)) for _ in range(2)]
                    ix.update(items)
                    ref.update(items)
                elif op == 'views':
                    if not (all(same(x, y) for x, y in zip(ix.keys(), ref.keys())) and
                            all(same(x, y) for x, y in zip(ix.values(), ref.values())) and
                            len(list(ix.items())) == len(ref)):
                        bad = where + ': views differ'
                elif op == 'eq':
                    o1 = collections.OrderedDict(ref)
                    o2 = dict(ref)
                    o3 = collections.OrderedDict(reversed(list(ref.items())))
                    for o in (o1, o2, o3):
                        if (ix == o) != (ref == o) or (ix != o) != (ref != o):
                            bad = where + ': equality with %s: %r vs %r' % (type(o).__name__, ix == o, ref == o)
                elif op == 'iter':
                    if not (all(same(x, y) for x, y in zip(ix, ref)) and all(same(x, y) for x, y in zip(reversed(ix), reversed(ref)))):
                        bad = where + ': iteration %r vs %r' % (list(ix), list(ref))
                elif op == 'clear':
                    ix.clear()
                    ref.clear()
                elif op == 'reopen':
                    ix.cache.close()
                    ix = diskcache.Index(d)
                elif op == 'pickle':
                    ix = pickle.loads(pickle.dumps(ix))
                elif op == 'peekitem' and ref:
                    a = ix.peekitem()
                    b = next(reversed(ref.items()))
                    if not (same(a[0], b[0]) and same(a[1], b[1])):
                        bad = where + ': %r vs %r' % (a, b)
                elif op == 'in':
                    if (k in ix) != (k in ref):
                        bad = where + ': %r vs %r' % (k in ix, k in ref)
                if bad is None and not (len(ix) == len(ref) and all(same(x, y) for x, y in zip(ix, ref))):
                    bad = where + ': keys %r vs %r' % (list(ix), list(ref))
                if bad:
                    break
        except Exception as e:
            import traceback
            bad = bad or 'history %d raised %r %s' % (h, e, traceback.format_exc()[-300:])
        finally:
            shutil.rmtree(d, ignore_errors=True)
        if bad:
            break
    out = [result('C12.standin.index_histories', bad is None,
                  '%d random histories x %d steps over 8 keys / 7 values against OrderedDict, reopen/pickle' % (nh, steps), cases, bad)]
    # equality against every small mapping (None values, missing keys, same and different lengths and orders)
    import itertools
    bad2 = None
    n2 = 0
    keys, vals = ['a', 'b', (1, 2)], [None, 0, 1]
    maps = [()]
    for r in (1, 2):
        for ks in itertools.permutations(keys, r):
            for vs in itertools.product(vals, repeat=r):
                maps.append(tuple(zip(ks, vs)))
    d = tempfile.mkdtemp()
    try:
        for i, left in enumerate(maps):
            ix = diskcache.Index(os.path.join(d, 'e%d' % i), list(left))
            ref = collections.OrderedDict(left)
            for right in maps:
                for other in (dict(right), collections.OrderedDict(right)):
                    n2 += 1
                    if (ix == other) != (ref == other) or (ix != other) != (ref != other):
                        bad2 = bad2 or 'Index(%r) == %s(%r) is %r, OrderedDict says %r' % (list(left), type(other).__name__, list(right), ix == other, ref == other)
            ix.cache.close()
            if bad2:
                break
    except Exception as e:
        bad2 = bad2 or 'raised %r' % (e,)
    finally:
        shutil.rmtree(d, ignore_errors=True)
    out.append(result('C12.standin.equality_with_small_mappings', bad2 is None,
                      'all pairs of the %d mappings with <= 2 of 3 keys over values {None, 0, 1}, against dict and OrderedDict' % len(maps), n2, bad2))
    return out


# ====================================================================== queues (C10)
def C10(tier):
    """push/pull/peek against per-prefix reference deques; prefixes that do not extend one another by '-'
    (that interference is the recorded finding), ordinary keys outside the ranges, expiring items."""
    import collections
    import random
    import diskcache
    from diskcache import core
    seed0 = int(os.environ.get('VERIF_SEED', '0') or 0)
    nh, steps = (16, 80) if tier == 'quick' else (120, 160)
    bad = None
    cases = 0
    prefixes = [None, 'q', 'jobs', 'a-b', 'z9', '', 'shard5', '2025-q1']      # digits of the counter may occur in a prefix        # '' is a prefix like any other, not "no prefix"
    for h in range(nh):
        rnd = random.Random(seed0 * 1000 + h)
        d = tempfile.mkdtemp()
        clock = [1000.0]
        real = core.time.time
        core.time.time = lambda: clock[0]
        try:
            c = diskcache.Cache(d, cull_limit=0, disk_min_file_size=16)
            ref = {p: collections.deque() for p in prefixes}
            plain = {}
            for step in range(steps):
                op = rnd.choice(['push', 'push', 'pushf', 'pull', 'pullb', 'peek', 'peekb', 'tick', 'plain', 'plainget'])
                p = rnd.choice(prefixes)
                where = 'history %d step %d %s(prefix=%r) at t=%r' % (h, step, op, p, clock[0])
                cases += 1

                def live(dq, front):
                    # expired items at the chosen end are skipped (and removed)
                    while dq:
                        item = dq[0] if front else dq[-1]
                        if item[2] is not None and item[2] <= clock[0]:
                            dq.popleft() if front else dq.pop()
                        else:
                            return item
                    return None
                if op in ('push', 'pushf'):
                    v = rnd.choice([1, 'v', b'w' * 40, None, (1, 2)])
                    ttl = rnd.choice([None, None, 3, 0])
                    side = 'back' if op == 'push' else 'front'
                    k = c.push(v, prefix=p, side=side, expire=ttl)
                    item = (k, v, None if ttl is None else clock[0] + ttl)
                    ref[p].append(item) if side == 'back' else ref[p].appendleft(item)
                    if c.get(k) is None and v is not None and ttl != 0:
                        bad = where + ': key %r returned by push does not identify the item' % (k,)
                elif op in ('pull', 'pullb', 'peek', 'peekb'):
                    front = op in ('pull', 'peek')
                    exp = live(ref[p], front)
                    f = c.pull if op.startswith('pull') else c.peek
                    got = f(prefix=p, side='front' if front else 'back', default=('EMPTY', None))
                    if exp is None:
                        if got != ('EMPTY', None):
                            bad = where + ': returned %r from an empty queue' % (got,)
                    else:
                        if not (got[0] == exp[0] and same(got[1], exp[1])):
                            bad = where + ': returned %r, reference %r' % (got, exp[:2])
                        if op.startswith('pull'):
                            ref[p].popleft() if front else ref[p].pop()
                elif op == 'tick':
                    clock[0] += rnd.choice([1, 2, 5])
                elif op == 'plain':
                    k = rnd.choice(['plainkey', 'zz', -5, 10 ** 15 + 7, b'q-1', 'q', 'jobs',
                                    0, 999999999999999, 'q-000000000000000', 'jobs-999999999999999'])   # the exclusive bounds
                    c[k] = step
                    plain[k] = step
                elif op == 'plainget':
                    for k, v in plain.items():
                        if c.get(k) != v:
                            bad = where + ': ordinary key %r disturbed' % (k,)
                if bad:
                    break
        except Exception as e:
            import traceback
            bad = bad or 'history %d raised %r %s' % (h, e, traceback.format_exc()[-300:])
        finally:
            core.time.time = real
            shutil.rmtree(d, ignore_errors=True)
        if bad:
            break
    return [result('C10.standin.queue_histories', bad is None,
                   '%d random histories x %d steps over 8 prefixes (none extending another by "-"; the empty one and two containing digits among them), both sides, ttl, ordinary keys' % (nh, steps), cases, bad)]


# ====================================================================== check() (C17)
def _snapshot(d):
    import sqlite3
    files = {}
    dirs = []
    for dp, dn, fn in os.walk(d):
        dirs.append(os.path.relpath(dp, d))
        for f in fn:
            if 'cache.db' in f:
                continue
            files[os.path.relpath(os.path.join(dp, f), d)] = open(os.path.join(dp, f), 'rb').read()
    con = sqlite3.connect(os.path.join(d, 'cache.db'))
    rows = con.execute('SELECT rowid, key, raw, size, mode, filename, value FROM Cache ORDER BY rowid').fetchall()
    sett = con.execute("SELECT key, value FROM Settings WHERE key IN ('count', 'size') ORDER BY key").fetchall()
    con.close()
    return files, sorted(dirs), rows, sett


def C17(tier):
    """Damage combinations applied behind the library's back; check(fix=True) then a second check."""
    import itertools
    import sqlite3
    import diskcache
    damages = ['delete_file', 'truncate', 'extend', 'add_file', 'empty_dir', 'nested_empty', 'count', 'size', 'add_file_deep',
               'count_as_if_removed', 'size_as_if_removed', 'add_file_top', 'truncate_zero']
    combos = [()] + [(x,) for x in damages] + list(itertools.combinations(damages, 2))
    if tier != 'quick':
        combos += list(itertools.combinations(damages, 3))
    bad = None
    cases = 0
    for kind in ('Cache', 'Fanout'):
        for combo in combos:
            cases += 1
            d = tempfile.mkdtemp()
            if cases % 2:
                # the same directory under a spelling that is not normalised
                os.makedirs(os.path.join(d, 'releases'))
                os.makedirs(os.path.join(d, 'cache'))
                d = os.path.join(d, 'releases', '..', 'cache')
            try:
                if kind == 'Cache':
                    c = diskcache.Cache(d, disk_min_file_size=64)
                    shard_dirs = [d]
                else:
                    c = diskcache.FanoutCache(d, shards=2, disk_min_file_size=64)
                    shard_dirs = [os.path.join(d, '000'), os.path.join(d, '001')]
                for i in range(8):
                    c.set('big%d' % i, b'x' * (200 + i))
                    c.set('small%d' % i, i)
                import io as _io
                c.set('empty', _io.BytesIO(b''), read=True)       # a legitimately empty value file: not damage
                c.close()
                vals = []
                for sd in shard_dirs:
                    for dp, dn, fn in os.walk(sd):
                        vals += [os.path.join(dp, f) for f in fn if f.endswith('.val') and os.path.getsize(os.path.join(dp, f)) > 0]
                vals.sort()
                sd = shard_dirs[0]
                damaged_keys = set()
                for k, dm in enumerate(combo):
                    if dm == 'delete_file':
                        os.remove(vals[0])
                    elif dm == 'truncate':
                        open(vals[1], 'wb').write(b'x' * 10)
                    elif dm == 'extend':
                        open(vals[2], 'ab').write(b'yy')
                    elif dm == 'truncate_zero':
                        open(vals[5], 'wb').close()
                    elif dm == 'add_file':
                        open(os.path.join(os.path.dirname(vals[3]), 'stray.val'), 'wb').write(b'junk')
                    elif dm == 'add_file_top':
                        # next to cache.db, in the (shard) directory itself
                        open(os.path.join(os.path.dirname(os.path.dirname(os.path.dirname(vals[4]))), 'stray.tmp'), 'wb').write(b'junk')
                    elif dm == 'add_file_deep':
                        os.makedirs(os.path.join(sd, 'zz', 'yy', 'xx'))
                        open(os.path.join(sd, 'zz', 'yy', 'xx', 'junk'), 'wb').write(b'junk')
                    elif dm == 'empty_dir':
                        os.makedirs(os.path.join(sd, 'empty-q'))
                    elif dm == 'nested_empty':
                        os.makedirs(os.path.join(sd, 'nn', 'mm', 'll'))
                    elif dm in ('count_as_if_removed', 'size_as_if_removed'):
                        # counters already reduced by what a repair of the deleted file will remove
                        con = sqlite3.connect(os.path.join(os.path.dirname(os.path.dirname(os.path.dirname(vals[0]))), 'cache.db'))
                        if dm.startswith('count'):
                            con.execute("UPDATE Settings SET value = value - 1 WHERE key = 'count'")
                        else:
                            con.execute("UPDATE Settings SET value = value - ? WHERE key = 'size'", (200,))
                        con.commit()
                        con.close()
                    elif dm in ('count', 'size'):
                        con = sqlite3.connect(os.path.join(sd, 'cache.db'))
                        con.execute('UPDATE Settings SET value = value + 3 WHERE key = ?', (dm,))
                        con.commit()
                        con.close()
                c = diskcache.Cache(d) if kind == 'Cache' else diskcache.FanoutCache(d, shards=2)
                snaps0 = [_snapshot(x) for x in shard_dirs]
                w_plain = [str(w.message) for w in c.check()]
                if [_snapshot(x) for x in shard_dirs] != snaps0:
                    bad = '%s %r: check() without fix changed the directory or the database' % (kind, combo)
                    break
                if bool(combo) != bool(w_plain):
                    bad = '%s %r: check() reported %r' % (kind, combo, w_plain[:3])
                    break
                w_fix = [str(w.message) for w in c.check(fix=True)]
                kind_of = lambda m: m.split(';')[0] if m.startswith('Settings.') else m
                missing = [m for m in w_plain if kind_of(m) not in [kind_of(x) for x in w_fix]]
                if missing:
                    bad = '%s %r: check(fix=True) did not report %r' % (kind, combo, missing[:2])
                    break
                w2 = [str(w.message) for w in c.check()]
                if w2:
                    bad = '%s %r: second check still reports %r' % (kind, combo, w2[:3])
                    break
                # undamaged items untouched and readable; len agrees
                n = 0
                for i in range(8):
                    if c.get('small%d' % i) != i:
                        bad = '%s %r: undamaged inline item small%d lost' % (kind, combo, i)
                    v = c.get('big%d' % i)
                    if v is not None:
                        n += 1
                        if len(v) < 10 and 'truncate_zero' not in combo:
                            bad = bad or '%s %r: item big%d unreadable' % (kind, combo, i)
                if bad:
                    break
                exp_removed = (1 if 'delete_file' in combo else 0)
                if len(c) != 17 - exp_removed:
                    bad = '%s %r: %d items remain, expected %d' % (kind, combo, len(c), 17 - exp_removed)
                    break
                if c.get('empty') != b'':
                    bad = '%s %r: the undamaged empty file-backed item reads %r' % (kind, combo, c.get('empty'))
                    break
                c.close()
            except Exception as e:
                import traceback
                bad = '%s %r raised %r %s' % (kind, combo, e, traceback.format_exc()[-300:])
                break
            finally:
                shutil.rmtree(d.split('/releases/..')[0], ignore_errors=True)
        if bad:
            break
    # a damaged shard that is locked by another connection: check() may fail (Timeout / database is locked),
    # but it must not come back as if that shard were clean
    bad3 = None
    d = tempfile.mkdtemp()
    try:
        fan = diskcache.FanoutCache(d, shards=3, timeout=0.05, disk_min_file_size=64)
        for i in range(9):
            fan.set('big%d' % i, b'x' * 300)
        victim = None
        for dp, dn, fn in os.walk(os.path.join(d, '001')):
            for f in fn:
                if f.endswith('.val'):
                    victim = os.path.join(dp, f)
        os.remove(victim)
        con = sqlite3.connect(os.path.join(d, '001', 'cache.db'), isolation_level=None, timeout=0)
        con.execute('BEGIN IMMEDIATE')
        try:
            for fix in (False, True):
                try:
                    got = [str(w.message) for w in fan.check(fix=fix)]
                    if not any('file not found' in m for m in got):
                        bad3 = bad3 or 'check(fix=%s) returned %r although a damaged shard was locked and could not be examined' % (fix, got)
                except (diskcache.Timeout, sqlite3.OperationalError):
                    pass
        finally:
            con.execute('ROLLBACK')
            con.close()
        if not any('file not found' in str(w.message) for w in fan.check()):
            bad3 = bad3 or 'the damage is not reported once the lock is released'
        fan.close()
    except Exception as e:
        import traceback
        bad3 = bad3 or 'raised %r %s' % (e, traceback.format_exc()[-300:])
    finally:
        shutil.rmtree(d, ignore_errors=True)
    extra = [result('C17.standin.locked_shard_is_not_reported_clean', bad3 is None,
                    'a 3-shard FanoutCache with one damaged, locked shard; check() and check(fix=True)', 2, bad3)]
    return extra + [result('C17.standin.damage_combinations', bad is None,
                   'all subsets of size <= %d of 13 damage kinds (files deleted/truncated (also to zero bytes)/extended/added at three depths, empty and nested empty directories, count, size) on Cache and a 2-shard FanoutCache' % (2 if tier == 'quick' else 3), cases, bad)]


# ====================================================================== lock timeouts (C14)
def _dirstate(d):
    out = []
    for dp, dn, fn in os.walk(d):
        for f in fn:
            if 'cache.db' not in f:
                out.append(os.path.relpath(os.path.join(dp, f), d))
    return sorted(out)


def C14(tier):
    import sqlite3
    import contextlib
    import diskcache
    bad = None
    cases = 0
    d = tempfile.mkdtemp()
    try:
        c = diskcache.Cache(d + '/c', timeout=0, disk_min_file_size=64, cull_limit=0)
        c.set('k', 1)
        c.set('big', b'x' * 500)
        holder = sqlite3.connect(d + '/c/cache.db', isolation_level=None, timeout=0)
        holder.execute('BEGIN IMMEDIATE')
        ops = [('set inline', lambda: c.set('a', 1)), ('set file', lambda: c.set('b', b'y' * 500)),
               ('add', lambda: c.add('c', b'y' * 500)), ('incr', lambda: c.incr('k')), ('touch', lambda: c.touch('k', 5)),
               ('pop', lambda: c.pop('k')), ('delete', lambda: c.delete('k')), ('push', lambda: c.push(b'z' * 500)),
               ('pull', lambda: c.pull()), ('clear', lambda: c.clear()), ('evict', lambda: c.evict('t')),
               ('expire', lambda: c.expire()), ('cull', lambda: c.cull())]
        before = _dirstate(d + '/c')
        for name, f in ops:
            cases += 1
            try:
                f()
                bad = bad or 'Cache.%s did not raise Timeout while another connection holds the lock' % name
            except diskcache.Timeout:
                pass
            if _dirstate(d + '/c') != before:
                bad = bad or 'Cache.%s left a value file behind after Timeout: %r' % (name, sorted(set(_dirstate(d + '/c')) - set(before)))
        if c.get('k') != 1 or ('k' in c) is not True or c.get('big') != b'x' * 500:
            bad = bad or 'lookups do not work while another client holds the lock'
        holder.execute('ROLLBACK')
        if c.get('a') is not None or len(c) != 2:
            bad = bad or 'an operation that timed out had an effect (len %d)' % len(c)
        for name, f in ops[:3]:
            f()
        # with retry the call waits for the lock and then succeeds, value intact (file-backed and inline)
        import threading
        import time as _time
        for name, big in (('retry-file', True), ('retry-inline', False)):
            cases += 1
            h4 = sqlite3.connect(d + '/c/cache.db', isolation_level=None, timeout=0, check_same_thread=False)
            h4.execute('BEGIN IMMEDIATE')
            t = threading.Timer(0.05, lambda: h4.execute('ROLLBACK'))
            t.start()
            val = b'r' * 700 if big else 7
            ok = c.set(name, val, retry=True)
            t.join()
            h4.close()
            if ok is not True or c.get(name) != val:
                bad = bad or 'set(retry=True) under a temporarily held lock: returned %r, value read back %r' % (ok, (c.get(name) or b'')[:10])
            w = [str(x.message) for x in c.check()]
            if w:
                bad = bad or 'after a retried write check() reports %r' % (w[:2],)
        # sharded cache: failures are reported through the return value
        fc = diskcache.FanoutCache(d + '/f', shards=1, timeout=0, disk_min_file_size=64)
        fc.set('k', 1)
        h2 = sqlite3.connect(d + '/f/000/cache.db', isolation_level=None, timeout=0)
        h2.execute('BEGIN IMMEDIATE')
        exp = [('set', lambda: fc.set('a', b'y' * 500), False), ('add', lambda: fc.add('b', 1), False),
               ('incr', lambda: fc.incr('k'), None), ('decr', lambda: fc.decr('k'), None), ('touch', lambda: fc.touch('k'), False),
               ('pop', lambda: fc.pop('k', 'D'), 'D'), ('delete', lambda: fc.delete('k'), False), ('get', lambda: fc.get('k'), 1)]
        before = _dirstate(d + '/f')
        for name, f, want in exp:
            cases += 1
            try:
                got = f()
                if got != want:
                    bad = bad or 'FanoutCache.%s returned %r under a held lock, documented %r' % (name, got, want)
            except diskcache.Timeout:
                bad = bad or 'FanoutCache.%s raised Timeout' % name
            if _dirstate(d + '/f') != before:
                bad = bad or 'FanoutCache.%s left a value file behind' % name
        h2.execute('ROLLBACK')
        # bulk removals interrupted after the first committed batch report what they removed
        for opname in ('expire', 'clear', 'cull', 'evict'):
            cases += 1
            sub = d + '/bulk-' + opname
            b = diskcache.Cache(sub, timeout=0, cull_limit=0)
            for i in range(250):
                b.set(i, i, expire=0.001, tag='t')
            import time as _t
            _t.sleep(0.01)
            h3 = sqlite3.connect(sub + '/cache.db', isolation_level=None, timeout=0)
            real = b._transact
            state = {'n': 0}

            @contextlib.contextmanager
            def transact(retry=False, filename=None, real=real, state=state, h3=h3):
                state['n'] += 1
                if state['n'] == 2:
                    h3.execute('BEGIN IMMEDIATE')
                with real(retry, filename) as x:
                    yield x
            b._transact = transact
            n0 = len(b)
            try:
                getattr(b, opname)(*(('t',) if opname == 'evict' else ()))
                bad = bad or '%s did not raise Timeout when the lock was taken after its first batch' % opname
            except diskcache.Timeout as t:
                b._transact = real
                h3.execute('ROLLBACK')
                removed = n0 - len(b)
                if not t.args or t.args[0] != removed:
                    bad = bad or 'Cache.%s removed %d items but Timeout reports %r' % (opname, removed, t.args)
            b._transact = real
    except Exception as e:
        import traceback
        bad = bad or 'raised %r %s' % (e, traceback.format_exc()[-400:])
    finally:
        shutil.rmtree(d, ignore_errors=True)
    return [result('C14.standin.lock_held_by_another_connection', bad is None,
                   '13 Cache operations and 8 FanoutCache operations under a lock held by a second connection; 4 bulk removals interrupted after one batch', cases, bad)]


def C08(tier):
    """Fault-free histories (reference-dictionary driver) end with a clean check(); queue and bulk operations too."""
    import diskcache
    from diskcache import core
    out = _dict_standin('C08', tier)[:2]
    bad = None
    d = tempfile.mkdtemp()
    clock = [1000.0]
    real = core.time.time
    core.time.time = lambda: clock[0]
    try:
        c = diskcache.Cache(d, disk_min_file_size=32, cull_limit=0)
        big = lambda ch: (ch * 200).encode()
        c.set('a', big('a'), expire=10)
        c.set('a', big('b'))                      # replace file-backed by file-backed
        c.set('a', 1)                              # replace file-backed by inline
        c.add('a', big('c'))                       # add on present: new file must go
        c.set('e', big('e'), expire=10)
        clock[0] += 60
        c.incr('e', 5)                             # incr over an expired file-backed item
        c.add('f', big('f'), expire=5)
        clock[0] += 60
        c.add('f', big('g'))                       # add over an expired file-backed item
        k = c.push(big('q'))
        c.pull()
        c.push(big('r'), expire=1)
        clock[0] += 5
        c.peek()
        c.pull()
        c.set('t', big('t'), tag='x')
        c.evict('x')
        c.set('p', big('p'))
        c.pop('p')
        c.set('d', big('d'))
        del c['d']
        c.reset('cull_limit', 10)
        c.set('x1', big('1'), expire=1)
        clock[0] += 5
        c.set('x2', big('2'))                      # lazy cull of the expired file-backed item
        with c.transact():
            c.set('n1', big('n'))
        # every kind of file-backed value: the recorded size is the size of the file in bytes
        import io
        c.set('txt', 'x' * 100)
        c.set('utf', 'é' * 50 + '漢字' * 20)        # more bytes than characters
        c.set('nl', 'a\r\nb\n' * 20)
        c.add('utf2', '\U0001f600' * 30)
        c.push('ü' * 64)
        c.set('obj', list(range(100)))
        c.set('stream', io.BytesIO(b'z' * 300), read=True)
        w = [str(x.message) for x in c.check()]
        if w:
            bad = 'check() after the scenario reports %r' % (w[:3],)
        if len(c) != len(list(c)):
            bad = bad or 'len %d but %d keys' % (len(c), len(list(c)))
    except Exception as e:
        import traceback
        bad = 'raised %r %s' % (e, traceback.format_exc()[-300:])
    finally:
        core.time.time = real
        shutil.rmtree(d, ignore_errors=True)
    out.append(result('C08.standin.replace_and_removal_scenario', bad is None,
                      'one fault-free scenario touching every replace / removal site with file-backed values of every kind (bytes, ASCII / non-ASCII / newline text, pickles, streams)', 31, bad))
    return out


# ====================================================================== sharding (C13)
def C13(tier):
    """Routing is the released function of the key alone (whatever was hashed before); a sharded cache
    answers like an unsharded one on a small history; aggregates cover all shards."""
    import itertools
    import diskcache
    from replays import released_hash
    bad = None
    cases = 0
    keys = ['a', b'a', 1, 1.0, True, 0, 0.0, False, -1, 2 ** 32 - 1, 2 ** 32, -2 ** 63, 2 ** 64, (1, 2), (1.0, 2), (True, 2),
            ('f', 1), ('f', 1.0), None, 'é', 2.5, frozenset([1]), frozenset([1.0])]
    d = tempfile.mkdtemp()
    try:
        for shards in (1, 2, 3, 8, 13):
            for order in (keys, list(reversed(keys))):
                fan = diskcache.FanoutCache(d + '/f%d%d' % (shards, order is keys), shards=shards)
                for k in order:
                    cases += 1
                    got = fan._hash(k) % fan._count
                    exp = released_hash(k) % shards
                    if got != exp:
                        bad = bad or 'shards=%d: key %r routed to shard %d, released routing says %d (keys hashed before: %d)' % (
                            shards, k, got, exp, order.index(k))
                fan.close()
        # every key-addressed method acts on the released shard and on no other
        numeric = [k for k in keys if type(k) in (int, float, bool)]
        methods = [('set', lambda f, k: f.set(k, 5)), ('__setitem__', lambda f, k: f.__setitem__(k, 5)), ('add', lambda f, k: f.add(k, 5)),
                   ('incr', lambda f, k: f.incr(k, 1, default=0)), ('decr', lambda f, k: f.decr(k, 1, default=9))]
        readers = [('get', lambda f, k: f.get(k)), ('__getitem__', lambda f, k: f[k]), ('read', None), ('__contains__', lambda f, k: k in f),
                   ('touch', lambda f, k: f.touch(k, expire=100)), ('incr', lambda f, k: f.incr(k)), ('decr', lambda f, k: f.decr(k)),
                   ('pop', lambda f, k: f.pop(k)), ('delete', lambda f, k: f.delete(k)), ('__delitem__', lambda f, k: f.__delitem__(k))]
        fan = diskcache.FanoutCache(d + '/routes', shards=5)
        for k in keys:
            if isinstance(k, frozenset):
                continue
            home = released_hash(k) % 5
            for name, m in methods:
                cases += 1
                fan.clear()
                m(fan, k)
                where = [i for i, sh in enumerate(fan._shards) if len(sh)]
                if where != [home]:
                    bad = bad or 'FanoutCache.%s(%r) stored into shard(s) %r, the released routing says %d' % (name, k, where, home)
            for name, m in readers:
                if m is None:
                    continue
                cases += 1
                fan.clear()
                fan._shards[home].set(k, 7)
                try:
                    got = m(fan, k)
                except KeyError:
                    got = 'KeyError'
                expect = {'get': 7, '__getitem__': 7, '__contains__': True, 'touch': True, 'incr': 8, 'decr': 6, 'pop': 7, 'delete': True,
                          '__delitem__': None}[name]
                others = [i for i, sh in enumerate(fan._shards) if len(sh) and i != home]
                if got != expect or others:
                    bad = bad or 'FanoutCache.%s(%r) with the item in its released shard %d gave %r (expected %r); other shards touched: %r' % (
                        name, k, home, got, expect, others)
        fan.close()
        # observable equivalence with an unsharded cache on a small history + aggregate coverage
        fan = diskcache.FanoutCache(d + '/eq', shards=3)
        plain = diskcache.Cache(d + '/plain')
        # numerically equal int/float keys are routed apart (recorded finding KF-C13-hash-int-float): one of each only
        small = [k for k in keys if not isinstance(k, frozenset) and not (type(k) is float and k == int(k))]
        for i, k in enumerate(small):
            fan.set(k, i, tag='t' if i % 2 else None)
            plain.set(k, i, tag='t' if i % 2 else None)
        for k in small:
            cases += 1
            if fan.get(k) != plain.get(k) or (k in fan) != (k in plain):
                bad = bad or 'FanoutCache.get(%r) = %r, Cache.get = %r' % (k, fan.get(k), plain.get(k))
        if len(fan) != len(plain) or sorted(map(repr, fan)) != sorted(map(repr, plain)):
            bad = bad or 'len/iteration differ: %d vs %d' % (len(fan), len(plain))
        if fan.evict('t') != plain.evict('t') or len(fan) != len(plain):
            bad = bad or 'evict differs'
        if fan.clear() != plain.clear() or len(fan) != 0:
            bad = bad or 'clear does not cover all shards'
    except Exception as e:
        import traceback
        bad = bad or 'raised %r %s' % (e, traceback.format_exc()[-300:])
    finally:
        shutil.rmtree(d, ignore_errors=True)
    return [result('C13.standin.routing_and_equivalence', bad is None,
                   '23 keys (look-alike pairs) x shard counts {1,2,3,8,13} x 2 hashing orders against the released routing; 14 key-addressed methods x keys act on the released shard only; small equivalence history', cases, bad)]


# ====================================================================== values (C01)
class StrSub(str):
    pass


class BytesSub(bytes):
    pass


class IntSub(int):
    pass


class FloatSub(float):
    pass


import enum as _enum


class Colour(str, _enum.Enum):
    GREEN = 'green'


def C01(tier):
    """Value corpus x thresholds x protocols x Disk/JSONDisk x every accessor."""
    import io
    import pickle
    import diskcache
    vals = [0, 1, -1, 2 ** 63 - 1, -2 ** 63, 2 ** 63, 2 ** 100, 0.0, -0.0, 1.5, inf, -inf, nan, 5e-324, '', 'a', 'a\rb\r\nc\n',
            '\x00', '\x85\u2028', '\U0001f600', 'é' * 40, b'', b'\x00\xff' * 30, None, True, False, (1, 'a', None), [1, [2, 3]],
            {'k': (1, 2)}, frozenset([1, 2]), 'x' * 100, b'y' * 100,
            # instances of subclasses of the natively stored types keep their type (they are not native)
            StrSub(''), StrSub('short'), StrSub('x' * 100), BytesSub(b'ab'), BytesSub(b'z' * 100), IntSub(5), FloatSub(1.5), Colour.GREEN]
    jvals = [v for v in vals if type(v) in (int, float, str, type(None), bool)] + [[1, 'a', None], {'k': [1, 2]}]
    bad = None
    cases = 0
    for diskname in ('Disk', 'JSONDisk'):
        disk = getattr(diskcache, diskname)
        for mfs in (0, 1, 8, 64, 2 ** 15):
            protos = (0, pickle.HIGHEST_PROTOCOL) if tier == 'quick' else range(pickle.HIGHEST_PROTOCOL + 1)
            for proto in protos:
                d = tempfile.mkdtemp()
                try:
                    c = diskcache.Cache(d, disk=disk, disk_min_file_size=mfs, disk_pickle_protocol=proto)
                    dq = diskcache.Deque.fromcache(diskcache.Cache(d + '/dq', disk=disk, disk_min_file_size=mfs, eviction_policy='none'))
                    ix = diskcache.Index.fromcache(diskcache.Cache(d + '/ix', disk=disk, disk_min_file_size=mfs, eviction_policy='none'))
                    for v in (vals if diskname == 'Disk' else jvals):
                        cases += 1
                        try:
                            c.set('k', v)
                        except Exception:
                            continue            # rejected: allowed
                        got = [c.get('k'), c['k'], c.peekitem()[1]]
                        k2 = c.push(v)
                        got.append(c.peek()[1])
                        got.append(c.pull()[1])
                        got.append(c.pop('k'))
                        if diskname == 'Disk':      # queue keys under JSONDisk cannot be decoded: recorded finding KF-C02-jsondisk-queue-keys
                            dq.append(v)
                            got.append(dq[0])
                            got.append(dq.pop())
                        ix['k'] = v
                        got.append(ix['k'])
                        for g in got:
                            if not same(g, v) and not (isinstance(v, list) and g == v) and not (isinstance(v, dict) and g == v) and not (isinstance(v, frozenset) and g == v):
                                bad = bad or '%s min_file_size=%d protocol=%d: stored %r, an accessor returned %r' % (diskname, mfs, proto, v, g)
                    if diskname == 'Disk':
                        payload = bytes(range(256)) * 40
                        c.set('s', io.BytesIO(payload), read=True)
                        with c.get('s', read=True) as f:
                            if f.read() != payload:
                                bad = bad or 'stream stored with read=True is read back differently (handle)'
                        if c.get('s') != payload:
                            bad = bad or 'stream stored with read=True is read back differently (get)'

                        # a stream may hand out fewer bytes than asked for before its end (pipes, sockets,
                        # decompressors): everything up to the first EMPTY read is the value
                        class Dribble(io.RawIOBase):
                            def __init__(self, data, step):
                                self.data, self.step, self.pos = data, step, 0

                            def readable(self):
                                return True

                            def read(self, n=-1):
                                k = self.step if n is None or n < 0 else min(n, self.step)
                                chunk = self.data[self.pos:self.pos + k]
                                self.pos += len(chunk)
                                return chunk
                        for step in (1, 7, 1000, 4096):
                            cases += 1
                            small = payload[:3000]
                            c.set('d', Dribble(small, step), read=True)
                            if c.get('d') != small:
                                bad = bad or 'a stream that returns at most %d bytes per read() was stored as %d of its %d bytes' % (
                                    step, len(c.get('d') or b''), len(small))
                finally:
                    shutil.rmtree(d, ignore_errors=True)
    return [result('C01.standin.value_corpus', bad is None,
                   '40 values (incl. instances of subclasses of str/bytes/int/float) x min_file_size {0,1,8,64,32768} x pickle protocols x Disk/JSONDisk x 9 accessors', cases, bad)]


# ====================================================================== transactions (C05 / C06 / C07)
def _txn_standin(pid, tier):
    import threading
    import diskcache
    bad = None
    cases = 0
    d = tempfile.mkdtemp()
    try:
        c = diskcache.Cache(d + '/a', disk_min_file_size=64)
        other = diskcache.Cache(d + '/a')
        # a paused iteration does not pin a snapshot: lookups made between two items see what other clients
        # have completed meanwhile, and writes of this client still get the lock
        pi = diskcache.Cache(d + '/iter')
        po = diskcache.Cache(d + '/iter')
        for i in range(5):
            pi.set('k%d' % i, i)
        for how, make in (('iter', lambda: iter(pi)), ('reversed', lambda: reversed(pi)), ('iterkeys', lambda: pi.iterkeys()),
                          ('iterkeys(reverse)', lambda: pi.iterkeys(reverse=True))):
            cases += 1
            itr = make()
            next(itr)
            po.set('seen-' + how, 1)
            po.set('k1', 'new-' + how)
            po.delete('k4')
            try:
                fresh = (pi.get('seen-' + how), pi.get('k1'), 'k4' in pi)
                pi.set('own-' + how, 2)          # retry=False: must not time out
            except Exception as e:
                fresh = repr(e)
            if fresh != (1, 'new-' + how, False):
                bad = bad or 'with %s paused after one item, this client reads %r although another client completed set/set/delete' % (how, fresh)
            del itr
            pi.set('k4', 4)
        pi.close()
        po.close()
        # all-or-nothing for inline values; nesting; ownership
        c.update = None
        c.set('a', 1)
        try:
            with c.transact():
                c.set('a', 2)
                c.set('b', 3)
                with c.transact():
                    c.incr('a')
                if other.get('b') is not None:
                    bad = bad or 'another client sees a write of an open block'
                raise RuntimeError('abort')
        except RuntimeError:
            pass
        cases += 1
        if c.get('a') != 1 or 'b' in c or len(c) != 1:
            bad = bad or 'aborted block left effects: a=%r, b present=%r' % (c.get('a'), 'b' in c)
        with c.transact():
            c.set('a', 2)
            with c.transact():
                c.set('b', b'x' * 500)
        cases += 1
        if other.get('a') != 2 or other.get('b') != b'x' * 500:
            bad = bad or 'committed block not visible to another client'
        # a thread using the same object does not join the transaction
        seen = []

        def intruder():
            try:
                c2 = c
                c2.set('t', 1)
                seen.append('done')
            except diskcache.Timeout:
                seen.append('timeout')
        c3 = diskcache.Cache(d + '/a', timeout=0.05)
        with c3.transact():
            c3.set('own', 1)
            t = threading.Thread(target=lambda: (seen.append('timeout') if _raises(lambda: c3.set('t', 1), diskcache.Timeout) else seen.append('joined')))
            t.start()
            t.join()
        cases += 1
        if seen != ['timeout']:
            bad = bad or 'another thread on the same object joined or bypassed the open transaction: %r' % seen
        # concurrent atomicity: incr loses no update, add succeeds once, pop delivers once
        cc_ = diskcache.Cache(d + '/b')
        cc_.set('n', 0)
        for i in range(40):
            cc_.set(('item', i), i)
        added, popped = [], []

        def worker(k):
            h = diskcache.Cache(d + '/b')
            for i in range(60):
                h.incr('n', retry=True)
            if h.add('once', k, retry=True):
                added.append(k)
            for i in range(40):
                v = h.pop(('item', i), default=None, retry=True)
                if v is not None:
                    popped.append(v)
        ts = [threading.Thread(target=worker, args=(k,)) for k in range(4)]
        for t in ts:
            t.start()
        for t in ts:
            t.join()
        cases += 3
        if cc_.get('n') != 240:
            bad = bad or 'concurrent incr lost updates: %r of 240' % cc_.get('n')
        if len(added) != 1:
            bad = bad or 'concurrent add succeeded for %d callers' % len(added)
        if sorted(popped) != list(range(40)):
            bad = bad or 'concurrent pop delivered %d items, %d distinct' % (len(popped), len(set(popped)))
        w = [str(x.message) for x in cc_.check()]
        if w:
            bad = bad or 'check() after concurrent use: %r' % w[:2]
    except Exception as e:
        import traceback
        bad = bad or 'raised %r %s' % (e, traceback.format_exc()[-300:])
    finally:
        shutil.rmtree(d, ignore_errors=True)
    return [result(pid + '.standin.transactions_and_threads', bad is None,
                   'abort/commit/nesting/ownership scenarios (inline values in aborted blocks) and 4 threads x (60 incr, add, 40 pops)', cases, bad)]


def _raises(f, exc):
    try:
        f()
        return False
    except exc:
        return True


def C05(tier):
    return _txn_standin('C05', tier)


def C06(tier):
    return _txn_standin('C06', tier)


def C07(tier):
    """Child processes killed (os._exit) at chosen effect boundaries of set / replace / pop / delete."""
    import subprocess
    import diskcache
    bad = None
    cases = 0
    script = r"""
import os, sys, diskcache
from diskcache import core
d, op, point = sys.argv[1], sys.argv[2], int(sys.argv[3])
if op != 'open':
    c = diskcache.Cache(d, disk_min_file_size=64)
n = [0]
def tick():
    n[0] += 1
    if n[0] == point:
        os._exit(9)
real_sql = core.Cache._sql.fget
def _sql(self):
    ex = real_sql(self)
    def run(*a, **k):
        tick(); r = ex(*a, **k); tick(); return r
    return run
core.Cache._sql = property(_sql)
real_remove = core.Disk.remove
def remove(self, p):
    tick(); real_remove(self, p); tick()
core.Disk.remove = remove
real_write = core.Disk._write
def _write(self, *a, **k):
    tick(); r = real_write(self, *a, **k); tick(); return r
core.Disk._write = _write
if op == 'open':
    c = diskcache.Cache(d, disk_min_file_size=64)      # first open of a fresh directory, killed part-way
elif op == 'set': c.set('new', b'n' * 300)
elif op == 'replace': c.set('victim', b'r' * 300)
elif op == 'pop': c.pop('victim')
elif op == 'delete': c.delete('victim')
os._exit(0)
"""
    d0 = tempfile.mkdtemp()
    try:
        open(d0 + '/child.py', 'w').write(script)
        env = dict(os.environ)
        for op in ('set', 'replace', 'pop', 'delete', 'open'):
            points = range(1, 16 if tier == 'quick' else 40)
            if op == 'open':
                points = range(1, 120, 4 if tier == 'quick' else 1)
            for point in points:
                cases += 1
                d = tempfile.mkdtemp()
                try:
                    if op != 'open':
                        c = diskcache.Cache(d, disk_min_file_size=64)
                        c.set('victim', b'v' * 300)
                        c.set('other', b'o' * 300)
                        c.close()
                    subprocess.run([sys.executable, d0 + '/child.py', d, op, str(point)], env=env, timeout=60)
                    where = 'kill at effect boundary %d of %s' % (point, op)
                    try:
                        c = diskcache.Cache(d, disk_min_file_size=64)
                    except Exception as e:
                        bad = bad or where + ': the directory cannot be opened any more: %r' % (e,)
                        break
                    if op == 'open':
                        c.set('other', b'o' * 300)
                    if c.get('other') != b'o' * 300:
                        bad = bad or where + ': unrelated item damaged'
                    for k in list(c):
                        try:
                            v = c[k]
                        except KeyError:
                            bad = bad or where + ': key %r reported present but has no value' % (k,)
                            continue
                        if k == 'victim' and v not in (b'v' * 300, b'r' * 300):
                            bad = bad or where + ': victim has a partial / mixed value'
                        if k == 'new' and v != b'n' * 300:
                            bad = bad or where + ': new item has a partial value'
                    c.set('after', 1)
                    if c.get('after') != 1:
                        bad = bad or where + ': cannot write after the kill'
                    w = [str(x.message) for x in c.check() if 'unknown file' not in str(x.message) and 'empty directory' not in str(x.message)]
                    if w:
                        bad = bad or where + ': check() reports %r' % w[:2]
                    c.check(fix=True)
                    if c.check():
                        bad = bad or where + ': repair does not clean up the debris'
                finally:
                    shutil.rmtree(d, ignore_errors=True)
                if bad:
                    break
            if bad:
                break
    except Exception as e:
        import traceback
        bad = bad or 'raised %r %s' % (e, traceback.format_exc()[-300:])
    finally:
        shutil.rmtree(d0, ignore_errors=True)
    return [result('C07.standin.kill_points', bad is None,
                   'set / replace / pop / delete of file-backed items, killed at each of the first %d effect boundaries (before/after every SQL statement, file write, file removal); first open of a fresh directory killed at %s statement boundary' % (15 if tier == 'quick' else 39, 'every 4th' if tier == 'quick' else 'every'), cases, bad)]


# ====================================================================== recipes (C15)
def C15(tier):
    import threading
    import diskcache
    from diskcache import recipes
    bad = None
    cases = 0
    d = tempfile.mkdtemp()
    try:
        for name, mk, limit in (('Lock', lambda c: recipes.Lock(c, 'lock'), 1), ('RLock', lambda c: recipes.RLock(c, 'rlock'), 1),
                                ('BoundedSemaphore', lambda c: recipes.BoundedSemaphore(c, 'sem', value=2), 2)):
            inside = [0]
            peak = [0]
            guard = threading.Lock()

            def worker():
                c = diskcache.Cache(d + '/' + name)
                prim = mk(c)
                for i in range(25):
                    prim.acquire()
                    if name == 'RLock':
                        prim.acquire()
                    with guard:
                        inside[0] += 1
                        peak[0] = max(peak[0], inside[0])
                    with guard:
                        inside[0] -= 1
                    if name == 'RLock':
                        prim.release()
                    prim.release()
            ts = [threading.Thread(target=worker) for _ in range(4)]
            for t in ts:
                t.start()
            for t in ts:
                t.join()
            cases += 100
            if peak[0] > limit:
                bad = bad or '%s: %d holders at once (limit %d)' % (name, peak[0], limit)
        c = diskcache.Cache(d + '/refuse')
        for prim in (recipes.RLock(c, 'r'), recipes.BoundedSemaphore(c, 's', value=2)):
            cases += 1
            if not _raises(prim.release, AssertionError):
                bad = bad or '%s.release of something not held is accepted' % type(prim).__name__
        calls = []

        @recipes.barrier(c, recipes.Lock)
        def f(x, y=1):
            calls.append((x, y))
            return x + y
        if f(1, y=2) != 3 or calls != [(1, 2)]:
            bad = bad or 'barrier does not call the function with the caller\'s arguments'
    except Exception as e:
        import traceback
        bad = bad or 'raised %r %s' % (e, traceback.format_exc()[-300:])
    finally:
        shutil.rmtree(d, ignore_errors=True)
    return [result('C15.standin.contending_threads', bad is None, '4 threads x 25 acquire/release rounds per primitive; refusal; barrier', cases, bad)]


# ====================================================================== persistence (C18)
def C18(tier):
    import pickle
    import subprocess
    import diskcache
    bad = None
    cases = 0
    d = tempfile.mkdtemp()
    try:
        settings = dict(size_limit=12345678, cull_limit=3, statistics=1, eviction_policy='least-recently-used', disk_min_file_size=77,
                        tag_index=1)
        c = diskcache.Cache(d + '/c', **settings)
        c.set('k', b'v' * 200, tag='t')
        c.set(2.5, 'x')
        c.close()
        for how in ('reopen', 'pickle', 'process'):
            cases += 1
            if how == 'reopen':
                h = diskcache.Cache(d + '/c')
            elif how == 'pickle':
                h = pickle.loads(pickle.dumps(diskcache.Cache(d + '/c')))
            else:
                out = subprocess.run([sys.executable, '-c', 'import diskcache,sys; c=diskcache.Cache(sys.argv[1]); print(c.size_limit, c.cull_limit, c.eviction_policy, c.disk_min_file_size, len(c), c.get("k")==b"v"*200)', d + '/c'],
                                     capture_output=True, text=True, env=dict(os.environ), timeout=60).stdout.split()
                if out != ['12345678', '3', 'least-recently-used', '77', '2', 'True']:
                    bad = bad or 'a new process sees %r' % (out,)
                continue
            for k, v in settings.items():
                if getattr(h, k) != v:
                    bad = bad or '%s: setting %s is %r, created with %r' % (how, k, getattr(h, k), v)
            if h.get('k') != b'v' * 200 or h.get(2.5) != 'x' or len(h) != 2 or h.disk.min_file_size != 77:
                bad = bad or '%s: items or disk settings lost' % how
            h.close()
            if h.get('k') != b'v' * 200:
                bad = bad or '%s: a closed object does not reopen transparently' % how
        # a Disk subclass with a constructor argument of its own: the setting is stored and restored too
        j = diskcache.Cache(d + '/j', disk=diskcache.JSONDisk, disk_compress_level=6)
        j.set('alpha', [1, 2])
        j.close()
        for how, h in (('reopen', diskcache.Cache(d + '/j', disk=diskcache.JSONDisk)),
                       ('pickle', pickle.loads(pickle.dumps(j)))):
            cases += 1
            if h.disk.compress_level != 6 or h.get('alpha') != [1, 2] or 'alpha' not in h or len(h) != 1:
                bad = bad or 'JSONDisk created with compress_level=6, %s: compress_level %r, item visible: %r' % (
                    how, h.disk.compress_level, 'alpha' in h)
            h.close()
        # a handle opened while another connection briefly holds the database exclusively: it waits (the
        # holder goes away at the first back-off) and comes up with the stored settings, not with defaults
        import sqlite3
        import time as _time
        k = diskcache.Cache(d + '/k', size_limit=7654321, cull_limit=3, eviction_policy='none')
        k.set('kept', 1)
        k.close()
        holder = sqlite3.connect(os.path.join(d, 'k', 'cache.db'), isolation_level=None, timeout=0)
        holder.execute('PRAGMA locking_mode = EXCLUSIVE').fetchall()
        holder.execute('BEGIN IMMEDIATE')
        holder.execute('UPDATE Settings SET value = value WHERE key = "size_limit"')
        holder.execute('COMMIT')
        state = {'holder': holder, 'sleeps': 0, 'now': 1e6}
        real_sleep, real_time = _time.sleep, _time.time

        def fake_sleep(_):
            state['sleeps'] += 1
            if state['holder'] is not None:
                state['holder'].close()
                state['holder'] = None

        def fake_time():
            state['now'] += 0.001
            return state['now']
        _time.sleep, _time.time = fake_sleep, fake_time
        try:
            h = diskcache.Cache(d + '/k')
        finally:
            _time.sleep, _time.time = real_sleep, real_time
            if state['holder'] is not None:
                state['holder'].close()
        cases += 1
        if state['sleeps'] and ((h.size_limit, h.cull_limit, h.eviction_policy) != (7654321, 3, 'none') or h.get('kept') != 1):
            bad = bad or 'a handle opened while the database was briefly locked came up with size_limit=%r cull_limit=%r policy=%r (created with 7654321, 3, none)' % (
                h.size_limit, h.cull_limit, h.eviction_policy)
        h.close()
        h2 = diskcache.Cache(d + '/k')
        if (h2.size_limit, h2.cull_limit, h2.eviction_policy) != (7654321, 3, 'none'):
            bad = bad or 'after a contended open the stored settings are %r' % ((h2.size_limit, h2.cull_limit, h2.eviction_policy),)
        h2.close()
        f = diskcache.FanoutCache(d + '/f', shards=3, cull_limit=7)
        f.set('a', 1)
        g = pickle.loads(pickle.dumps(f))
        cases += 1
        if g.get('a') != 1 or g._count != 3 or g.cull_limit != 7:
            bad = bad or 'FanoutCache does not survive pickling'
        dq = diskcache.Deque([1, 2, 3], directory=d + '/dq', maxlen=5)
        ix = diskcache.Index(d + '/ix', a=1)
        cases += 2
        if list(pickle.loads(pickle.dumps(dq))) != [1, 2, 3] or pickle.loads(pickle.dumps(dq)).maxlen != 5:
            bad = bad or 'Deque does not survive pickling'
        if dict(pickle.loads(pickle.dumps(ix))) != {'a': 1}:
            bad = bad or 'Index does not survive pickling'
    except Exception as e:
        import traceback
        bad = bad or 'raised %r %s' % (e, traceback.format_exc()[-300:])
    finally:
        shutil.rmtree(d, ignore_errors=True)
    return [result('C18.standin.reopen_pickle_process', bad is None, 'settings and items across reopen, pickle, new process; Fanout/Deque/Index pickling', cases, bad)]


# ====================================================================== Django backend (C19)
def C19(tier):
    bad = None
    cases = 0
    d = tempfile.mkdtemp()
    try:
        import django
        from django.conf import settings
        if not settings.configured:
            settings.configure(CACHES={})
        from diskcache import DjangoCache
        from diskcache import core
        clock = [1000.0]
        real = core.time.time
        core.time.time = lambda: clock[0]
        try:
            c = DjangoCache(d, {'TIMEOUT': 50, 'KEY_PREFIX': 'p', 'VERSION': 2, 'SHARDS': 2})
            checks = [
                ('forever', lambda: c.set('a', 1, timeout=None), lambda: (clock.__setitem__(0, clock[0] + 10 ** 6), c.get('a'))[1] == 1),
                ('zero', lambda: c.set('b', 1, timeout=0), lambda: c.get('b') is None and not c.has_key('b')),
                ('negative', lambda: c.set('c', 1, timeout=-5), lambda: c.get('c') is None),
                ('default', lambda: c.set('d', 1), lambda: c.get('d') == 1 and (clock.__setitem__(0, clock[0] + 60), c.get('d'))[1] is None),
                ('overwrite-expired', lambda: (c.set('e', 1), c.set('e', 2, timeout=0)), lambda: c.get('e') is None and _raises(lambda: c.incr('e'), ValueError) and c.add('e', 3) is True),
                ('versions', lambda: (c.set('v', 1, version=1), c.set('v', 2, version=2)), lambda: c.get('v', version=1) == 1 and c.get('v') == 2),
                ('incr', lambda: c.set('n', 5, timeout=None), lambda: c.incr('n') == 6 and c.decr('n', 2) == 4 and _raises(lambda: c.incr('missing'), ValueError)),
                ('many', lambda: c.set_many({'m1': 1, 'm2': 2}, timeout=None), lambda: c.get_many(['m1', 'm2', 'zz']) == {'m1': 1, 'm2': 2} and (c.delete_many(['m1']), c.get('m1'))[1] is None),
                ('touch-pop', lambda: c.set('t', 1, timeout=10), lambda: c.touch('t', None) is True and c.pop('t') == 1 and c.touch('t') is False),
                ('get_or_set', lambda: None, lambda: c.get_or_set('g', 7, timeout=None) == 7 and c.get('g') == 7),
            ]
            for name, do, ok in checks:
                cases += 1
                do()
                if not ok():
                    bad = bad or 'Django contract scenario %r fails' % name
        finally:
            core.time.time = real
    except Exception as e:
        import traceback
        bad = bad or 'raised %r %s' % (e, traceback.format_exc()[-300:])
    finally:
        shutil.rmtree(d, ignore_errors=True)
    return [result('C19.standin.django_contract_scenarios', bad is None, '10 scenarios over timeouts {None, 0, negative, default}, versions, incr/decr, *_many, touch, pop, get_or_set', cases, bad)]


if __name__ == '__main__':
    main()

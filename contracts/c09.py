"""C09 -- eviction starts only at the size limit and follows the policy order.

Single-write part: the `refine.cull.*` and `refine.counters.*` parts of the
set/add/incr refinement obligations (contracts/c03.py) state, per eviction
policy: at most cull_limit rows removed in total, none when it is 0; rows
removed by the policy query only when volume() >= size_limit, never under
policy 'none', and every such row sorts (store_time / access_time /
access_count) before-or-equal every row that remains; get/incr refresh the
recency / frequency columns exactly as the policy promises.
"""
from contracts import c03

METHODS = ['set', 'add', 'incr', 'get']


# clauses not yet under contract (bulk removal, iteration, queue operations) are covered by the bounded
# native stand-in on every run; it is listed under coverage.bounded and never counted as proved
ALWAYS_STANDIN = True


def tasks(tier):
    return [('contracts.c03', 'method_task', ('C09', m, pol)) for m in METHODS for pol in c03.POLICIES] + \
        [('contracts.bulk', 'cull_task', ('C09', pol)) for pol in c03.POLICIES]


def meta(results, tier):
    m = c03.meta(results, tier)
    m['explanation'] = 'C09 view: lazy culling relation and policy metadata per eviction policy'
    m['assumptions'] = m['assumptions'] + ['PRAGMA page_count is an opaque non-negative integer']
    return m

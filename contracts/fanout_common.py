"""Delegation obligations for FanoutCache (C13 routing/aggregates, C14 timeouts).

FanoutCache methods are executed from /repo with `self._shards` a sequence of
SYMBOLIC length n >= 1 of Recorder objects that stand for the real Cache class:
calls are bound by Cache's real parameter names.  `self._hash` is an
uninterpreted function H of the key (its contract is proved in c13 hash_*).
"""
import z3

from pyvc.api import *          # noqa
from pyvc.check import Result, discharge
from pyvc.engine import explore, EnvFunc, Unsupported, PyRaise, raise_py
from pyvc.loops import SymSeq, MappedSeq, Fold, LoopSpec
from pyvc.mock import Recorder, calls, RET
from pyvc import mock
from pyvc.env import int_term
from contracts.disk_common import context, sym_value, to_pyobj

H = z3.Function('shard_hash', PyObj, z3.IntSort())

# method -> (callee name on the shard, value returned when the shard raises Timeout,
#            exceptions of the callee that must propagate unchanged)
ROUTED = {
    'set': ('set', False, ()),
    'touch': ('touch', False, ()),
    'add': ('add', False, ()),
    'incr': ('incr', None, ('KeyError',)),
    'decr': ('decr', None, ('KeyError',)),
    'get': ('get', 'DEFAULT', ()),
    'pop': ('pop', 'DEFAULT', ()),
    'delete': ('delete', False, ()),
    '__setitem__': ('__setitem__', 'NOTIMEOUT', ()),
    '__getitem__': ('__getitem__', 'NOTIMEOUT', ('KeyError',)),
    '__delitem__': ('__delitem__', 'NOTIMEOUT', ('KeyError',)),
    '__contains__': ('__contains__', 'NOTIMEOUT', ()),
}
# which exceptions the real Cache methods can raise at all (from their docstrings / bodies):
# Timeout only when the call is made with retry false; operator forms use retry=True inside Cache.
CALLEE_EXC = {
    'set': ['Timeout'], 'touch': ['Timeout'], 'add': ['Timeout'], 'incr': ['Timeout', 'KeyError'],
    'decr': ['Timeout', 'KeyError'], 'get': ['Timeout', 'sqlite3.OperationalError'], 'pop': ['Timeout'],
    'delete': ['Timeout'], '__setitem__': [], '__getitem__': ['KeyError'], '__delitem__': ['KeyError'],
    '__contains__': [], 'expire': ['Timeout'], 'evict': ['Timeout'], 'cull': ['Timeout'],
    'clear': ['Timeout'], 'reset': ['Timeout'], 'check': ['Timeout'], 'stats': [], 'volume': [],
    'close': [], 'create_tag_index': [], 'drop_tag_index': [], '__len__': [], '__iter__': [],
    '__reversed__': [], 'transact': [],
}
COUNTING = ('expire', 'evict', 'cull', 'clear')


def shard_outcomes(st):
    def outcomes(name, bound):
        outs = ['return']
        if name in COUNTING:
            def counted(it, bound_, n):
                c = it.st.fresh_sv('removed_%s_%d' % (name, n), 'int')
                it.st.assume(c.t >= 0)
                return c
            outs = [('return', counted)]
        retry = bound.get('retry')
        for e in CALLEE_EXC.get(name, []):
            if e == 'Timeout' and retry is True:
                continue            # Cache never raises Timeout under retry=True (proved in c14)
            outs.append(e)
        return outs
    return outcomes


def make_fanout(ctx, st):
    n = st.fresh('shard_count', z3.IntSort())
    st.assume(n >= 1)
    Cache = ctx.cls('diskcache.core.Cache')
    outcomes = shard_outcomes(st)
    w = st.world
    w['ghost_removed'] = z3.IntVal(0)
    w['ghost_done'] = z3.K(z3.IntSort(), z3.IntVal(0))

    def elem(i):
        return Recorder('shard', Cache, index=i, outcomes=outcomes)
    shards = SymSeq(n, elem, tag='shards')

    def hash_impl(it, a, k):
        o = to_pyobj(a[0])
        if o is None:
            raise Unsupported('hash of %r' % (a[0],))
        h = H(o)
        it.st.assume(h >= 0)        # Disk.hash returns x & mask or x % mask: non-negative (c13 hash.spec)
        return SV('int', h)
    fields = {'_count': SV('int', n), '_shards': shards, '_hash': EnvFunc('self._hash', hash_impl),
              '_directory': st.fresh_sv('directory', 'str'), '_caches': {}, '_deques': {}, '_indexes': {}}
    return ctx.new_obj('diskcache.fanout.FanoutCache', fields), n


_ctx = {}


def fctx():
    if 'c' not in _ctx:
        c = context('core', 'persistent', 'fanout')
        mock.install(c.env)
        install_seq_support(c.env)
        install_loop_specs(c)
        _ctx['c'] = c
    return _ctx['c']


# ------------------------------------------------------------------ env support for SymSeq
def install_seq_support(env):
    if getattr(env, '_seq_support', False):
        return
    env._seq_support = True
    base_getitem = env.getitem_ext

    def getitem_ext(it, obj, idx):
        if isinstance(obj, SymSeq):
            t = int_term(idx)
            if it.st.branch(z3.And(t >= 0, t < obj.n)):
                return obj.elem(t)
            if it.st.branch(z3.And(t < 0, t >= -obj.n)):
                return obj.elem(obj.n + t)
            raise_py('IndexError', 'tuple index out of range')
        return base_getitem(it, obj, idx)
    env.getitem_ext = getitem_ext
    env.getitem = _wrap_getitem(env.getitem)

    def comp(it, e, fr):
        import ast
        if len(e.generators) != 1 or e.generators[0].ifs:
            return NotImplemented
        g = e.generators[0]
        src = it.eval(g.iter, fr)
        if not isinstance(src, (SymSeq, MappedSeq)):
            it._comp_src_cache = (g.iter, src)
            return NotImplemented
        from pyvc.engine import Frame
        cfr = Frame(fr.func, fr.module, {}, fr, selfcls=fr.selfcls)
        i = it.st.fresh('map_i', z3.IntSort())
        if isinstance(src, SymSeq):
            it.st.assume(z3.And(i >= 0, i < src.n))
            x = src.elem(i)
        else:
            i = src.index
            x = src.value
        it.assign_local(g.target, x, cfr)
        before = len(it.st.trace)
        if isinstance(e, ast.DictComp):
            return NotImplemented
        v = it.eval(e.elt, cfr)
        made = [t for t in it.st.trace[before:] if t[0] == 'CALL']
        it.st.trace[before:] = [t for t in it.st.trace[before:] if t[0] != 'CALL']
        m = MappedSeq(src, i, v, [c[1] for c in made], isinstance(e, ast.ListComp))
        it.st.effect('MAP', mapped=m)
        return m
    env.symbolic_comprehension = comp

    def bi_sum(it, a, k, _old=env.builtins['sum'].impl):
        if isinstance(a[0], MappedSeq):
            return Fold('sum', a[0], a[1] if len(a) > 1 else 0)
        return _old(it, a, k)
    env.builtins['sum'] = EnvFunc('sum', bi_sum)

    def bi_reversed(it, a, k, _old=env.builtins['reversed'].impl):
        if isinstance(a[0], SymSeq):
            return a[0].reversed()
        if isinstance(a[0], Recorder):
            return it.call(it.getattr(a[0], '__reversed__'), [], {})
        return _old(it, a, k)
    env.builtins['reversed'] = EnvFunc('reversed', bi_reversed)

    def bi_iter(it, a, k, _old=env.builtins['iter'].impl):
        if len(a) == 1 and isinstance(a[0], Recorder):
            return it.call(it.getattr(a[0], '__iter__'), [], {})
        return _old(it, a, k)
    env.builtins['iter'] = EnvFunc('iter', bi_iter)

    def bi_len(it, a, k, _old=env.builtins['len'].impl):
        if isinstance(a[0], Recorder):
            return it.call(it.getattr(a[0], '__len__'), [], {})
        return _old(it, a, k)
    env.builtins['len'] = EnvFunc('len', bi_len)

    def reduce_(it, a, k):
        f, seq = a[0], a[1]
        if isinstance(seq, MappedSeq) and isinstance(f, EnvFunc) and f.name == 'operator.iadd':
            return Fold('concat', seq, a[2] if len(a) > 2 else None)
        raise Unsupported('functools.reduce(%r, %r)' % (f, seq))
    env.modules['functools']['reduce'] = EnvFunc('functools.reduce', reduce_)
    env.modules['operator']['iadd'] = EnvFunc('operator.iadd', lambda it, a, k: env.binop(it, 'Add', a[0], a[1], inplace=True))
    chain = Obj('itertools.chain', {})
    env.modules['itertools']['chain'] = chain
    base_og = env.obj_getattr

    def og(it, o, name):
        if o is chain and name == 'from_iterable':
            def fi(it2, a, k):
                if isinstance(a[0], MappedSeq):
                    return Fold('chain', a[0])
                raise Unsupported('chain.from_iterable(%r)' % (a[0],))
            return EnvFunc('itertools.chain.from_iterable', fi)
        return base_og(it, o, name)
    env.obj_getattr = og

    base_unpack = env.unpack

    def unpack(it, v, n):
        if isinstance(v, Opaque) and v.kind == 'ret':
            return [Opaque('retpart', (v, j, n)) for j in range(n)]
        return base_unpack(it, v, n)
    env.unpack = unpack
    base_contains = env.contains

    def contains(it, cont, x):
        if isinstance(cont, Recorder):
            return it.call(it.getattr(cont, '__contains__'), [x], {})
        return base_contains(it, cont, x)
    env.contains = contains
    base_truth = env.dyn_truth


def _wrap_getitem(old):
    def getitem(it, obj, idx):
        if isinstance(obj, SymSeq):
            return it.env.getitem_ext(it, obj, idx)
        if isinstance(obj, Recorder):
            return it.call(it.getattr(obj, '__getitem__'), [idx], {})
        return old(it, obj, idx)
    return getitem


# ------------------------------------------------------------------ loop contracts
def _g(st, k):
    return st.world[k]


def install_loop_specs(ctx):
    """Invariants of the loops over self._shards (symbolic shard count)."""
    IntS = z3.IntSort()

    def done_upto(st, i):
        j = z3.Int('j_inv')
        d = st.world['ghost_done']
        return z3.ForAll([j], z3.Select(d, j) == z3.If(z3.And(j >= 0, j < i), 1, 0))

    def bind_cur(it, fr, i):
        it.st.world['cur_shard'] = i

    # FanoutCache._remove: outer for (ordinal 0), inner while (ordinal 1)
    def remove_outer(it, fr, i):
        tot = fr.locals.get('total')
        return z3.And(int_term(tot) == it.st.world['ghost_removed'], done_upto(it.st, i))

    def remove_inner(it, fr, _):
        tot = fr.locals.get('total')
        cur = it.st.world['cur_shard']
        j = z3.Int('j_inv')
        d = it.st.world['ghost_done']
        return z3.And(int_term(tot) == it.st.world['ghost_removed'],
                      z3.ForAll([j], z3.Select(d, j) == z3.If(z3.And(j >= 0, j < cur), 1, 0)))
    q = 'diskcache.fanout.FanoutCache._remove'
    ctx.loop_invariants[(q, 0)] = LoopSpec('C13._remove.outer', remove_outer,
                                          havoc_world=('ghost_removed', 'ghost_done'),
                                          shapes={'total': lambda st: st.fresh_sv('total', 'int')},
                                          on_bind=bind_cur)
    ctx.loop_invariants[(q, 1)] = LoopSpec('C13._remove.inner', remove_inner,
                                          havoc_world=('ghost_removed',),
                                          shapes={'total': lambda st: st.fresh_sv('total', 'int')})

    # simple each-shard-once loops: close, create_tag_index, drop_tag_index
    def each_once(it, fr, i):
        return done_upto(it.st, i)
    for m in ('close', 'create_tag_index', 'drop_tag_index'):
        ctx.loop_invariants[('diskcache.fanout.FanoutCache.' + m, 0)] = LoopSpec(
            'C13.%s.loop' % m, each_once, havoc_world=('ghost_done',))

    # reset: for each shard, retry until it does not time out
    def reset_inner(it, fr, _):
        cur = it.st.world['cur_shard']
        return done_upto(it.st, cur)
    ctx.loop_invariants[('diskcache.fanout.FanoutCache.reset', 0)] = LoopSpec(
        'C13.reset.outer', each_once, havoc_world=('ghost_done',), on_bind=bind_cur,
        shapes={'result': lambda st: Opaque('ret', st.fresh('reset_result', RET))})
    ctx.loop_invariants[('diskcache.fanout.FanoutCache.reset', 1)] = LoopSpec(
        'C13.reset.inner', reset_inner, havoc_world=())

    # ghost bookkeeping: a completed (normally returning) aggregate call marks the shard done;
    # counts returned or carried by Timeout are added to ghost_removed
    base = mock.call_recorded

    def call_recorded(it, rec, name, sig, a, k):
        st = it.st
        try:
            r = base(it, rec, name, sig, a, k)
        except PyRaise as e:
            if e.exc.cls == 'Timeout' and name in COUNTING and 'ghost_removed' in st.world:
                st.world['ghost_removed'] = st.world['ghost_removed'] + int_term(e.exc.args[0])
            raise
        if 'ghost_done' in st.world and rec.index is not None and name in AGG_METHODS:
            d = st.world['ghost_done']
            st.world['ghost_done'] = z3.Store(d, rec.index, z3.Select(d, rec.index) + 1)
            if name in COUNTING:
                st.world['ghost_removed'] = st.world['ghost_removed'] + int_term(r)
        return r
    mock.call_recorded = call_recorded


AGG_METHODS = COUNTING + ('close', 'create_tag_index', 'drop_tag_index', 'reset')


# ------------------------------------------------------------------ obligations: routing
def same_obj(a, b):
    if a is b:
        return True
    if isinstance(a, SV) and isinstance(b, SV):
        return a.ty == b.ty and a.t.eq(b.t)
    if isinstance(a, (Opaque, Dyn)) and type(a) is type(b) and not isinstance(a.t, tuple):
        return a.t.eq(b.t)
    if type(a) is type(b) and isinstance(a, (bool, int, str, float, type(None), bytes)):
        return a == b
    return False


def fresh_param(st, name):
    """An arbitrary argument value: opaque object, except flags that the code tests."""
    return Opaque('other', st.fresh('arg_' + name, OTHER))


def routed(method, kcls):
    """FanoutCache.<method>(key, ...) delegates to exactly one shard."""
    ctx = fctx()
    callee, on_timeout, propagate = ROUTED[method]
    fv = ctx.func('diskcache.fanout.FanoutCache.' + method)
    info = {}

    def run(st):
        it = ctx.interp(st)
        fan, n = make_fanout(ctx, st)
        key, _ = sym_value(kcls, 'key')
        params = [p.arg for p in fv.node.args.args][1:]
        args = {}
        for p in params:
            if p == 'key':
                args[p] = key
            elif p == 'retry':
                args[p] = st.fresh_sv('retry', 'bool')
            else:
                args[p] = fresh_param(st, p)
        info.update(args=args, n=n, fan=fan, key=key)
        return it.call(fv, [fan] + [args[p] for p in params], {})
    out = []
    paths = explore(run)
    for idx, p in enumerate(paths):
        base = 'C13.%s.routes[%s]#%d' % (method, kcls, idx)
        cs = calls(p)
        args, n, key = info['args'], info['n'], info['key']
        prob = None
        if len(cs) != 1:
            prob = 'expected exactly one shard call, got %d' % len(cs)
        else:
            c = cs[0]
            if c['name'] != callee:
                prob = 'calls shard.%s, expected shard.%s' % (c['name'], callee)
            else:
                for pn, pv in args.items():
                    if pn in c['bound'] and not same_obj(c['bound'][pn], pv):
                        prob = 'parameter %s of Cache.%s receives %r instead of the caller\'s %s' % (
                            pn, callee, c['bound'][pn], pn)
                        break
        if prob:
            out.append(Result(base, 'delegate', 'refuted', ms=0, backend='engine',
                              function='FanoutCache.' + method, path=p.decisions, detail=prob))
            continue
        c = cs[0]
        # shard index == hash(key) % count  (for every key, every count)
        goal = c['target'].index == H(to_pyobj(key)) % n
        out.append(discharge(base + '.index', 'delegate', p.pc, goal, function='FanoutCache.' + method,
                             path=p.decisions))
        # result / exception mapping
        ok, why = True, None
        if c['outcome'] == 'return':
            if method in ('__setitem__', '__delitem__'):
                ok = p.kind == 'return'
            else:
                ok = p.kind == 'return' and same_obj(p.value, c['ret'])
            why = 'shard returned %r but wrapper gives %s %r' % (c['ret'], p.kind, p.value)
        else:
            e = c['exc'].cls
            if e == 'Timeout' or (method == 'get' and e == 'sqlite3.OperationalError'):
                if on_timeout == 'NOTIMEOUT':
                    ok = False
                    why = 'operator form received Timeout'
                else:
                    exp = args.get('default') if on_timeout == 'DEFAULT' else on_timeout
                    ok = p.kind == 'return' and same_obj(p.value, exp)
                    why = 'on %s the wrapper gives %s %r, documented: return %r' % (e, p.kind, p.value, exp)
            elif e in propagate:
                ok = p.kind == 'raise' and p.value is c['exc']
                why = '%s from the shard must propagate unchanged, got %s %r' % (e, p.kind, p.value)
            else:
                ok = False
                why = 'unexpected shard exception %s' % e
        out.append(Result(base + '.result', 'delegate', 'proved' if ok else 'refuted', ms=0, backend='engine',
                          function='FanoutCache.' + method, path=p.decisions, detail=None if ok else why))
    if not paths:
        out.append(Result('C13.%s.routes[%s]' % (method, kcls), 'vacuity', 'error', detail='no paths'))
    return out


def read_routes():
    """FanoutCache.read = get(key, default=ENOVAL, read=True, retry=True) + KeyError on ENOVAL."""
    ctx = fctx()
    fv = ctx.func('diskcache.fanout.FanoutCache.read')
    info = {}

    def run(st):
        it = ctx.interp(st)
        fan, n = make_fanout(ctx, st)
        key, _ = sym_value('other', 'key')
        info.update(key=key, n=n)
        return it.call(fv, [fan, key], {})
    out = []
    ENOVAL = ctx.program.modules['diskcache.core'].globals['ENOVAL']
    for idx, p in enumerate(explore(run)):
        base = 'C13.read.routes#%d' % idx
        cs = calls(p)
        ok = len(cs) == 1 and cs[0]['name'] == 'get'
        why = 'calls %r' % [c['name'] for c in cs]
        if ok:
            b = cs[0]['bound']
            ok = (same_obj(b['key'], info['key']) and b['default'] is ENOVAL and b['read'] is True
                  and b['retry'] is True)
            why = 'get called with %r' % ({k: b[k] for k in ('default', 'read', 'retry')},)
        if ok:
            out.append(discharge(base + '.index', 'delegate', p.pc,
                                 cs[0]['target'].index == H(to_pyobj(info['key'])) % info['n'],
                                 function='FanoutCache.read', path=p.decisions))
            if cs[0]['outcome'] == 'return':
                ok = p.kind == 'return' and same_obj(p.value, cs[0]['ret'])
            else:
                ok = (p.kind == 'raise' and p.value.cls == 'KeyError')
            why = 'outcome %s -> %s %r' % (cs[0]['outcome'], p.kind, p.value)
        out.append(Result(base + '.result', 'delegate', 'proved' if ok else 'refuted', ms=0, backend='engine',
                          function='FanoutCache.read', path=p.decisions, detail=None if ok else why))
    return out


# ------------------------------------------------------------------ obligations: aggregates
def aggregate(method):
    ctx = fctx()
    fv = ctx.func('diskcache.fanout.FanoutCache.' + method)
    info = {}

    def run(st):
        it = ctx.interp(st)
        fan, n = make_fanout(ctx, st)
        params = [p.arg for p in fv.node.args.args][1:]
        args = {}
        for p in params:
            args[p] = st.fresh_sv('retry', 'bool') if p == 'retry' else fresh_param(st, p)
        info.update(args=args, n=n)
        return it.call(fv, [fan] + [args[p] for p in params], {})
    out = []
    paths = explore(run)
    n_ret = 0
    for idx, p in enumerate(paths):
        base = 'C13.%s.each_shard_once#%d' % (method, idx)
        for o in p.state.obligations:
            out.append(discharge('%s/%s' % (base, o.name), o.kind, o.pc, o.goal,
                                 function='FanoutCache.' + method, path=p.decisions))
        if p.kind == 'cut':
            continue
        if p.kind == 'raise' and method == 'check' and p.value.cls == 'Timeout':
            continue        # check() is not a data operation: a shard's Timeout propagates (documented)
        if p.kind == 'raise':
            out.append(Result(base + '.no_exception', 'delegate', 'refuted', ms=0, backend='engine',
                              function='FanoutCache.' + method, path=p.decisions,
                              detail='raises %r' % (p.value,)))
            continue
        n_ret += 1
        st = p.state
        n = info['n']
        j = z3.Int('j_post')
        if method in ('expire', 'evict', 'cull', 'clear'):
            # result = everything removed (returned or carried by Timeout), every shard completed once
            goal = z3.And(int_term(p.value) == st.world['ghost_removed'],
                          z3.ForAll([j], z3.Implies(z3.And(j >= 0, j < n), z3.Select(st.world['ghost_done'], j) == 1)))
            out.append(discharge(base + '.total_and_coverage', 'post', p.pc, goal,
                                 function='FanoutCache._remove', path=p.decisions))
        elif method in ('close', 'create_tag_index', 'drop_tag_index', 'reset'):
            goal = z3.ForAll([j], z3.Implies(z3.And(j >= 0, j < n), z3.Select(st.world['ghost_done'], j) == 1))
            out.append(discharge(base + '.coverage', 'post', p.pc, goal, function='FanoutCache.' + method,
                                 path=p.decisions))
        else:
            ok, why = check_fold(method, p)
            out.append(Result(base + '.fold', 'delegate', 'proved' if ok else 'refuted', ms=0, backend='engine',
                              function='FanoutCache.' + method, path=p.decisions, detail=None if ok else why))
    if n_ret == 0:
        out.append(Result('C13.%s.each_shard_once' % method, 'vacuity', 'error', detail='no returning path'))
    return out


FOLDS = {'__len__': ('sum', '__len__', False), 'volume': ('sum', 'volume', False),
         'check': ('concat', 'check', False), '__iter__': ('chain', '__iter__', False),
         '__reversed__': ('chain', '__reversed__', True)}


def check_fold(method, p):
    v = p.value
    if method == 'stats':
        if not (isinstance(v, tuple) and len(v) == 2):
            return False, 'stats returns %r' % (v,)
        for k, part in enumerate(v):
            if not (isinstance(part, Fold) and part.kind == 'sum'):
                return False, 'component %d is %r' % (k, part)
            inner = part.mapped
            if not (isinstance(inner, MappedSeq) and isinstance(inner.value, Opaque)
                    and inner.value.kind == 'retpart' and inner.value.t[1] == k and inner.value.t[2] == 2):
                return False, 'component %d does not sum element %d of the per-shard pairs' % (k, k)
            src = inner.seq
            if not (isinstance(src, MappedSeq) and len(src.calls) == 1 and src.calls[0]['name'] == 'stats'
                    and isinstance(src.seq, SymSeq) and not src.seq.rev and src.seq.tag == 'shards'):
                return False, 'pairs are not [shard.stats(...) for shard in self._shards]'
        return True, None
    kind, callee, rev = FOLDS[method]
    if not (isinstance(v, Fold) and v.kind == kind):
        return False, 'returns %r, expected %s over shards' % (v, kind)
    m = v.mapped
    if not (isinstance(m.seq, SymSeq) and m.seq.tag == 'shards' and m.seq.rev == rev):
        return False, 'does not range over all shards in %s order' % ('reverse' if rev else 'index')
    if len(m.calls) != 1 or m.calls[0]['name'] != callee:
        return False, 'per shard calls %r, expected one %s' % ([c['name'] for c in m.calls], callee)
    if not same_obj(m.value, m.calls[0]['ret']):
        return False, 'element is not the shard call result'
    return True, None


KEYCLS_FOR_ROUTING = ['other']


def tasks_c13(tier):
    ts = []
    for m in ROUTED:
        for kc in KEYCLS_FOR_ROUTING:
            ts.append(('contracts.fanout_common', 'routed', (m, kc)))
    ts.append(('contracts.fanout_common', 'read_routes', ()))
    for m in ('expire', 'evict', 'cull', 'clear', 'close', 'create_tag_index', 'drop_tag_index', 'reset',
              '__len__', 'volume', 'check', '__iter__', '__reversed__', 'stats'):
        ts.append(('contracts.fanout_common', 'aggregate', (m,)))
    return ts


def meta_common(pid, results, tier, extra_functions=()):
    fns = sorted({r.get('function') for r in results if r.get('function')})
    ctx = fctx()
    return {
        'functions': {'verified_bodies': sorted(set(fns) | set(extra_functions)),
                      'assumed_contracts': ['diskcache.core.Cache.* as called through Recorder (outcome lists in fanout_common.CALLEE_EXC)']},
        'trusted_base': sorted(ctx.env.trusted) + ['pyvc engine (Python subset semantics, DESIGN 2.2)',
                                                    'z3 5.1.0', 'cvc5 1.0.3 on z3 unknowns'],
        'assumptions': ['int is mathematical', 'shard count n >= 1 symbolic',
                        'Cache methods raise only the exceptions listed in CALLEE_EXC'],
        'explanation': 'FanoutCache bodies executed from /repo with symbolic shard count; Disk.hash executed per key class',
    }


# ------------------------------------------------------------------ FanoutCache.transact (C06)
def fanout_transact():
    """Every shard's transaction is entered exactly once, in index order, with retry=True, before the body
    runs; the ExitStack unwinds them all on normal and exceptional exits; retry=False is refused."""
    ctx = fctx()
    fv = ctx.func('diskcache.fanout.FanoutCache.transact')

    def entered_upto(st, i):
        j = z3.Int('j_ent')
        d = st.world['ghost_entered']
        return z3.ForAll([j], z3.Select(d, j) == z3.If(z3.And(j >= 0, j < i), 1, 0))
    ctx.loop_invariants[('diskcache.fanout.FanoutCache.transact', 0)] = LoopSpec(
        'C06.fanout.transact.loop', lambda it, fr, i: entered_upto(it.st, i), havoc_world=('ghost_entered',))
    out = []
    for retry, body_raises in ((True, False), (True, True), (False, False)):
        def run(st, retry=retry, body_raises=body_raises):
            it = ctx.interp(st)
            fan, n = make_fanout(ctx, st)
            st.world['ghost_entered'] = z3.K(z3.IntSort(), z3.IntVal(0))
            st.ghost['n'] = n

            def body(yielded):
                st.effect('BODY')
                if body_raises:
                    raise_py('RuntimeError', 'body failed')
            return it.call_function(fv, [fan, retry], {}, cm_body=body)
        for k, p in enumerate(explore(run)):
            st = p.state
            tr = st.trace
            base = 'C06.fanout.transact[retry=%s,body %s]#%d' % (retry, 'raises' if body_raises else 'ok', k)
            for o in st.obligations:
                out.append(discharge('%s/%s' % (base, o.name), o.kind, o.pc, o.goal, function='FanoutCache.transact', path=p.decisions))
            if p.kind == 'cut':
                ents = [e[1] for e in tr if e[0] == 'CM_ENTER']
                ok = len(ents) == 1 and ents[0]['name'] == 'transact' and ents[0]['bound'].get('retry') is True
                out.append(Result(base + '.each_step_enters_one_shard_with_retry', 'delegate', 'proved' if ok else 'refuted', ms=0,
                                  backend='engine', function='FanoutCache.transact', path=p.decisions,
                                  detail=None if ok else 'iteration enters %r' % [(e['name'], e['bound']) for e in ents]))
                continue
            if not retry:
                ok = p.kind == 'raise' and p.value.cls == 'AssertionError' and not [e for e in tr if e[0] == 'CM_ENTER']
                out.append(Result(base + '.refuses_retry_false', 'post', 'proved' if ok else 'refuted', ms=0, backend='engine',
                                  function='FanoutCache.transact', path=p.decisions, detail=None if ok else '%s %r' % (p.kind, p.value)))
                continue
            names = [e[0] for e in tr if e[0] in ('BODY', 'EXITSTACK_UNWIND')]
            ok = names == ['BODY', 'EXITSTACK_UNWIND'] and ((p.kind == 'raise' and p.value.cls == 'RuntimeError') if body_raises else p.kind == 'return')
            out.append(Result(base + '.body_inside_all_then_unwind', 'trace', 'proved' if ok else 'refuted', ms=0, backend='engine',
                              function='FanoutCache.transact', path=p.decisions, detail=None if ok else 'effects %r, exit %s %r' % (names, p.kind, p.value)))
            j = z3.Int('j_cov')
            n = st.ghost['n']
            goal = z3.ForAll([j], z3.Implies(z3.And(j >= 0, j < n), z3.Select(st.world['ghost_entered'], j) == 1))
            out.append(discharge(base + '.every_shard_entered_once', 'post', p.pc, goal, function='FanoutCache.transact', path=p.decisions))
    return out


def persistent_transact():
    """Deque.transact / Index.transact delegate to self._cache.transact(retry=True) around the body."""
    ctx = fctx()
    out = []
    for qual, short in (('diskcache.persistent.Deque', 'Deque'), ('diskcache.persistent.Index', 'Index')):
        fv = ctx.func(qual + '.transact')

        def run(st, qual=qual):
            it = ctx.interp(st)
            cache = Recorder('cache', ctx.cls('diskcache.core.Cache'))
            obj = ctx.new_obj(qual, {'_cache': cache})
            return it.call_function(fv, [obj], {}, cm_body=lambda y: st.effect('BODY'))
        for k, p in enumerate(explore(run)):
            tr = [(e[0], e[1].get('name'), e[1].get('bound')) for e in p.state.trace if e[0] in ('CM_ENTER', 'CM_EXIT', 'BODY')]
            ok = p.kind == 'return' and [t[0] for t in tr] == ['CM_ENTER', 'BODY', 'CM_EXIT'] and tr[0][1] == 'transact' and \
                tr[0][2].get('retry') is True
            out.append(Result('C06.%s.transact.delegates#%d' % (short, k), 'delegate', 'proved' if ok else 'refuted', ms=0,
                              backend='engine', function=short + '.transact', path=p.decisions, detail=None if ok else repr(tr)))
    return out

"""Bulk removal: Cache.clear / evict / expire through Cache._select_delete (C03, C04, C14).

The paging loop of _select_delete carries an inductive invariant (stated per
caller because the selection predicate differs):
  I1  representation invariant of the table
  I2  no cell of any row has been modified; a live row was live at entry
  I3  only rows matching the caller's predicate have been removed
  I4  count == rows removed so far (== card0 - card), committed section by section
  I5  (cursor variants) no live matching row has a rowid <= the cursor argument
Exit (empty page) then gives: every matching row is gone, nothing else changed,
the return value (or Timeout.args[0]) is the number of rows removed -- for ANY
number of rows and pages (the page size is whatever the code passes as LIMIT).
The inner `for row in rows` loop is summarised (shape-checked against the AST).
"""
import ast
import z3

from pyvc.check import Result, discharge
from pyvc.engine import explore, Unsupported, Batch, PathEnd
from pyvc.loops import LoopSpec, SymSeq
from pyvc import sqlmodel as SM
from pyvc.sqlmodel import DbVal
from pyvc.env import int_term, real_term
from contracts.cache_common import *   # noqa
from contracts import cache_common as cc
from contracts import c03

_I = z3.IntSort()
WKEYS = ['T.live', 'T.idx', 'T.card', 'S.count', 'S.size', 'F.exists']


class InnerRowLoop:
    """Summary of
           for row in rows:
               if row_index is not None:
                   args[arg_index] = row[row_index]
               cleanup(row[-1])
    i.e. args[arg_index] ends as the last row's value and every row's file name is scheduled."""

    name = 'bulk._select_delete.inner'

    def shape_ok(self, s):
        try:
            src = [ast.unparse(x) for x in s.body]
        except Exception:
            return False
        want1 = ['if row_index is not None:\n    args[arg_index] = row[row_index]', 'cleanup(row[-1])']
        return src == want1 and ast.unparse(s.target) == 'row' and not s.orelse

    def run(self, it, s, fr, iterable):
        if not isinstance(iterable, SymSeq):
            raise Unsupported('inner loop of _select_delete over %r' % (iterable,))
        if not self.shape_ok(s):
            raise Unsupported('inner loop of _select_delete has an unexpected shape (line %d)' % s.lineno)
        st = it.st
        L = iterable.n
        st.assume(L > 0)          # reached only with a non-empty page (`if not rows: break` precedes)
        row_index = fr.locals['row_index']
        args = fr.locals['args']
        if row_index is not None:
            last = iterable.elem(L - 1)
            it.setitem(args, fr.locals['arg_index'], it.getitem(last, row_index))
        i = st.fresh('batch_i', _I)
        v = it.getitem(iterable.elem(i), -1)
        cleanup = fr.locals['cleanup']
        target = getattr(cleanup, 'append_target', None)
        if target is None:
            raise Unsupported('cleanup is not the transaction cleanup list')
        target.append(Batch(iterable, i, v))
        st.effect('BATCH_COLLECT', seq=iterable, index=i, value=v)


def matcher(kind, st, args0):
    """Caller's selection predicate over rowid q, evaluated on the (never modified) cells."""
    w0 = c03.world0(st)

    def m(q):
        if kind == 'clear':
            return z3.BoolVal(True)
        if kind == 'evict':
            return SM.sql_eq(z3.Select(w0['T.tag'], q), args0['tag'])
        if kind == 'expire':
            return z3.And(z3.Not(z3.Select(w0['T.expire_time?'], q)), z3.Select(w0['T.expire_time'], q) < args0['now'])
    return m


def install_loops(ctx, kind):
    cursor_index = {'clear': 0, 'evict': 1, 'expire': None}[kind]

    def inv(it, fr, _):
        st = it.st
        w, w0 = st.world, c03.world0(st)
        q = z3.Int('q_bulk')
        m = matcher(kind, st, st.ghost['args0'])
        parts = [SM.invariant(w)]
        for c in SM.COLS:
            parts.append(w['T.' + c] == w0['T.' + c])
            if SM.COLS[c][1]:
                parts.append(w['T.' + c + '?'] == w0['T.' + c + '?'])
        parts.append(z3.ForAll([q], z3.Implies(z3.Select(w['T.live'], q), z3.Select(w0['T.live'], q))))
        parts.append(z3.ForAll([q], z3.Implies(z3.And(z3.Select(w0['T.live'], q), z3.Not(z3.Select(w['T.live'], q))), m(q))))
        cnt = int_term(fr.locals['count'])
        parts.append(z3.And(cnt == w0['T.card'] - w['T.card'], cnt >= 0))
        parts.append(z3.And(w['S.hits'] == w0['S.hits'], w['S.misses'] == w0['S.misses']))
        if cursor_index is not None:
            cur = int_term(fr.locals['args'][cursor_index])
            parts.append(z3.ForAll([q], z3.Implies(z3.And(z3.Select(w['T.live'], q), m(q)), q > cur)))
            parts.append(cur >= 0)
        parts.append(z3.BoolVal(not st.world.get('txn.active')))
        # the other statement parameters keep their initial values
        init = st.ghost.get('args_init')
        cur_args = fr.locals['args']
        if init is None:
            st.ghost['args_init'] = init = list(cur_args)
        for j, (a0, a1) in enumerate(zip(init, cur_args)):
            if j == cursor_index:
                continue
            parts.append(z3.BoolVal(True) if a0 is a1 else SM.to_dbval(it, a0) == SM.to_dbval(it, a1))
        return z3.And(*parts)

    def on_havoc(it, fr):
        # the body assigns args[arg_index] (when row_index is not None): that element is arbitrary at the
        # loop head; every other element of args is pinned by the invariant
        st = it.st
        if fr.locals.get('row_index') is not None:
            ai = fr.locals['arg_index']
            if not isinstance(ai, int):
                raise Unsupported('symbolic arg_index')
            old = fr.locals['args'][ai]
            nv = st.fresh_sv('cursor', 'int') if isinstance(old, (int, SV)) and not isinstance(old, bool) else \
                cc.DbCell(st.fresh('arg_havoc', DbVal))
            fr.locals['args'][ai] = nv
            if isinstance(nv, SV):
                st.ghost.setdefault('int64', set()).add(nv.t.get_id())
        st.ghost['inv_arrays'] = None
    q = 'diskcache.core.Cache._select_delete'
    ctx.loop_invariants[(q, 0)] = LoopSpec('bulk.%s.paging' % kind, inv, havoc_world=WKEYS, on_havoc=on_havoc)
    ctx.loop_invariants[(q, 1)] = InnerRowLoop()


def run_bulk(kind, retry_sym=True, busy=True):
    ctx = cctx()
    install_loops(ctx, kind)

    def body(st):
        ctx.sql.busy = busy
        ctx.sql.faults = False
        it = ctx.interp(st)
        cache = make_cache(ctx, st, policy='least-recently-stored')
        st.assume(c03.files_agree(st.world))
        retry = st.fresh_sv('retry', 'bool') if retry_sym else False
        a = {'retry': retry}
        args0 = {}
        if kind == 'evict':
            tag = cc.DbCell(st.fresh('tag', DbVal))
            a['tag'] = tag
            args0['tag'] = tag.t
        if kind == 'expire':
            now = st.fresh_sv('now_arg', 'real')
            st.assume(now.t > 0)
            a['now'] = now
            args0['now'] = now.t
        st.ghost['args0'] = args0
        st.ghost['args'] = a
        st.ghost['self'] = cache
        return it.call(ctx.func('diskcache.core.Cache.' + kind), [cache], dict(a))
    return explore(body, max_paths=4000)


def bulk_task(pid, kind):
    paths = run_bulk(kind)
    out = []
    nret = 0
    for n, p in enumerate(paths):
        st = p.state
        base = '%s.bulk.%s#%d' % (pid, kind, n)
        fn = 'Cache.%s/_select_delete' % kind
        for o in st.obligations:
            out.append(discharge('%s/%s' % (base, o.name), o.kind, o.pc, o.goal, function=fn, path=p.decisions))
        if p.kind == 'cut':
            continue
        w, w0 = st.world, c03.world0(st)
        q = z3.Int('q_post')
        m = matcher(kind, st, st.ghost['args0'])
        if p.kind == 'raise' and p.value.cls == 'Timeout':
            # C14: Timeout carries the number of rows removed in already committed sections
            if not p.value.args:
                out.append(Result(base + '.timeout_reports_count', 'raises', 'refuted', ms=0, backend='engine',
                                  function=fn, path=p.decisions, detail='Timeout without the removed count'))
            else:
                goal = z3.And(int_term(p.value.args[0]) == w0['T.card'] - w['T.card'],
                              z3.Not(st.ghost['args']['retry'].t))
                out.append(discharge(base + '.timeout_reports_count', 'raises', p.pc, goal, function=fn, path=p.decisions))
            continue
        if p.kind != 'return':
            out.append(Result(base + '.no_other_exception', 'post', 'refuted', ms=0, backend='engine', function=fn,
                              path=p.decisions, detail='raises %r' % (p.value,)))
            continue
        nret += 1
        parts = [('returns_removed', int_term(p.value) == w0['T.card'] - w['T.card']),
                 ('all_matching_removed', z3.ForAll([q], z3.Not(z3.And(z3.Select(w['T.live'], q), m(q))))),
                 ('only_matching_removed', z3.ForAll([q], z3.Implies(z3.And(z3.Select(w0['T.live'], q), z3.Not(m(q))), z3.Select(w['T.live'], q)))),
                 ('nothing_added', z3.ForAll([q], z3.Implies(z3.Select(w['T.live'], q), z3.Select(w0['T.live'], q)))),
                 ('cells_untouched', z3.And(*[w['T.' + c] == w0['T.' + c] for c in SM.COLS])),
                 ('invariant', SM.invariant(w))]
        for nm, g in parts:
            out.append(discharge('%s.%s' % (base, nm), 'refine', p.pc, g, function=fn, path=p.decisions))
    if nret == 0:
        out.append(Result('%s.bulk.%s' % (pid, kind), 'vacuity', 'error', detail='no returning path'))
    return out


# ------------------------------------------------------------------ Cache.cull (C09, C14)
def install_cull_loops(ctx):
    """cull(): expire(now) first (its paging invariant is the 'expire' instance above), then batches of the
    policy query while volume() > size_limit.  Invariant of the batch loop: table invariant, no cell
    modified, live rows were live at entry, count == rows removed so far (incl. the expired ones)."""
    install_loops(ctx, 'expire')

    def inv(it, fr, _):
        st = it.st
        w, w0 = st.world, c03.world0(st)
        q = z3.Int('q_cull')
        parts = [SM.invariant(w)]
        for c in SM.COLS:
            parts.append(w['T.' + c] == w0['T.' + c])
            if SM.COLS[c][1]:
                parts.append(w['T.' + c + '?'] == w0['T.' + c + '?'])
        parts.append(z3.ForAll([q], z3.Implies(z3.Select(w['T.live'], q), z3.Select(w0['T.live'], q))))
        cnt = int_term(fr.locals['count'])
        parts.append(z3.And(cnt == w0['T.card'] - w['T.card'], cnt >= 0))
        parts.append(z3.BoolVal(not st.world.get('txn.active')))
        # no expired row is left once expire(now) has run (live only shrinks afterwards)
        now = real_term(fr.locals['now'])
        parts.append(z3.ForAll([q], z3.Not(z3.And(z3.Select(w['T.live'], q), z3.Not(z3.Select(w0['T.expire_time?'], q)),
                                                  z3.Select(w0['T.expire_time'], q) < now))))
        return z3.And(*parts)

    def on_havoc(it, fr):
        it.st.ghost['inv_arrays'] = None
    ctx.loop_invariants[('diskcache.core.Cache.cull', 0)] = LoopSpec(
        'bulk.cull.batches', inv, havoc_world=WKEYS, on_havoc=on_havoc,
        shapes={'rows': lambda st: None, 'delete': lambda st: None})


def cull_task(pid, policy):
    ctx = cctx()
    install_cull_loops(ctx)

    def body(st):
        ctx.sql.busy = True
        ctx.sql.faults = False
        it = ctx.interp(st)
        cache = make_cache(ctx, st, policy=policy)
        st.assume(c03.files_agree(st.world))
        retry = st.fresh_sv('retry', 'bool')
        st.ghost['args'] = {'retry': retry}
        st.ghost['args0'] = {'now': None}
        st.ghost['self'] = cache
        st.ghost['lazy_now'] = True
        return it.call(ctx.func('diskcache.core.Cache.cull'), [cache], {'retry': retry})
    # the 'expire' matcher needs the `now` that cull() reads from the clock
    global matcher
    old_matcher = matcher

    def matcher2(kind, st, args0):
        if kind == 'expire' and args0.get('now') is None:
            ts = c03.clock_readings(st)
            args0 = dict(args0, now=ts[0]) if ts else args0
        return old_matcher(kind, st, args0)
    matcher = matcher2
    try:
        paths = explore(body, max_paths=4000)
    finally:
        matcher = old_matcher
    out = []
    nret = 0
    for n, p in enumerate(paths):
        st = p.state
        base = '%s.bulk.cull[%s]#%d' % (pid, policy, n)
        fn = 'Cache.cull'
        for o in st.obligations:
            out.append(discharge('%s/%s' % (base, o.name), o.kind, o.pc, o.goal, function=fn, path=p.decisions))
        if p.kind == 'cut':
            continue
        w, w0 = st.world, c03.world0(st)
        if p.kind == 'raise' and p.value.cls == 'Timeout':
            if not p.value.args:
                out.append(Result(base + '.timeout_reports_count', 'raises', 'refuted', ms=0, backend='engine', function=fn,
                                  path=p.decisions, detail='Timeout without the removed count'))
            else:
                out.append(discharge(base + '.timeout_reports_count', 'raises', p.pc,
                                     int_term(p.value.args[0]) == w0['T.card'] - w['T.card'], function=fn, path=p.decisions))
            continue
        if p.kind != 'return':
            r = discharge(base + '.no_other_exception', 'post', p.pc, z3.BoolVal(False), function=fn, path=p.decisions)
            r['detail'] = 'raises %r' % (p.value,) if r['verdict'] != 'proved' else None
            out.append(r)
            continue
        nret += 1
        q = z3.Int('q_cp')
        parts = [('returns_removed', int_term(p.value) == w0['T.card'] - w['T.card']),
                 ('nothing_added', z3.ForAll([q], z3.Implies(z3.Select(w['T.live'], q), z3.Select(w0['T.live'], q)))),
                 ('cells_untouched', z3.And(*[w['T.' + c] == w0['T.' + c] for c in SM.COLS])),
                 ('invariant', SM.invariant(w))]
        ts = c03.clock_readings(st)
        if ts:
            now = ts[0]
            parts.append(('expired_all_removed', z3.ForAll([q], z3.Not(z3.And(
                z3.Select(w['T.live'], q), z3.Not(z3.Select(w0['T.expire_time?'], q)), z3.Select(w0['T.expire_time'], q) < now)))))
            if policy == 'none':
                parts.append(('policy_none_removes_only_expired', z3.ForAll([q], z3.Implies(
                    z3.And(z3.Select(w0['T.live'], q), z3.Not(z3.Select(w['T.live'], q))),
                    z3.And(z3.Not(z3.Select(w0['T.expire_time?'], q)), z3.Select(w0['T.expire_time'], q) < now)))))
        for nm, g in parts:
            out.append(discharge('%s.%s' % (base, nm), 'refine', p.pc, g, function=fn, path=p.decisions))
    if nret == 0:
        out.append(Result('%s.bulk.cull[%s]' % (pid, policy), 'vacuity', 'error', detail='no returning path'))
    return out

"""C19 -- DjangoCache honours the Django cache-backend contract (routing level).

Bodies executed from /repo: every DjangoCache method and get_backend_timeout.
`self._cache` is a Recorder standing for the real FanoutCache class (arguments
bound by FanoutCache's real parameter names); BaseCache.make_key is an
environment contract (Django code): an injective function of (prefix, version, key).
"""
import z3

from pyvc.api import *          # noqa
from pyvc.check import Result, discharge
from pyvc.engine import explore, EnvFunc, Unsupported
from pyvc import mock
from pyvc.mock import Recorder, calls
from pyvc.env import real_term
from contracts.disk_common import context

_c = {}
MADE = z3.Function('django_make_key', OTHER, OTHER, OTHER)


def cctx():
    if 'c' not in _c:
        c = context('core', 'persistent', 'fanout', 'djangocache')
        mock.install(c.env)

        def make_key(it, o, a, k):
            key = a[0]
            version = k.get('version', a[1] if len(a) > 1 else None)
            it.env.use('Django BaseCache.make_key(key, version): "%s:%s:%s" % (prefix, version or self.version, key) (dependency code, assumed)')
            r = Opaque('other', it.st.fresh('made_key', OTHER))
            r.made_from = (key, version)
            it.st.effect('MAKE_KEY', key=key, version=version, ret=r)
            return r
        c.env.obj_methods['BaseCache'] = {'make_key': make_key}
        _c['c'] = c
    return _c['c']


def make_self(ctx, st, outcomes=None):
    fan = Recorder('fanout', ctx.cls('diskcache.fanout.FanoutCache'), outcomes=outcomes)
    dt = Opt(st.fresh('default_timeout_is_none', z3.BoolSort()), st.fresh_sv('default_timeout', 'real'))
    return ctx.new_obj('diskcache.djangocache.DjangoCache', {'_cache': fan, 'default_timeout': dt}), fan, dt


def timeout_cases(ctx, st):
    """timeout argument in {DEFAULT_TIMEOUT, None, any number}."""
    dj = ctx.lib.django_default_timeout
    d = st.decide(3)
    if d == 0:
        return dj, 'default'
    if d == 1:
        return None, 'none'
    return st.fresh_sv('timeout', 'real'), 'number'


def spec_backend_timeout(tval, kind, dt):
    """Django contract: DEFAULT -> the backend default; 0 -> already expired (any negative ttl);
    None -> None (forever); anything else unchanged.  Returns predicate on the result value."""
    def pred(res):
        if kind == 'default':
            if res is dt:
                return True
            if res is None:
                return dt.isnone
            if isinstance(res, SV) and res.t.eq(dt.inner.t):
                return z3.Not(dt.isnone)
            return False
        if kind == 'none':
            return res is None
        if isinstance(res, int) and not isinstance(res, bool):
            # the code maps 0 to -1
            return z3.And(tval.t == 0, z3.BoolVal(res < 0))
        if isinstance(res, SV):
            return z3.And(tval.t != 0, res.t == tval.t) if res.t.eq(tval.t) else False
        return False
    return pred


def same_opt(a, b):
    return a is b


def backend_timeout():
    ctx = cctx()
    out = []

    def run(st):
        it = ctx.interp(st)
        selfv, fan, dt = make_self(ctx, st)
        tval, kind = timeout_cases(ctx, st)
        st.ghost['info'] = (tval, kind, dt)
        return it.call(ctx.func('diskcache.djangocache.DjangoCache.get_backend_timeout'), [selfv], {'timeout': tval})
    for n, p in enumerate(explore(run)):
        tval, kind, dt = p.state.ghost['info']
        name = 'C19.get_backend_timeout.spec[%s]#%d' % (kind, n)
        if p.kind != 'return':
            out.append(Result(name, 'post', 'refuted', ms=0, backend='engine', detail='raises %r' % (p.value,),
                              function='DjangoCache.get_backend_timeout', path=p.decisions))
            continue
        g = spec_backend_timeout(tval, kind, dt)(p.value)
        if isinstance(g, bool):
            out.append(Result(name, 'post', 'proved' if g else 'refuted', ms=0, backend='engine',
                              function='DjangoCache.get_backend_timeout', path=p.decisions,
                              detail=None if g else 'returns %r for timeout %r' % (p.value, tval)))
        else:
            out.append(discharge(name, 'post', p.pc, g, function='DjangoCache.get_backend_timeout', path=p.decisions))
    return out


# method -> (callee on FanoutCache, uses make_key, timeout param -> callee param, default retry)
ROUTES = {
    'add': ('add', True, 'expire', True), 'get': ('get', True, None, False), 'read': ('read', True, None, None),
    'set': ('set', True, 'expire', True), 'touch': ('touch', True, 'expire', True),
    'pop': ('pop', True, None, True), 'delete': ('delete', True, None, True),
    'incr': ('incr', True, None, True), 'has_key': ('__contains__', True, None, None),
    'expire': ('expire', False, None, None), 'stats': ('stats', False, None, None),
    'create_tag_index': ('create_tag_index', False, None, None),
    'drop_tag_index': ('drop_tag_index', False, None, None), 'evict': ('evict', False, None, None),
    'cull': ('cull', False, None, None), 'clear': ('clear', False, None, None), 'close': ('close', False, None, None),
}
RENAMED = {'timeout': 'expire'}


def routes(method):
    ctx = cctx()
    callee, uses_key, tparam, default_retry = ROUTES[method]
    fv = ctx.func('diskcache.djangocache.DjangoCache.' + method)

    def outcomes(nm, b):
        outs = ['return']
        if nm == 'incr':
            outs.append('KeyError')
        return outs

    def run(st):
        it = ctx.interp(st)
        selfv, fan, dt = make_self(ctx, st, outcomes)
        params = [p.arg for p in fv.node.args.args][1:]
        args = {}
        kinds = {}
        for p_ in params:
            if p_ == 'timeout':
                args[p_], kinds['timeout'] = timeout_cases(ctx, st)
            elif p_ == 'delta':
                args[p_] = st.fresh_sv('delta', 'int')
            else:
                args[p_] = Opaque('other', st.fresh('arg_' + p_, OTHER))
        st.ghost['info'] = (args, kinds, dt)
        st.effect('ENTER')
        return it.call(fv, [selfv], dict(args))
    out = []
    paths = explore(run)
    for n, p in enumerate(paths):
        base = 'C19.%s.routes#%d' % (method, n)
        args, kinds, dt = p.state.ghost['info']
        cs = calls(p)
        mk = [e[1] for e in p.state.trace if e[0] == 'MAKE_KEY']
        prob = None
        if len(cs) != 1 or cs[0]['name'] != callee:
            prob = 'expected exactly one call of FanoutCache.%s, got %r' % (callee, [c['name'] for c in cs])
        elif uses_key:
            if len(mk) != 1 or mk[0]['key'] is not args['key'] or mk[0]['version'] is not args.get('version'):
                prob = 'make_key not applied once to (key, version): %r' % (mk,)
            elif cs[0]['bound'].get('key') is not mk[0]['ret']:
                prob = 'FanoutCache.%s receives key %r, not the namespaced key' % (callee, cs[0]['bound'].get('key'))
        goals = []
        if prob is None:
            b = cs[0]['bound']
            for pn, pv in args.items():
                if pn in ('key', 'version'):
                    continue
                if pn == 'timeout':
                    res = b.get(tparam)
                    g = spec_backend_timeout(pv, kinds['timeout'], dt)(res)
                    if g is False:
                        prob = 'timeout %r reaches FanoutCache.%s as %s=%r' % (pv, callee, tparam, res)
                    elif g is not True:
                        goals.append(g)
                    continue
                if pn == 'delta' and method == 'incr' and False:
                    continue
                if pn in b and b[pn] is not pv and not (isinstance(pv, SV) and isinstance(b[pn], SV) and b[pn].t.eq(pv.t)):
                    prob = "parameter %s of FanoutCache.%s receives %r instead of the caller's %s" % (pn, callee, b[pn], pn)
                    break
        if prob is None:
            c = cs[0]
            if c['outcome'] == 'return':
                if method in ('create_tag_index', 'drop_tag_index', 'close'):
                    ok = p.kind == 'return'
                else:
                    ok = p.kind == 'return' and p.value is c['ret']
                if not ok:
                    prob = 'result %s %r instead of the backend result' % (p.kind, p.value)
            else:
                ok = method == 'incr' and p.kind == 'raise' and p.value.cls == 'ValueError'
                if not ok:
                    prob = 'KeyError from the backend must become ValueError, got %s %r' % (p.kind, p.value)
        if prob:
            out.append(Result(base, 'delegate', 'refuted', ms=0, backend='engine',
                              function='DjangoCache.' + method, path=p.decisions, detail=prob))
        elif goals:
            out.append(discharge(base, 'delegate', p.pc, z3.And(*goals), function='DjangoCache.' + method,
                                 path=p.decisions))
        else:
            out.append(Result(base, 'delegate', 'proved', ms=0, backend='engine',
                              function='DjangoCache.' + method, path=p.decisions))
    if not paths:
        out.append(Result('C19.%s.routes' % method, 'vacuity', 'error', detail='no paths'))
    return out


def retry_defaults():
    """Documented defaults: writes retry, lookups do not (DjangoCache signatures)."""
    ctx = cctx()
    out = []
    for m, (_, _, _, dr) in ROUTES.items():
        if dr is None:
            continue
        fv = ctx.func('diskcache.djangocache.DjangoCache.' + m)
        a = fv.node.args
        names = [x.arg for x in a.args]
        dflt = dict(zip(names[len(names) - len(a.defaults):], a.defaults))
        v = dflt.get('retry')
        ok = v is not None and getattr(v, 'value', None) is dr
        out.append(Result('C19.%s.retry_default' % m, 'format-pin', 'proved' if ok else 'refuted', ms=0,
                          backend='engine', function='DjangoCache.' + m,
                          detail=None if ok else 'default retry is %r, documented %r' % (getattr(v, 'value', None), dr)))
    return out


def decr_negates():
    ctx = cctx()
    fv = ctx.func('diskcache.djangocache.DjangoCache.decr')

    def outcomes(nm, b):
        return ['return', 'KeyError'] if nm == 'incr' else ['return']

    def run(st):
        it = ctx.interp(st)
        selfv, fan, dt = make_self(ctx, st, outcomes)
        args = {'key': Opaque('other', st.fresh('key', OTHER)), 'delta': st.fresh_sv('delta', 'int'),
                'version': Opaque('other', st.fresh('version', OTHER)),
                'default': Opaque('other', st.fresh('default', OTHER)), 'retry': st.fresh_sv('retry', 'bool')}
        st.ghost['info'] = args
        return it.call(fv, [selfv], dict(args))
    out = []
    for n, p in enumerate(explore(run)):
        args = p.state.ghost['info']
        cs = calls(p)
        name = 'C19.decr.negates#%d' % n
        if len(cs) != 1 or cs[0]['name'] != 'incr':
            out.append(Result(name, 'delegate', 'refuted', ms=0, backend='engine', function='DjangoCache.decr',
                              detail='calls %r' % [c['name'] for c in cs]))
            continue
        b = cs[0]['bound']
        ok = b['default'] is args['default'] and isinstance(b['retry'], SV) and b['retry'].t.eq(args['retry'].t)
        if not ok:
            out.append(Result(name, 'delegate', 'refuted', ms=0, backend='engine', function='DjangoCache.decr',
                              detail='incr(%r)' % (b,)))
            continue
        out.append(discharge(name, 'delegate', p.pc, b['delta'].t == -args['delta'].t,
                             function='DjangoCache.decr', path=p.decisions))
    return out


def tasks(tier):
    ts = [('contracts.c19', 'backend_timeout', ()), ('contracts.c19', 'retry_defaults', ()),
          ('contracts.c19', 'decr_negates', ())]
    for m in ROUTES:
        ts.append(('contracts.c19', 'routes', (m,)))
    # the backend's answers are those of Cache.<method> (through FanoutCache, C13): their contracts, in particular
    # "a key is gone from the instant its expiry time is reached" for every operation alike
    from contracts import c03
    ts += c03.dependency_tasks('C19', ['set', 'add', 'get', 'touch', 'incr', 'pop', 'delete', '__contains__'], tier=tier)
    return ts


def meta(results, tier):
    return {'functions': {'verified_bodies': ['diskcache.djangocache.DjangoCache.' + m for m in list(ROUTES) + ['decr', 'get_backend_timeout']],
                          'assumed_contracts': ['FanoutCache.* through Recorder (its own contract is C13/C14)',
                                                'django BaseCache.make_key / get_many / set_many / delete_many / get_or_set / incr_version (dependency code)']},
            'assumptions': ['floats in timeouts treated as reals', 'make_key is an injective function of (prefix, version, key)',
                            'composition with C04: a negative ttl is expired at every later reading'],
            'explanation': 'every DjangoCache method body executed against a recorder FanoutCache; timeout in {DEFAULT, None, any real}'}


def post_process(results, tier):
    from contracts import c03 as _c03
    return _c03.dependency_rename('C19', results)

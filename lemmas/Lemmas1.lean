import Mathlib.Data.List.Basic
import Mathlib.Data.List.Lex
import Mathlib.Order.Basic
open List

-- L-flat-inj: flattening a list of pairs is injective (args_to_key kwargs part)
theorem flat_inj {α : Type} : ∀ (l₁ l₂ : List (α × α)),
    (l₁.flatMap fun p => [p.1, p.2]) = (l₂.flatMap fun p => [p.1, p.2]) → l₁ = l₂
  | [], [] , _ => rfl
  | [], (b::l₂), h => by simp [List.flatMap_cons] at h
  | (a::l₁), [], h => by simp [List.flatMap_cons] at h
  | (a::l₁), (b::l₂), h => by
      simp [List.flatMap_cons] at h
      obtain ⟨h1, h2, h3⟩ := h
      have := flat_inj l₁ l₂ h3
      subst this
      cases a; cases b; simp_all

-- L-lex-prefix: anything strictly between P++a and P++b starts with P
-- (queue range 'p-000…' < key < 'p-999…' ⇒ key starts with 'p-')
theorem lex_range_prefix {α : Type} [LinearOrder α] :
    ∀ (P a b k : List α), P ++ a < k → k < P ++ b → P <+: k
  | [], _, _, k, _, _ => List.nil_prefix
  | (p :: P), a, b, [], h1, _ => by simp at h1
  | (p :: P), a, b, (c :: k), h1, h2 => by
      simp only [List.cons_append] at h1 h2
      rw [List.cons_lt_cons_iff] at h1 h2
      rcases h1 with h1 | ⟨h1e, h1⟩
      · rcases h2 with h2 | ⟨h2e, h2⟩
        · exact absurd (lt_trans h1 h2) (lt_irrefl _)
        · subst h2e; exact absurd h1 (lt_irrefl _)
      · subst h1e
        rcases h2 with h2 | ⟨_, h2⟩
        · exact absurd h2 (lt_irrefl _)
        · have := lex_range_prefix P a b k h1 h2
          exact (List.prefix_cons_inj p).mpr this

-- L-lex-cancel: a common prefix does not affect the order
theorem lex_cancel {α : Type} [LinearOrder α] :
    ∀ (P x y : List α), P ++ x < P ++ y ↔ x < y
  | [], x, y => by simp
  | (p :: P), x, y => by
      simp only [List.cons_append]
      rw [List.cons_lt_cons_iff]
      constructor
      · rintro (h | ⟨_, h⟩)
        · exact absurd h (lt_irrefl _)
        · exact (lex_cancel P x y).mp h
      · intro h; exact Or.inr ⟨rfl, (lex_cancel P x y).mpr h⟩

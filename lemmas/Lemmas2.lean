import Mathlib.Data.List.Lex
import Mathlib.Tactic

-- L-digits: equal-length big-endian digit lists order as the numbers they denote
def val : List ℕ → ℕ
  | [] => 0
  | d :: l => d * 10 ^ l.length + val l

theorem val_lt : ∀ (l : List ℕ), (∀ d ∈ l, d < 10) → val l < 10 ^ l.length
  | [], _ => by simp [val]
  | d :: l, h => by
      have hd : d < 10 := h d (by simp)
      have hl := val_lt l (fun x hx => h x (by simp [hx]))
      simp only [val, List.length_cons, pow_succ]
      nlinarith [Nat.pow_pos (n := l.length) (by norm_num : 0 < 10)]

theorem digits_order : ∀ (l₁ l₂ : List ℕ), l₁.length = l₂.length →
    (∀ d ∈ l₁, d < 10) → (∀ d ∈ l₂, d < 10) → (l₁ < l₂ ↔ val l₁ < val l₂)
  | [], [], _, _, _ => by simp [val]
  | [], _ :: _, h, _, _ => by simp at h
  | _ :: _, [], h, _, _ => by simp at h
  | a :: l₁, b :: l₂, h, h1, h2 => by
      have hlen : l₁.length = l₂.length := by simpa using h
      have ih := digits_order l₁ l₂ hlen (fun x hx => h1 x (by simp [hx]))
        (fun x hx => h2 x (by simp [hx]))
      have v1 := val_lt l₁ (fun x hx => h1 x (by simp [hx]))
      have v2 := val_lt l₂ (fun x hx => h2 x (by simp [hx]))
      rw [List.cons_lt_cons_iff]
      simp only [val]
      rw [hlen] at v1 ⊢
      have hp : 0 < 10 ^ l₂.length := Nat.pow_pos (by norm_num)
      constructor
      · rintro (hab | ⟨rfl, hl⟩)
        · nlinarith
        · have := ih.mp hl; omega
      · intro hv
        rcases lt_trichotomy a b with hab | hab | hab
        · exact Or.inl hab
        · subst hab; exact Or.inr ⟨rfl, ih.mpr (by omega)⟩
        · exfalso; nlinarith
